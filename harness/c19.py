"""C19 — state feature mixins (Tags, Error, Volatile, Retry) on every machine class:
correspondence of real machines decorated with @add_state_features(...) with the Coq model
coq/Model/Features.v (about which Props/C19.v proves the contracts), plus the property's
clauses evaluated directly on the implementation's observations (oracle)."""
import copy

from flat import _import_transitions

PID = 'C19'
KIND = 8
IMPL = ('c19', 'impl_features')
COUNTS = dict(quick=4000, thorough=40000)
RULE = ('cases = random subset and order of (Tags, Error, Volatile, Retry) passed to @add_state_features on '
        'Machine / HierarchicalMachine / LockedMachine / LockedHierarchicalMachine x 1-4 states (flat) or, on 55% of '
        'the hierarchical classes, a state tree of 2-5 states, depth <= 3, initial children, transitions biased to '
        'siblings / parent / child, children reusing the hook name of their parent 40% (nested stream, Volatile '
        'first in the decorator) x random feature arguments (tags incl. \'accepted\' given as a list, a tuple or - '
        'a single tag - a bare string, the caller\'s object checked afterwards; accepted flag, hook name out '
        'of 3, custom or default volatile class, retries 0-3 with on_failure recorder, final=True on 35% of the '
        'states independently of accepted / tags / outgoing transitions, 0-2 on_enter / on_exit '
        'recorders) x 1-3 events with condition-free transitions (reflexive 35%, internal 8%, states without outgoing '
        'transition) x 1-3 models, each hook name pre-occupied with probability 0.17 per model by an instance '
        'attribute set before the machine is attached or by an attribute of the model\'s class x histories of 1-14 '
        'model.trigger calls (50% repeat the previous call, 4% unknown event), in 60% of the cases with Error (25% of '
        'the others) interleaved with 1-4 machine.add_transition / machine.remove_transition(event, source=state) '
        'calls biased to taking a state\'s last outgoing transition away, giving a dead end a way out and re-adding '
        'what was removed; re-entrant stream (30% of the flat cases with Retry, 8% of the others, fixed table): 1-2 '
        'on_enter callbacks trigger an event on their own model inside the callback (unqueued machine), 85% the '
        'reflexive event of their state, the first 1-6 times they are invoked; every 9th case is from the malformed '
        'stream (arguments of absent mixins, retries without on_failure, Tags before Error, duplicate mixin).  After '
        'every call: callback trace (enter/exit/on_failure, model, state seen), result / exception type, every '
        'model\'s state and the identity of the object visible under each hook name (fresh = never observed before '
        'under any name on any model); is_<tag> of every state; the same history on the undecorated class.  '
        'Decoration: one decorator or (30%) two stacked ones splitting the order, Timeout with timeout=0 as an inert '
        'extra mix-in (30%); enter / exit recorders attached through the state definition, a model method named '
        'on_<kind>_<state> and machine.on_<kind>_<state>(cb) in order; inert on_final / on_timeout callbacks attached '
        'the same three ways on every class, their registration (helper present, registered callbacks) observed on the '
        'decorated and the undecorated machine.  '
        'Non-trivial: construction succeeded and some call hit a mixin branch (Error raised, on_failure fired, a '
        'volatile object replaced, or a state entered while its hook name was occupied), distinct by hash of the case.')
ASSUMPTIONS = ['callbacks do not raise; on_enter callbacks may trigger an event on their own model on an unqueued machine '
               '(re-entrant stream, flat configurations with a fixed table, bounded by a per-callback budget); on_exit / '
               'on_failure callbacks and queued machines do not call back (C04/C05 cover those)',
               'transitions carry no conditions (C01 covers candidate selection); state trees without parallel states',
               'the order-independent specification (FeaturesSpec) and the oracle clauses on traces cover flat '
               'configurations; on state trees the model (FeaturesH) is compared with the implementation and the '
               'Volatile / Error / frame clauses are evaluated',
               'Timeout only with timeout=0 (inert mix-in: callback kind on_timeout, no timers; C17 covers timers)',
               'stacked decorators: at most one of them brings Tags (explicitly or through Error), so that the MRO is '
               'outer arguments then inner arguments (otherwise C3 linearisation interleaves them)',
               'on_final / on_timeout callbacks are inert: their registration is observed, their firing is C18 / C17',
               'object identity observed with all created objects kept alive (no id reuse); an object overwritten '
               'before the call returns is not observed']
THEOREMS = ['C19_tags', 'C19_error_iff', 'C19_retry_spec', 'C19_retry_exact', 'C19_volatile',
            'C19_volatile_nonvacuous', 'C19_volatile_refuted', 'C19_volatile_refuted_error', 'C19_per_model',
            'C19_frame_state', 'C19_frame', 'C19_frame_nonvacuous', 'C19_volatile_entry_fresh',
            'C19_volatile_exit_removes', 'C19_volatile_occupied', 'C19_retry_spec_occupied', 'C19_hier_flat',
            'C19_hier_fresh', 'C19_volatile_refuted_nested', 'C19_dyn_static', 'C19_error_iff_dynamic',
            'C19_has_trigger_add', 'C19_has_trigger_remove', 'C19_error_dynamic', 'C19_retry_refuted_dynamic',
            'C19_retry_reentrant', 'C19_reentrant_static', 'C19_reentrant_prefix', 'C19_retry_reentrant_demo',
            'C19_error_final_independent', 'C19_final_frame', 'C19_kinds_exact', 'C19_kinds_frame', 'C19_kinds_stack', 'C19_stack_inert',
            'C19_kinds_example']

TAGS = [0, 1, 2, 3, 4]
HOOKS = [0, 1, 2]
CLASSES = ['Machine', 'HierarchicalMachine', 'LockedMachine', 'LockedHierarchicalMachine']
FT, FE, FV, FR = 0, 1, 2, 3
FTO = 4       # Timeout with timeout=0: inert, not part of the model's order (C17 covers timers)


def hook_name(h):
    return 'scope' if h == 0 else 'hk%d' % h


def tag_name(t):
    return 'accepted' if t == 0 else 'tg%d' % t


# ------------------------------------------------------------------ generation
def gen(rng, i, tier):
    malformed = (i % 9 == 8)
    feats = [f for f in (FT, FE, FV, FR) if rng.random() < 0.62]
    rng.shuffle(feats)
    if FT in feats and FE in feats and feats.index(FT) < feats.index(FE) and not (malformed and rng.random() < 0.4):
        a, b = feats.index(FT), feats.index(FE)
        feats[a], feats[b] = feats[b], feats[a]
    if malformed and feats and rng.random() < 0.15:
        feats.insert(rng.randrange(len(feats) + 1), rng.choice(feats))
    has = dict(tags=FT in feats or FE in feats, acc=FE in feats, hook=FV in feats, retry=FR in feats)
    cls = rng.choice(CLASSES)
    nested = 'Hierarchical' in cls and rng.random() < 0.55
    if nested and FV in feats:
        # nested cases keep Volatile at the head of the decorator: the chain-cut classes KF-C19-1/-2 are
        # explored on flat configurations, the nested stream is about hook names shared along a branch
        feats.remove(FV)
        feats.insert(0, FV)
    ns = rng.randint(2, 5) if nested else rng.randint(1, 4)
    parent = [None] * ns
    initial = []
    if nested:
        depth = [0] * ns
        for s in range(1, ns):
            if rng.random() < 0.65:
                par = rng.randrange(s)
                if depth[par] < 2:
                    parent[s] = par
                    depth[s] = depth[par] + 1
        for s in range(ns):
            kids = [c for c in range(ns) if parent[c] == s]
            if kids and rng.random() < 0.8:
                initial.append([s, rng.choice(kids)])
    cb = [0]

    def cbs(hi=2):
        out = []
        for _ in range(rng.choice([0, 1, 1, hi])):
            cb[0] += 1
            out.append(cb[0])
        return out

    states = []
    for s in range(ns):
        g_tags = has['tags'] and rng.random() < 0.7
        g_acc = has['acc'] and rng.random() < 0.5
        g_hook = has['hook'] and rng.random() < 0.7
        g_retry = has['retry'] and rng.random() < 0.8
        if malformed:
            g_tags = g_tags or rng.random() < 0.1
            g_acc = g_acc or rng.random() < 0.1
            g_hook = g_hook or rng.random() < 0.1
            g_retry = g_retry or rng.random() < 0.1
        tags = sorted(rng.sample([0, 1, 2, 3], rng.choice([0, 1, 1, 2]))) if g_tags else []
        if 0 in tags and rng.random() < 0.6:
            tags.remove(0)
        acc = (rng.random() < 0.5) if g_acc else False
        hook = rng.choice(HOOKS) if g_hook else 0
        if nested and parent[s] is not None and has['hook'] and rng.random() < 0.4:
            hook, g_hook = states[parent[s]]['hook'], True          # the hook name of the parent
        elif nested and has['hook'] and rng.random() < 0.5:
            hook, g_hook = 1 + s % 2, True
        vcls = g_hook and rng.random() < 0.5
        retries = rng.choice([0, 1, 1, 2, 2, 3]) if g_retry else 0
        onf = None
        if g_retry and (retries > 0 or rng.random() < 0.3):
            cb[0] += 1
            onf = cb[0]
            if malformed and retries > 0 and rng.random() < 0.2:
                onf = None
        states.append(dict(id=s, given=[g_tags, g_acc, g_hook, g_retry], enter=cbs(), exit=cbs(), tags=tags,
                           final=rng.random() < 0.35,      # State.final: must not influence any mixin
                           accepted=acc, hook=hook, vcls=vcls, retries=retries, on_failure=onf))
    ne = rng.randint(1, 3)
    trans = []
    for e in range(ne):
        for s in range(ns):
            if rng.random() < 0.55:
                for _ in range(rng.choice([1, 1, 1, 2])):
                    k = rng.random()
                    dst = None if k < 0.08 else s if k < 0.43 else rng.randrange(ns)
                    if nested and k >= 0.25:
                        sib = [c for c in range(ns) if c != s and parent[c] == parent[s]]
                        kids = [c for c in range(ns) if parent[c] == s]
                        k2 = rng.random()
                        if k2 < 0.4 and sib:
                            dst = rng.choice(sib)
                        elif k2 < 0.55 and parent[s] is not None:
                            dst = parent[s]
                        elif k2 < 0.7 and kids:
                            dst = rng.choice(kids)
                        else:
                            dst = rng.randrange(ns)
                    trans.append([e, s, dst])
    if not trans:
        trans.append([0, 0, rng.randrange(ns)])
    rng.shuffle(trans)
    nm = rng.randint(1, 3)
    hist = []
    for _ in range(rng.randint(1, 14)):
        if hist and rng.random() < 0.5:
            hist.append(list(hist[-1]))
        else:
            hist.append([rng.randrange(nm), ne + 2 if rng.random() < 0.04 else rng.randrange(ne)])
    # the machine's transitions change while it runs: add_transition / remove_transition(event, source=...)
    # between the calls, biased to what matters for Error: take a state's last outgoing transition away, give a
    # dead end a way out, remove and re-add
    # re-entrant stream (flat, fixed table): an on_enter callback triggers an event on its own model while the
    # machine has no queue — typically the reflexive retry event of a Retry state — the first <budget> times
    retrig = []
    if not nested and not malformed and rng.random() < (0.3 if FR in feats else 0.08):
        for _ in range(rng.choice([1, 1, 2])):
            cand = [s_ for s_ in states if s_['retries'] > 0] if rng.random() < 0.7 else []
            s_ = rng.choice(cand or states)
            if not s_['enter']:
                cb[0] += 1
                s_['enter'].append(cb[0])
            refl = [t[0] for t in trans if t[1] == s_['id'] and t[2] == s_['id']]
            if not refl and rng.random() < 0.8:
                e_ = rng.randrange(ne)
                trans.insert(0, [e_, s_['id'], s_['id']])
                refl = [e_]
            ev = rng.choice(refl) if refl and rng.random() < 0.85 else rng.randrange(ne + 1)
            c_ = rng.choice(s_['enter'])
            if not any(x[0] == c_ for x in retrig):
                retrig.append([c_, ev, rng.randint(1, 6)])
    if not retrig and rng.random() < (0.6 if FE in feats else 0.25):
        cur = [list(t) for t in trans]
        out = []
        removed = []
        pending = rng.randint(1, 4)
        for i, hc in enumerate(hist):
            out.append(hc)
            while pending and rng.random() < 0.35:
                pending -= 1
                srcs = sorted({t[1] for t in cur})
                dead = [x for x in range(ns) if x not in srcs]
                k = rng.random()
                if k < 0.45 and cur:
                    pairs = sorted({(t[0], t[1]) for t in cur})
                    lone = [pr for pr in pairs if sum(1 for q in pairs if q[1] == pr[1]) == 1]
                    e, s_ = rng.choice(lone if lone and rng.random() < 0.7 else pairs)
                    removed.extend(t for t in cur if t[0] == e and t[1] == s_)
                    cur = [t for t in cur if not (t[0] == e and t[1] == s_)]
                    out.append(['rm', e, s_])
                else:
                    if removed and rng.random() < 0.3:
                        t = list(rng.choice(removed))
                    else:
                        s_ = rng.choice(dead) if dead and rng.random() < 0.7 else rng.randrange(ns)
                        kk = rng.random()
                        t = [rng.randrange(ne + 1), s_, None if kk < 0.08 else s_ if kk < 0.4 else rng.randrange(ns)]
                    cur.append(t)
                    out.append(['add'] + t)
        hist = out
    # how the callbacks are attached, and the shape of the decoration
    for s_ in states:
        for kind in ('enter', 'exit'):
            n = len(s_[kind])
            if rng.random() < 0.5:
                s_[kind + '_reg'] = [0] * n
            else:
                a = rng.randint(0, n)
                b = min(n, a + rng.choice([0, 1]))
                s_[kind + '_reg'] = [0] * a + [1] * (b - a) + [2] * (n - b)
        s_['tagform'] = rng.choice([0, 0, 1, 2, 2])     # tags given as list / tuple / (a single tag) bare string
        s_['fin'] = [int(rng.random() < 0.35) for _ in range(3)]
        s_['tmo'] = [int(rng.random() < 0.3) for _ in range(3)]
    decor = [list(feats)]
    if not malformed:
        if rng.random() < 0.3:
            decor[0].insert(rng.randrange(len(decor[0]) + 1), FTO)     # inert Timeout (timeout=0) somewhere in the MRO
        if rng.random() < 0.3:
            cut = rng.randint(0, len(decor[0]))
            outer, inner = decor[0][:cut], decor[0][cut:]
            # Error derives from Tags: when both decorators bring Tags (explicitly or through Error) Python's C3
            # linearisation interleaves them (e.g. (Error, Volatile) over (Retry, Tags) gives Error, Retry, Tags,
            # Volatile); the model's stack order is outer ++ inner, so such stacks are not generated
            if not (set(outer) & {FT, FE} and set(inner) & {FT, FE}):
                decor = [outer, inner]                                  # @add_state_features(outer) over (inner)
    case = dict(cls=cls, order=feats, states=states, trans=trans, ignore=rng.random() < 0.25, decor=decor,
                nmodels=nm, init=rng.randrange(ns), history=hist, tree=None, pre=[], clsattr=[], retrig=retrig)
    if nested:
        case['tree'] = dict(parent=parent, initial=initial)
        case['init'] = ([case['init']] + init_chain(case, case['init']))[-1]
    # hook names already occupied on the model: instance attributes set before the machine is attached,
    # attributes of the model's class
    k = 0
    for m in range(nm):
        for h in HOOKS:
            if rng.random() < 0.17:
                (case['pre'] if rng.random() < 0.5 else case['clsattr']).append([m, h, k])
                k += 1
    return case


# ------------------------------------------------------------------ state trees
def _parent(case):
    t = case.get('tree')
    return t['parent'] if t else [None] * len(case['states'])


def path_of(case, s):
    par = _parent(case)
    p = []
    while s is not None:
        p.append(s)
        s = par[s] if s < len(par) else None
    return p[::-1]


def build_order(case):
    """the states in the order the machine constructs them (a parent, then its children, depth first)"""
    par = _parent(case)
    out = []

    def visit(s):
        out.append(s)
        for c in case['states']:
            if par[c['id']] == s['id']:
                visit(c)
    for s in case['states']:
        if par[s['id']] is None:
            visit(s)
    return out


def full_name(case, s):
    return '_'.join('s%d' % a for a in path_of(case, s))


def init_chain(case, s):
    t = case.get('tree')
    ini = dict((a, b) for a, b in t['initial']) if t else {}
    out = []
    while s in ini and len(out) < len(case['states']):
        s = ini[s]
        out.append(s)
    return out


def resolve(case, p, d):
    """states exited (deepest first) / entered (outermost first) by a transition to d from the active path p"""
    dp = path_of(case, d)
    n = 0
    while n < len(p) and n < len(dp) and p[n] == dp[n]:
        n += 1
    ra, rd = p[n:], dp[n:]
    if not rd:
        return ([d] + ra)[::-1], [d] + init_chain(case, d)
    return ra[::-1], rd + init_chain(case, d)


def cand_on_path(case, e, p):
    for a in reversed(p):
        t = _first_cand(case, e, a)
        if t is not None:
            return t
    return None


def path_hook_clash(case, p):
    hooks = [_sd(case)[a]['hook'] for a in p]
    return len(set(hooks)) < len(hooks)



def is_call(hc):
    return len(hc) == 2


def apply_op(trans, hc):
    """the transition table after a history entry"""
    if is_call(hc):
        return trans
    if hc[0] == 'add':
        return trans + [[hc[1], hc[2], hc[3]]]
    return [t for t in trans if not (t[0] == hc[1] and t[1] == hc[2])]


def enc_hist(hc):
    if is_call(hc):
        return [0, hc[0], hc[1]]
    if hc[0] == 'add':
        return [1, hc[1], hc[2], [] if hc[3] is None else [hc[3]]]
    return [2, hc[1], hc[2]]


def enc(case):
    tree = case.get('tree')
    paths = [[s['id'], path_of(case, s['id'])] for s in case['states']] if tree else []
    inits = [list(x) for x in tree['initial']] if tree else []
    pre, cl = case.get('pre', []), case.get('clsattr', [])
    return [case['order'],
            [[s['id'], [bool(x) for x in s['given']], s['enter'], s['exit'], s['tags'], bool(s['accepted']),
              s['hook'], s['retries'], [] if s['on_failure'] is None else [s['on_failure']]] for s in build_order(case)],
            [[e, s, [] if d is None else [d]] for e, s, d in case['trans']],
            bool(case['ignore']), case['nmodels'], case['init'], [enc_hist(hc) for hc in case['history']], TAGS, HOOKS,
            paths, inits, [list(x) for x in pre], [list(x) for x in cl], len(pre) + len(cl),
            [list(x) for x in case.get('retrig', [])],
            [s['id'] for s in build_order(case) if s.get('final')],
            [list(a) for a in (case.get('decor') or [case['order']])], 'Hierarchical' in case['cls']]


# ------------------------------------------------------------------ implementation side
class Vol(object):
    """a user-supplied volatile class"""


class Preset(object):
    """an object that sits under a hook name before the machine is attached"""


def _exc_code(tr, ex):
    if isinstance(ex, tr.MachineError):
        return 0
    if isinstance(ex, AttributeError):
        return 1
    if isinstance(ex, TypeError):
        return 2
    return 9


def _run_machine(tr, case, decorated):
    from transitions import extensions as ext
    from transitions.extensions import states as S
    feats = {FT: S.Tags, FE: S.Error, FV: S.Volatile, FR: S.Retry, FTO: S.Timeout}
    base = tr.Machine if case['cls'] == 'Machine' else getattr(ext, case['cls'])
    nested = bool(case.get('tree'))
    log = []
    pre, cl = case.get('pre', []), case.get('clsattr', [])
    objs = [Preset() for _ in range(len(pre) + len(cl))]      # identities 0..k-1 exist before the first event
    models = []
    mid = {}
    name_id = {full_name(case, s['id']): s['id'] for s in case['states']}

    def state_int(model):
        return name_id.get(str(model.state), 999)

    retrig = {c: (e, b) for c, e, b in case.get('retrig', [])}
    ncalls = {}

    def rec(kind, cb):
        def f(event_data):
            log.append([kind, cb, mid.get(id(event_data.model), 99), state_int(event_data.model)])
            if kind == 1 and cb in retrig:
                n = ncalls.get(cb, 0)
                ncalls[cb] = n + 1
                if n < retrig[cb][1]:        # processed at once, inside this callback: the machine has no queue
                    event_data.model.trigger('e%d' % retrig[cb][0])
        f.__name__ = 'cb%d_%d' % (kind, cb)
        return f

    par = _parent(case)
    ini = dict((a, b) for a, b in case['tree']['initial']) if nested else {}

    # callbacks attached the dynamic way: a model method named on_<kind>_<state> (picked up when the model is added)
    # and machine.on_<kind>_<state>(callback) after construction; enter/exit recorders are split over the three
    # ways in order, on_final / on_timeout get inert callbacks whose REGISTRATION is observed
    conv = {}
    for s in case['states']:
        full = full_name(case, s['id'])
        for kind, k in (('enter', 1), ('exit', 0)):
            for c, way in zip(s[kind], s.get(kind + '_reg') or []):
                if way == 1:
                    conv['on_%s_%s' % (kind, full)] = (lambda self, ed, _f=rec(k, c): _f(ed))
        for kind, key in (('on_final', 'fin'), ('on_timeout', 'tmo')):
            if (s.get(key) or [0, 0, 0])[1]:
                conv['%s_%s' % (kind, full)] = (lambda self, *a: None)
    for mi in range(case['nmodels']):
        attrs = {hook_name(h): objs[o] for m, h, o in cl if m == mi}
        attrs.update(conv)
        mo = type('Mo%d' % mi, (object,), attrs)()
        for m, h, o in pre:
            if m == mi:
                setattr(mo, hook_name(h), objs[o])
        models.append(mo)
    mid.update({id(m): i for i, m in enumerate(models)})
    has_tmo = FTO in [f for args in (case.get('decor') or [case['order']]) for f in args]
    hier = 'Hierarchical' in case['cls']

    def fd(*a):
        pass

    def fh(*a):
        pass

    def given(s, kind):
        reg = s.get(kind + '_reg') or [0] * len(s[kind])
        return [c for c, way in zip(s[kind], reg) if way == 0]

    given_tags = {}       # the caller's tags objects: must come back unchanged

    def sdef(s):
        d = dict(name='s%d' % s['id'], on_enter=[rec(1, c) for c in given(s, 'enter')],
                 on_exit=[rec(0, c) for c in given(s, 'exit')])
        if hier and (s.get('fin') or [0])[0]:
            d['on_final'] = [fd]
        if decorated and has_tmo:
            if (s.get('tmo') or [0])[0]:
                d['on_timeout'] = [fd]
            if s['id'] % 2:
                d['timeout'] = 0
        if s.get('final'):
            d['final'] = True
        if decorated:
            g_tags, g_acc, g_hook, g_retry = s['given']
            if g_tags:
                names = [tag_name(t) for t in s['tags']]
                form = s.get('tagform', 0)
                obj = names[0] if form == 2 and len(names) == 1 else tuple(names) if form == 1 else names
                given_tags[s['id']] = (obj, list(names), type(obj))
                d['tags'] = obj
            if g_acc:
                d['accepted'] = s['accepted']
            if g_hook:
                d['hook'] = hook_name(s['hook'])
                if s['vcls']:
                    d['volatile'] = Vol
            if g_retry:
                d['retries'] = s['retries']
                if s['on_failure'] is not None:
                    d['on_failure'] = rec(2, s['on_failure'])
        kids = [c for c in case['states'] if par[c['id']] == s['id']]
        if kids:
            d['children'] = [sdef(c) for c in kids]
            if s['id'] in ini:
                d['initial'] = 's%d' % ini[s['id']]
        return d

    sdefs = [sdef(s) for s in case['states'] if par[s['id']] is None]
    try:
        class M(base):
            pass
        if decorated:
            # stacked decorators: the innermost (last) one is applied first
            for args in reversed(case.get('decor') or [case['order']]):
                M = S.add_state_features(*[feats[f] for f in args])(M)
        machine = M(model=models, states=sdefs, initial=full_name(case, case['init']), auto_transitions=False,
                    send_event=True, ignore_invalid_triggers=case['ignore'])
        for e, s, d in case['trans']:
            machine.add_transition('e%d' % e, full_name(case, s), None if d is None else full_name(case, d))
        for s in case['states']:
            full = full_name(case, s['id'])
            for kind, k in (('enter', 1), ('exit', 0)):
                for c, way in zip(s[kind], s.get(kind + '_reg') or []):
                    if way == 2:
                        getattr(machine, 'on_%s_%s' % (kind, full))(rec(k, c))
    except (TypeError, AttributeError, ValueError) as ex:
        return None, [1, _exc_code(tr, ex)]

    table = []
    if decorated:
        for s in build_order(case):
            st = machine.get_state(full_name(case, s['id']))
            row = []
            for t in TAGS:
                try:
                    row.append([bool(getattr(st, 'is_' + tag_name(t)))])
                except AttributeError:
                    row.append([])
            obj, names, typ = given_tags.get(s['id'], ([], [], list))
            same = type(obj) is typ and (obj == names[0] if typ is str else list(obj) == names)
            table.append(row + [[bool(same)]])

    reg = []
    for s in build_order(case):
        full = full_name(case, s['id'])
        st = machine.get_state(full)
        row = []
        for kind, key in (('on_final', 'fin'), ('on_timeout', 'tmo')):
            name = '%s_%s' % (kind, full)
            if (s.get(key) or [0, 0, 0])[2]:
                try:
                    getattr(machine, name)(fh)
                except AttributeError:
                    pass
            labels = [2 if cb is fh else 0 if cb is fd else 1 if cb == name else 9
                      for cb in (getattr(st, kind, None) or [])]
            row.append([bool(hasattr(machine, name)), labels])
        reg.append(row)

    def ident(o):
        for i, x in enumerate(objs):
            if x is o:
                return i
        objs.append(o)                      # kept alive: no id reuse
        return len(objs) - 1

    steps = []
    for hc in case['history']:
        del log[:]
        try:
            if is_call(hc):
                r = models[hc[0]].trigger('e%d' % hc[1])
            elif hc[0] == 'add':
                machine.add_transition('e%d' % hc[1], full_name(case, hc[2]),
                                       None if hc[3] is None else full_name(case, hc[3]))
                r = True
            else:
                machine.remove_transition('e%d' % hc[1], source=full_name(case, hc[2]))
                r = True
            res = [0, bool(r)]
        except Exception as ex:  # noqa
            res = [1, _exc_code(tr, ex)]
        snap = []
        for mo in models:
            hk = []
            for h in HOOKS:
                o = getattr(mo, hook_name(h), None)
                hk.append([] if o is None else [ident(o)])
            snap.append([state_int(mo), hk])
        steps.append([[list(x) for x in log], res, snap])
    return (table, steps, reg), None


def impl_features(case):
    tr = _import_transitions()
    dec, err = _run_machine(tr, case, True)
    if err is not None:
        return [1, err]
    plain, perr = _run_machine(tr, case, False)
    if perr is not None:
        return {'harness_error': 'undecorated machine could not be built: %r' % (perr,)}
    table, steps, reg = dec
    psteps = [[items, res, [[st, []] for st, _ in snap]] for items, res, snap in plain[1]]
    return [1, [0, table, steps, psteps, [reg, plain[2]]]]


def expected_reg(case, avail=None):
    """callback kinds beyond enter/exit: [helper machine.on_<kind>_<state> exists, registered callbacks in order:
    0 given in the state definition, 1 the model method on_<kind>_<state>, 2 added through the helper] per state
    for on_final (kind of the hierarchical state class) and on_timeout (kind of the Timeout mix-in), on the
    decorated and on the undecorated machine"""
    hier = 'Hierarchical' in case['cls']
    has_tmo = FTO in [f for args in (case.get('decor') or [case['order']]) for f in args]
    if avail is None:        # [[on_final, on_timeout] decorated, the same undecorated]; the model prints its own
        avail = [[hier, has_tmo], [hier, False]]
    out = []
    for av in avail:
        tab = []
        for s in build_order(case):
            row = []
            for key, a in zip(('fin', 'tmo'), av):
                fl = s.get(key) or [0, 0, 0]
                row.append([bool(a), [w for w in (0, 1, 2) if fl[w]] if a else []])
            tab.append(row)
        out.append(tab)
    return out


# ------------------------------------------------------------------ the property's clauses on an observation
def _sd(case):
    return {s['id']: s for s in case['states']}


def _has(case):
    o = case['order']
    return dict(tags=FT in o or FE in o, error=FE in o, vol=FV in o, retry=FR in o)


def _eff_tags(case, s):
    h = _has(case)
    return s['tags'] + ([0] if h['error'] and s['accepted'] else [])


def _first_cand(case, e, s):
    for t in case['trans']:
        if t[0] == e and t[1] == s:
            return t
    return None


def _error_state(case, s):
    """no outgoing transition (on the state or, in a state tree, on any of its ancestors) and not accepted"""
    branch = set(path_of(case, s['id']))
    return not any(t[1] in branch for t in case['trans']) and 0 not in _eff_tags(case, s)


def chain_guard(case):
    """no mixin that can cut the enter chain (Retry with retries > 0, Error with an error state) precedes
    Volatile in the decorator"""
    o = case['order']
    if FV not in o:
        return True
    before = o[:o.index(FV)]
    if FR in before and any(s['retries'] > 0 for s in case['states']):
        return False
    if FE in before and (any(_error_state(case, s) for s in case['states']) or is_dynamic(case)):
        return False            # with add/remove_transition any state may become an error state
    return True


def is_dynamic(case):
    return any(not is_call(hc) for hc in case['history'])


def spec_guard(case):
    """the order-independent specification describes the model: C19_volatile's guard, and not the stale-counter
    class KF-C19-4 (Error before Retry on a machine whose transitions change)"""
    o = case['order']
    return volatile_guard(case) and not (is_dynamic(case) and FE in o and FR in o and o.index(FE) < o.index(FR))


def branch_guard(case):
    """no two states of one branch (a state and one of its ancestors) use the same hook name"""
    return not any(path_hook_clash(case, path_of(case, s['id'])) for s in case['states'])


def volatile_guard(case):
    """guard of C19_volatile"""
    return chain_guard(case) and (FV not in case['order'] or branch_guard(case))


def py_rrun(case):
    """expected observations of a re-entrant case, written from the property: an entry is counted before the
    enter callbacks run, so an entry nested in one of them sees it; on_failure instead of the enter callbacks once
    more than `retries` consecutive entries have been counted; a raise of a nested trigger ends the outer ones"""
    sd, h = _sd(case), _has(case)
    nm = case['nmodels']
    cur = [case['init']] * nm
    streak = [0] * nm
    calls = {}
    retrig = {c: (e, b) for c, e, b in case.get('retrig', [])}
    known = {t[0] for t in case['trans']}

    def step(m, e, depth):
        if depth > 60:
            raise RuntimeError('re-entrant budget exceeded')
        t = _first_cand(case, e, cur[m]) if e in known else None
        if t is None:
            return [], ([0, False] if case['ignore'] else [1, 0 if e in known else 1])
        if t[2] is None:
            return [], [0, True]
        s, d = cur[m], t[2]
        ds = sd[d]
        items = [[0, c, m, s] for c in sd[s]['exit']]
        err = h['error'] and _error_state(case, ds)
        k = streak[m] if s == d else 0
        exhausted = h['retry'] and ds['retries'] > 0 and k > ds['retries']
        cur[m] = d
        streak[m] = k if exhausted else k + 1
        if err:
            return items, [1, 0]
        if exhausted:
            return items + [[2, ds['on_failure'], m, d]], [0, True]
        for c in ds['enter']:
            items.append([1, c, m, cur[m]])
            n = calls.get(c, 0)
            calls[c] = n + 1
            if c in retrig and n < retrig[c][1]:
                it, res = step(m, retrig[c][0], depth + 1)
                items += it
                if res[0] == 1:
                    return items, res
        return items, [0, True]

    out = []
    for hc in case['history']:
        items, res = step(hc[0], hc[1], 0)
        out.append([items, res, list(cur)])
    return out


def check_reentrant(case, obs):
    bad = []
    _, table, steps, psteps = obs[1][:4]
    h = _has(case)
    for s, row in zip(build_order(case), table):
        for t, ans in zip(TAGS, row):
            exp = [t in _eff_tags(case, s)] if h['tags'] else []
            if ans != exp:
                bad.append(('C19_tags', 'state %d tag %d: %r' % (s['id'], t, ans), {}))
        if len(row) > len(TAGS) and row[len(TAGS)] != [True]:
            bad.append(('C19_tags', 'state %d: the tags object given by the caller was changed' % s['id'], {}))
    for k, ((items, res, snap), (xi, xr, xs)) in enumerate(zip(steps, py_rrun(case))):
        if items != xi or res != xr or [st for st, _ in snap] != xs:
            bad.append(('C19_retry_reentrant', 'call %d: %r %r %r expected %r %r %r' % (
                k, items, res, [st for st, _ in snap], xi, xr, xs), {}))
            break
    return bad


def check_clauses(case, obs, info=None):
    """returns the list of (clause, detail, data) that fail on the observation.  Object identities are only
    compared for equality: an object expected to be FRESH must never have been observed before (under any
    name, on any model, including the objects that existed before the machine was attached); an object expected
    to be KEPT must be the one observed since its creation."""
    bad = []
    if not isinstance(obs, list) or obs[0] != 1 or obs[1][0] != 0:
        return bad
    if len(obs[1]) >= 5 and obs[1][4] != expected_reg(case):
        # "leave all other behaviour of the machine unchanged": the machine's own callback kinds (on_final of the
        # hierarchical state class) and those of every decorator in a stack (on_timeout) stay available
        bad.append(('C19_frame', 'callback kinds [decorated, undecorated]: %r expected %r' % (obs[1][4], expected_reg(case)), {}))
    if case.get('retrig'):
        return bad + check_reentrant(case, obs)
    _, table, steps, psteps = obs[1][:4]
    sd = _sd(case)
    h = _has(case)
    nested = bool(case.get('tree'))
    nm = case['nmodels']
    info = info if info is not None else {}
    # C19_tags
    for s, row in zip(build_order(case), table):
        for t, ans in zip(TAGS, row):
            exp = [t in _eff_tags(case, s)] if h['tags'] else []
            if ans != exp:
                bad.append(('C19_tags', 'state %d tag %d: %r' % (s['id'], t, ans), {}))
        if len(row) > len(TAGS) and row[len(TAGS)] != [True]:
            bad.append(('C19_tags', 'state %d: the tags object given by the caller was changed' % s['id'], {}))
    cur = [case['init']] * nm
    pre = [dict((hh, o) for m, hh, o in case.get('pre', []) if m == j) for j in range(nm)]
    cls = [dict((hh, o) for m, hh, o in case.get('clsattr', []) if m == j) for j in range(nm)]
    act = [dict() for _ in range(nm)]          # per model: entered active state -> token of its object
    emap = {}                                   # token -> observed identity
    seen_ids = set(o for _, _, o in case.get('pre', [])) | set(o for _, _, o in case.get('clsattr', []))
    ntok = [0]
    streak = [0] * nm
    trans = [list(t) for t in case['trans']]
    stale = [False] * nm       # the model sits in a state whose entry raised before Retry.enter ran (Error, .., Retry)
    order = case['order']
    err_before_retry = FE in order and FR in order and order.index(FE) < order.index(FR)
    for k, (hc, (items, res, snap), (pitems, pres, psnap)) in enumerate(zip(case['history'], steps, psteps)):
        if not is_call(hc):
            # add_transition / remove_transition: no callback, no model touched
            prev = steps[k - 1][2] if k > 0 else None
            if items or res != [0, True] or (prev is not None and snap != prev):
                bad.append(('C19_frame', 'reconfiguration %d: %r %r' % (k, items, res), {}))
            trans = apply_op(trans, hc)
            continue
        m, e = hc
        case = dict(case, trans=trans)          # every helper below reads the table current at this call
        known_events = {t[0] for t in trans}
        feature_free = all(s['retries'] == 0 for s in case['states']) and not (
            h['error'] and any(_error_state(case, s) for s in case['states']))
        p = path_of(case, cur[m])
        t = cand_on_path(case, e, p) if e in known_events else None
        # per-model separation: the other models are untouched by this call
        if k > 0:
            for j in range(nm):
                if j != m and snap[j] != steps[k - 1][2][j]:
                    bad.append(('C19_per_model', 'call %d changed model %d' % (k, j), {}))
        # frame: states follow the undecorated machine; on feature-free configurations everything does
        if [s for s, _ in snap] != [s for s, _ in psnap]:
            bad.append(('C19_frame_state', 'call %d' % k, {}))
        if feature_free and (items != pitems or res != pres):
            bad.append(('C19_frame', 'call %d' % k, {}))
        if t is not None and t[2] is not None:
            d = t[2]
            exits, enters = resolve(case, p, d)
            raised = res == [1, 0]
            # C19_error_iff: the first entered state that is an error state NOW (no outgoing transition in the
            # current table, not accepted) raises, nothing else does
            err_at = next((i for i, a in enumerate(enters) if h['error'] and _error_state(case, sd[a])), None)
            if raised != (err_at is not None):
                bad.append(('C19_error_iff', 'call %d entering %r: %r' % (k, enters, res), {}))
            if not nested:
                # C19_retry_spec / C19_retry_exact (flat configurations: one streak per model)
                src, ds = cur[m], sd[d]
                if src != d:
                    streak[m] = 0
                    stale[m] = False
                exhausted = h['retry'] and ds['retries'] > 0 and streak[m] > ds['retries']
                if not exhausted:
                    streak[m] += 1
                ex_items = [[0, c, m, src] for c in sd[src]['exit']]
                it_fail = ex_items + [[2, ds['on_failure'], m, d]]
                it_enter = ex_items + [[1, c, m, d] for c in ds['enter']]
                exp_items = ex_items if raised else it_fail if exhausted else it_enter
                if items != exp_items:
                    known = stale[m] and src == d and not raised and ds['retries'] > 0 and items in (it_fail, it_enter)
                    bad.append(('C19_retry_spec', 'call %d: %r expected %r' % (k, items, exp_items),
                                dict(k=k, j=m, stale=known)))
                    if known:       # resynchronise on the counter the implementation evidently has
                        streak[m] = ds['retries'] + 1 if items == it_fail else 1
                if raised and err_before_retry and src != d:
                    stale[m] = True
            # C19_volatile: every exit removes what is under the state's hook name, every entry that takes
            # place puts a fresh object there, whatever was under the name before
            if h['vol']:
                for a in exits:
                    act[m].pop(a, None)
                    pre[m].pop(sd[a]['hook'], None)
                remaining = [a for a in p if a not in exits]
                entered = enters if err_at is None else enters[:err_at + 1]
                for a in entered:
                    hk = sd[a]['hook']
                    if hk in pre[m] or hk in cls[m] or any(sd[b]['hook'] == hk for b in remaining if b in act[m]):
                        info['entries_with_occupied_hook'] = info.get('entries_with_occupied_hook', 0) + 1
                    pre[m].pop(hk, None)
                    ntok[0] += 1
                    act[m][a] = ('new', ntok[0])
                    remaining.append(a)
            cur[m] = enters[-1]
        elif items:
            bad.append(('C19_frame', 'call %d ran callbacks without a state change' % k, {}))
        for j in range(nm):
            pj = path_of(case, cur[j])
            for hi, hk in enumerate(HOOKS):
                holders = [a for a in pj if a in act[j] and sd[a]['hook'] == hk]
                got = snap[j][1][hi]
                got = got[0] if got else None
                if holders:
                    tok = act[j][holders[-1]]
                    if tok in emap:
                        ok = got == emap[tok]
                        exp = 'the object created at the entry of state %d' % holders[-1]
                    else:
                        ok = got is not None and got not in seen_ids
                        exp = 'a fresh object (entry of state %d)' % holders[-1]
                        if ok:
                            emap[tok] = got
                else:
                    want = pre[j].get(hk, cls[j].get(hk))
                    ok = got == want
                    exp = 'nothing' if want is None else 'the pre-existing object %d' % want
                if not ok:
                    bad.append(('C19_volatile', 'call %d model %d hook %d holds %r expected %s' % (k, j, hk, got, exp),
                                dict(k=k, j=j, hook=hk, got=got, path=pj, before=p if j == m else pj)))
                    # resynchronise on what is there so that one defect is reported once
                    for a in holders:
                        del act[j][a]
                    pre[j].pop(hk, None)
                    if got is not None and got != cls[j].get(hk):
                        owner = [a for a in pj if sd[a]['hook'] == hk]
                        if owner:
                            ntok[0] += 1
                            act[j][owner[-1]] = ('adopted', ntok[0])
                            emap[act[j][owner[-1]]] = got
                        else:
                            pre[j][hk] = got
                if got is not None:
                    seen_ids.add(got)
    return bad


def oracle(case, obs):
    bad = check_clauses(case, obs)
    return '%s: %s' % bad[0][:2] if bad else None


def classify_known(case, model_obs, impl_obs):
    """KF-C19-1: Retry precedes Volatile in the decorator and an exhausted retry (on_failure fired) left the
    model in the state without its volatile object.  KF-C19-2: Error precedes Volatile and the entry into an
    error state raised before Volatile.enter.  KF-C19-3: a state and one of its ancestors use the same hook
    name and the model is / was in both (the child's entry overwrites, its exit deletes the parent's object).
    KF-C19-4: Error precedes Retry, an entry from another state raised MachineError before Retry.enter could reset
    the counter, the state then received an outgoing self transition (add_transition) and its re-entries are
    counted from the stale counter.
    Every other failing clause stays a violation."""
    bad = check_clauses(case, impl_obs)
    if not bad or any(c not in ('C19_volatile', 'C19_retry_spec') for c, _, _ in bad):
        return None
    o = case['order']
    before = o[:o.index(FV)] if FV in o else []
    steps = impl_obs[1][2]
    sd = _sd(case)
    kinds = set()
    for c, detail, data in bad:
        if c == 'C19_retry_spec':
            if data.get('stale'):
                kinds.add('KF-C19-4')
                continue
            return None
        k, j, hk = data['k'], data['j'], data['hook']
        items, res, snap = steps[k]
        m = case['history'][k][0]
        own = [a for a in data['path'] if sd[a]['hook'] == hk]
        own_before = [a for a in data['before'] if sd[a]['hook'] == hk]
        if len(own) > 1 or len(own_before) > 1:
            kinds.add('KF-C19-3')
        elif j == m and own and FR in before and any(it[0] == 2 for it in items):
            kinds.add('KF-C19-1')
        elif j == m and own and FE in before and res == [1, 0]:
            kinds.add('KF-C19-2')
        else:
            return None
    return sorted(kinds)[0] if kinds else None


# ------------------------------------------------------------------ bookkeeping
def canon(case, obs):
    """(1) the model's output carries the specification's run and the hierarchical engine's run on flat cases as
    extra components: they are consumed by extra_checks, not compared with the implementation; (2) objects are
    numbered by creation in the model and by first observation in the harness (an object overwritten before the
    call returns is never observed): both are renumbered by first observation — only equality of identities
    and freshness are compared."""
    if not (isinstance(obs, list) and len(obs) == 2 and isinstance(obs[1], list) and obs[1] and obs[1][0] == 0):
        return obs
    k0 = len(case.get('pre', [])) + len(case.get('clsattr', []))
    ren = {}
    steps = []
    for items, res, snap in obs[1][2]:
        sn = []
        for st, hk in snap:
            row = []
            for v in hk:
                if v and v[0] >= k0:
                    if v[0] not in ren:
                        ren[v[0]] = k0 + len(ren)
                    row.append([ren[v[0]]])
                else:
                    row.append(list(v))
            sn.append([st, row])
        steps.append([items, res, sn])
    # the model prints which callback kinds the decorated / undecorated state class has (FeaturesKinds)
    reg = expected_reg(case, obs[1][6]) if len(obs[1]) == 7 else obs[1][4] if len(obs[1]) == 5 else None
    table = obs[1][1]
    if len(obs[1]) == 7:          # the model's rows: is_<tag> answers; the caller's tags object is never touched
        table = [row + [[1]] for row in table]
    return [obs[0], [0, table, steps, obs[1][3]] + ([reg] if reg is not None else [])]


def extra_checks(tier, seed):
    """(1) the Python oracle (check_clauses) is validated against the extracted Coq specification: on the
    specification's own run (FeaturesSpec.spec_run, printed by the driver) it must report nothing, i.e. the
    expectations computed in Python equal spec_step's on every sampled case; (2) thorough tier: OCaml output of
    the extracted model = vm_compute inside coqc on a sample."""
    import random
    import framework as F
    out = []
    n = 400 if tier == 'quick' else 4000
    cases = [gen(random.Random('C19-oracle-%d-%d' % (seed, i)), i, tier) for i in range(n)]
    mo = F.run_model(KIND, [enc(c) for c in cases])
    bad = None
    checked = 0
    for c, m in zip(cases, mo):
        if m[0] != 1 or m[1][0] != 0:
            continue
        _, table, steps, psteps, ssteps, hsteps = m[1][:6]
        if c.get('tree'):
            continue                       # the order-independent specification covers flat configurations
        checked += 1
        r = check_clauses(c, [1, [0, table, ssteps, psteps]])
        if r:
            bad = dict(kind='oracle-vs-spec', theorem='harness oracle = FeaturesSpec.spec_step', case=c,
                       spec_obs=ssteps, failing_clause='%s: %s' % r[0][:2])
            break
        if spec_guard(c) and steps != ssteps:
            bad = dict(kind='model-vs-spec', theorem='C19_retry_spec / C19_volatile (extracted)', case=c,
                       model_obs=steps, spec_obs=ssteps)
            break
        if not c.get('retrig') and steps != hsteps:
            bad = dict(kind='model-vs-model', theorem='hierarchical engine = flat engine on flat configurations',
                       case=c, model_obs=steps, hier_obs=hsteps)
            break
    out.append(('oracle_equals_extracted_spec', bad is None, dict(cases=checked), bad or {}))
    if tier == 'thorough':
        sample = [enc(c) for c in cases[:150]]
        try:
            vm = F.run_model_vm('8', sample, 'c19')
            ok = vm == mo[:150]
            detail = dict(cases=len(sample), equal=ok)
            payload = {} if ok else dict(kind='extraction', theorem='OCaml extraction = vm_compute',
                                         first=[(a, b) for a, b in zip(vm, mo) if a != b][:1])
        except Exception as ex:  # noqa
            ok, detail, payload = False, dict(error=str(ex)[-500:]), dict(kind='extraction', error=str(ex)[-1500:])
        out.append(('extraction_crosscheck_vm_compute', ok, detail, payload))
    return out


def in_envelope(case):
    return True


def nontrivial(case, obs):
    if not isinstance(obs, list) or obs[0] != 1 or obs[1][0] != 0:
        return False
    if case.get('retrig'):
        rc = {x[0] for x in case['retrig']}
        return any(sum(1 for it in items if it[0] == 1 and it[1] in rc) >= 2 for items, _, _ in obs[1][2])
    info = {}
    check_clauses(case, obs, info)
    if info.get('entries_with_occupied_hook'):
        return True                                       # a state entered while its hook name was occupied
    prev = [[case['init'], [[] for _ in HOOKS]] for _ in range(case['nmodels'])]
    for hc, (items, res, snap) in zip(case['history'], obs[1][2]):
        if not is_call(hc):
            continue
        m = hc[0]
        if res == [1, 0] and snap[m][0] != prev[m][0]:
            return True                                   # Error raised on entry
        if any(it[0] == 2 for it in items):
            return True                                   # on_failure instead of the enter callbacks
        if snap[m][1] != prev[m][1] and any(snap[m][1]) and any(prev[m][1]):
            return True                                   # volatile object replaced
        prev = snap
    return False


def stats(case, obs, dist):
    def inc(k, n=1):
        dist[k] = dist.get(k, 0) + n
    inc('class_' + case['cls'])
    inc('order_' + ''.join('TEVR'[f] for f in case['order']) if case['order'] else 'order_none')
    inc('models_%d' % case['nmodels'])
    if not isinstance(obs, list) or obs[0] != 1:
        inc('undecodable')
        return
    if obs[1][0] == 1:
        inc('construction_raised_%s' % {0: 'MachineError', 1: 'AttributeError', 2: 'TypeError'}.get(obs[1][1], 'other'))
        return
    if not chain_guard(case):
        inc('outside_chain_guard')
    if FV in case['order'] and not branch_guard(case):
        inc('outside_branch_guard')
    inc('nested' if case.get('tree') else 'flat')
    if case.get('retrig'):
        rc = {x[0] for x in case['retrig']}
        inc('reentrant_cases')
        inc('nested_triggers', sum(max(0, sum(1 for it in items if it[0] == 1 and it[1] in rc) - 1)
                                   for items, _, _ in obs[1][2]))
    if is_dynamic(case):
        inc('cases_with_add_or_remove_transition')
        inc('reconfigurations', sum(1 for hc in case['history'] if not is_call(hc)))
    if case.get('pre') or case.get('clsattr'):
        inc('cases_with_preexisting_attributes')
    info = {}
    check_clauses(case, obs, info)
    inc('entries_with_occupied_hook', info.get('entries_with_occupied_hook', 0))
    for hc, (items, res, snap) in zip(case['history'], obs[1][2]):
        if not is_call(hc):
            continue
        inc('calls')
        if res == [0, True]:
            inc('executed')
        elif res == [0, False]:
            inc('ignored')
        else:
            inc('raised_%s' % {0: 'MachineError', 1: 'AttributeError'}.get(res[1], 'other'))
        if any(it[0] == 2 for it in items):
            inc('on_failure_fired')
        inc('items', len(items))


def shrink_candidates(case):
    h = case['history']
    for i in range(len(h)):
        if len(h) > 1:
            c = copy.deepcopy(case)
            del c['history'][i]
            yield c
    for i in range(len(case['trans'])):
        if len(case['trans']) > 1:
            c = copy.deepcopy(case)
            del c['trans'][i]
            yield c
    for i in range(len(case['order'])):
        c = copy.deepcopy(case)
        del c['order'][i]
        yield c
    for si, s in enumerate(case['states']):
        for key in ('enter', 'exit', 'tags'):
            for i in range(len(s[key])):
                c = copy.deepcopy(case)
                del c['states'][si][key][i]
                yield c
    for key in ('pre', 'clsattr'):
        for i in range(len(case.get(key, []))):
            c = copy.deepcopy(case)
            del c[key][i]
            objs = sorted(o for _, _, o in c.get('pre', []) + c.get('clsattr', []))
            for kk in ('pre', 'clsattr'):
                c[kk] = [[m, hh, objs.index(o)] for m, hh, o in c.get(kk, [])]
            yield c
    top = case['nmodels'] - 1
    if top > 0 and all(m < top for m, _ in h) and all(m < top for m, _, _ in case.get('pre', []) + case.get('clsattr', [])):
        c = copy.deepcopy(case)
        c['nmodels'] -= 1
        yield c
