"""C19 — state feature mixins (Tags, Error, Volatile, Retry) on every machine class:
correspondence of real machines decorated with @add_state_features(...) with the Coq model
coq/Model/Features.v (about which Props/C19.v proves the contracts), plus the property's
clauses evaluated directly on the implementation's observations (oracle)."""
import copy

from flat import _import_transitions

PID = 'C19'
KIND = 8
IMPL = ('c19', 'impl_features')
COUNTS = dict(quick=4000, thorough=40000)
RULE = ('cases = random subset and order of (Tags, Error, Volatile, Retry) passed to @add_state_features on '
        'Machine / HierarchicalMachine (flat configuration) / LockedMachine / LockedHierarchicalMachine x 1-4 states '
        'with random feature arguments (tags incl. \'accepted\', accepted flag, hook name out of 3, custom or default '
        'volatile class, retries 0-3 with on_failure recorder, 0-2 on_enter / on_exit recorders) x 1-3 events with '
        'condition-free transitions (reflexive 35%, internal 8%, states without outgoing transition) x 1-3 models x '
        'histories of 1-14 model.trigger calls (50% repeat the previous call, 4% unknown event); every 9th case is from '
        'the malformed stream (arguments of absent mixins, retries without on_failure, Tags before Error, duplicate '
        'mixin).  After every call: callback trace (enter/exit/on_failure, model, state seen), result / exception '
        'type, every model\'s state and the identity of the object under each hook name; is_<tag> of every state; the '
        'same history on the undecorated class.  Non-trivial: construction succeeded and some call hit a mixin '
        'branch (Error raised, on_failure fired, or a volatile object was replaced), distinct by hash of the case.')
ASSUMPTIONS = ['callbacks (on_enter/on_exit/on_failure) neither raise nor call back into the machine (C04/C05 cover those)',
               'transitions carry no conditions (C01 covers candidate selection); flat state configurations',
               'Timeout mixin left out (C17)',
               'object identity observed with all created objects kept alive (no id reuse)']
THEOREMS = ['C19_tags', 'C19_error_iff', 'C19_retry_spec', 'C19_retry_exact', 'C19_volatile',
            'C19_volatile_nonvacuous', 'C19_volatile_refuted', 'C19_volatile_refuted_error', 'C19_per_model',
            'C19_frame_state', 'C19_frame', 'C19_frame_nonvacuous']

TAGS = [0, 1, 2, 3, 4]
HOOKS = [0, 1, 2]
CLASSES = ['Machine', 'HierarchicalMachine', 'LockedMachine', 'LockedHierarchicalMachine']
FT, FE, FV, FR = 0, 1, 2, 3


def hook_name(h):
    return 'scope' if h == 0 else 'hk%d' % h


def tag_name(t):
    return 'accepted' if t == 0 else 'tg%d' % t


# ------------------------------------------------------------------ generation
def gen(rng, i, tier):
    malformed = (i % 9 == 8)
    feats = [f for f in (FT, FE, FV, FR) if rng.random() < 0.62]
    rng.shuffle(feats)
    if FT in feats and FE in feats and feats.index(FT) < feats.index(FE) and not (malformed and rng.random() < 0.4):
        a, b = feats.index(FT), feats.index(FE)
        feats[a], feats[b] = feats[b], feats[a]
    if malformed and feats and rng.random() < 0.15:
        feats.insert(rng.randrange(len(feats) + 1), rng.choice(feats))
    has = dict(tags=FT in feats or FE in feats, acc=FE in feats, hook=FV in feats, retry=FR in feats)
    ns = rng.randint(1, 4)
    cb = [0]

    def cbs(hi=2):
        out = []
        for _ in range(rng.choice([0, 1, 1, hi])):
            cb[0] += 1
            out.append(cb[0])
        return out

    states = []
    for s in range(ns):
        g_tags = has['tags'] and rng.random() < 0.7
        g_acc = has['acc'] and rng.random() < 0.5
        g_hook = has['hook'] and rng.random() < 0.7
        g_retry = has['retry'] and rng.random() < 0.8
        if malformed:
            g_tags = g_tags or rng.random() < 0.1
            g_acc = g_acc or rng.random() < 0.1
            g_hook = g_hook or rng.random() < 0.1
            g_retry = g_retry or rng.random() < 0.1
        tags = sorted(rng.sample([0, 1, 2, 3], rng.choice([0, 1, 1, 2]))) if g_tags else []
        if 0 in tags and rng.random() < 0.6:
            tags.remove(0)
        acc = (rng.random() < 0.5) if g_acc else False
        hook = rng.choice(HOOKS) if g_hook else 0
        vcls = g_hook and rng.random() < 0.5
        retries = rng.choice([0, 1, 1, 2, 2, 3]) if g_retry else 0
        onf = None
        if g_retry and (retries > 0 or rng.random() < 0.3):
            cb[0] += 1
            onf = cb[0]
            if malformed and retries > 0 and rng.random() < 0.2:
                onf = None
        states.append(dict(id=s, given=[g_tags, g_acc, g_hook, g_retry], enter=cbs(), exit=cbs(), tags=tags,
                           accepted=acc, hook=hook, vcls=vcls, retries=retries, on_failure=onf))
    ne = rng.randint(1, 3)
    trans = []
    for e in range(ne):
        for s in range(ns):
            if rng.random() < 0.55:
                for _ in range(rng.choice([1, 1, 1, 2])):
                    k = rng.random()
                    dst = None if k < 0.08 else s if k < 0.43 else rng.randrange(ns)
                    trans.append([e, s, dst])
    if not trans:
        trans.append([0, 0, rng.randrange(ns)])
    rng.shuffle(trans)
    nm = rng.randint(1, 3)
    hist = []
    for _ in range(rng.randint(1, 14)):
        if hist and rng.random() < 0.5:
            hist.append(list(hist[-1]))
        else:
            hist.append([rng.randrange(nm), ne + 2 if rng.random() < 0.04 else rng.randrange(ne)])
    return dict(cls=rng.choice(CLASSES), order=feats, states=states, trans=trans, ignore=rng.random() < 0.25,
                nmodels=nm, init=rng.randrange(ns), history=hist)


def enc(case):
    return [case['order'],
            [[s['id'], [bool(x) for x in s['given']], s['enter'], s['exit'], s['tags'], bool(s['accepted']),
              s['hook'], s['retries'], [] if s['on_failure'] is None else [s['on_failure']]] for s in case['states']],
            [[e, s, [] if d is None else [d]] for e, s, d in case['trans']],
            bool(case['ignore']), case['nmodels'], case['init'], [[m, e] for m, e in case['history']], TAGS, HOOKS]


# ------------------------------------------------------------------ implementation side
class Vol(object):
    """a user-supplied volatile class"""


class Mo(object):
    pass


def _state_int(model):
    try:
        return int(str(model.state)[1:])
    except Exception:
        return 999


def _exc_code(tr, ex):
    if isinstance(ex, tr.MachineError):
        return 0
    if isinstance(ex, AttributeError):
        return 1
    if isinstance(ex, TypeError):
        return 2
    return 9


def _run_machine(tr, case, decorated):
    from transitions import extensions as ext
    from transitions.extensions import states as S
    feats = {FT: S.Tags, FE: S.Error, FV: S.Volatile, FR: S.Retry}
    base = tr.Machine if case['cls'] == 'Machine' else getattr(ext, case['cls'])
    log = []
    models = [Mo() for _ in range(case['nmodels'])]
    mid = {id(m): i for i, m in enumerate(models)}

    def rec(kind, cb):
        def f(event_data):
            log.append([kind, cb, mid.get(id(event_data.model), 99), _state_int(event_data.model)])
        f.__name__ = 'cb%d_%d' % (kind, cb)
        return f

    sdefs = []
    for s in case['states']:
        d = dict(name='s%d' % s['id'], on_enter=[rec(1, c) for c in s['enter']], on_exit=[rec(0, c) for c in s['exit']])
        if decorated:
            g_tags, g_acc, g_hook, g_retry = s['given']
            if g_tags:
                d['tags'] = [tag_name(t) for t in s['tags']]
            if g_acc:
                d['accepted'] = s['accepted']
            if g_hook:
                d['hook'] = hook_name(s['hook'])
                if s['vcls']:
                    d['volatile'] = Vol
            if g_retry:
                d['retries'] = s['retries']
                if s['on_failure'] is not None:
                    d['on_failure'] = rec(2, s['on_failure'])
        sdefs.append(d)
    try:
        if decorated:
            @S.add_state_features(*[feats[f] for f in case['order']])
            class M(base):
                pass
        else:
            class M(base):
                pass
        machine = M(model=models, states=sdefs, initial='s%d' % case['init'], auto_transitions=False,
                    send_event=True, ignore_invalid_triggers=case['ignore'])
        for e, s, d in case['trans']:
            machine.add_transition('e%d' % e, 's%d' % s, None if d is None else 's%d' % d)
    except (TypeError, AttributeError, ValueError) as ex:
        return None, [1, _exc_code(tr, ex)]

    table = []
    if decorated:
        for s in case['states']:
            st = machine.get_state('s%d' % s['id'])
            row = []
            for t in TAGS:
                try:
                    row.append([bool(getattr(st, 'is_' + tag_name(t)))])
                except AttributeError:
                    row.append([])
            table.append(row)
    objs = []

    def ident(o):
        for i, x in enumerate(objs):
            if x is o:
                return i
        objs.append(o)
        return len(objs) - 1

    steps = []
    for m, e in case['history']:
        del log[:]
        try:
            r = models[m].trigger('e%d' % e)
            res = [0, bool(r)]
        except Exception as ex:  # noqa
            res = [1, _exc_code(tr, ex)]
        snap = []
        for mo in models:
            hk = []
            for h in HOOKS:
                o = getattr(mo, hook_name(h), None)
                hk.append([] if o is None else [ident(o)])
            snap.append([_state_int(mo), hk])
        steps.append([[list(x) for x in log], res, snap])
    return (table, steps), None


def impl_features(case):
    tr = _import_transitions()
    dec, err = _run_machine(tr, case, True)
    if err is not None:
        return [1, err]
    plain, perr = _run_machine(tr, case, False)
    if perr is not None:
        return {'harness_error': 'undecorated machine could not be built: %r' % (perr,)}
    table, steps = dec
    psteps = [[items, res, [[st, []] for st, _ in snap]] for items, res, snap in plain[1]]
    return [1, [0, table, steps, psteps]]


# ------------------------------------------------------------------ the property's clauses on an observation
def _sd(case):
    return {s['id']: s for s in case['states']}


def _has(case):
    o = case['order']
    return dict(tags=FT in o or FE in o, error=FE in o, vol=FV in o, retry=FR in o)


def _eff_tags(case, s):
    h = _has(case)
    return s['tags'] + ([0] if h['error'] and s['accepted'] else [])


def _first_cand(case, e, s):
    for t in case['trans']:
        if t[0] == e and t[1] == s:
            return t
    return None


def _error_state(case, s):
    return not any(t[1] == s['id'] for t in case['trans']) and 0 not in _eff_tags(case, s)


def volatile_guard(case):
    """guard of C19_volatile: no mixin that can cut the enter chain (Retry with retries > 0, Error with an
    error state) precedes Volatile in the decorator"""
    o = case['order']
    if FV not in o:
        return True
    before = o[:o.index(FV)]
    if FR in before and any(s['retries'] > 0 for s in case['states']):
        return False
    if FE in before and any(_error_state(case, s) for s in case['states']):
        return False
    return True


def check_clauses(case, obs):
    """returns list of (clause, detail) that fail on the observation"""
    bad = []
    if not isinstance(obs, list) or obs[0] != 1 or obs[1][0] != 0:
        return bad
    _, table, steps, psteps = obs[1]
    sd = _sd(case)
    h = _has(case)
    # C19_tags
    for s, row in zip(case['states'], table):
        for t, ans in zip(TAGS, row):
            exp = [t in _eff_tags(case, s)] if h['tags'] else []
            if ans != exp:
                bad.append(('C19_tags', 'state %d tag %d: %r' % (s['id'], t, ans)))
    cur = [case['init']] * case['nmodels']
    held = [None] * case['nmodels']          # expected (hook, object) per model
    streak = [0] * case['nmodels']
    nobj = 0
    known_events = {t[0] for t in case['trans']}
    feature_free = all(s['retries'] == 0 for s in case['states']) and not (
        h['error'] and any(_error_state(case, s) for s in case['states']))
    for k, ((m, e), (items, res, snap), (pitems, pres, psnap)) in enumerate(zip(case['history'], steps, psteps)):
        t = _first_cand(case, e, cur[m]) if e in known_events else None
        # per-model separation: the other models are untouched by this call
        if k > 0:
            for j in range(case['nmodels']):
                if j != m and snap[j] != steps[k - 1][2][j]:
                    bad.append(('C19_per_model', 'call %d changed model %d' % (k, j)))
        # frame: states and results (up to the Error raise) follow the undecorated machine
        if [s for s, _ in snap] != [s for s, _ in psnap]:
            bad.append(('C19_frame_state', 'call %d' % k))
        if feature_free and (items != pitems or res != pres):
            bad.append(('C19_frame', 'call %d' % k))
        if t is not None and t[2] is not None:
            src, d = cur[m], t[2]
            ds = sd[d]
            raised = res == [1, 0]
            # C19_error_iff
            if raised != (h['error'] and _error_state(case, ds)):
                bad.append(('C19_error_iff', 'call %d entering %d: %r' % (k, d, res)))
            # C19_retry_spec / C19_retry_exact
            if src != d:
                streak[m] = 0
            exhausted = h['retry'] and ds['retries'] > 0 and streak[m] > ds['retries']
            if not exhausted:
                streak[m] += 1
            exits = [[0, c, m, src] for c in sd[src]['exit']]
            if raised:
                exp_items = exits
            elif exhausted:
                exp_items = exits + [[2, ds['on_failure'], m, d]]
            else:
                exp_items = exits + [[1, c, m, d] for c in ds['enter']]
            if items != exp_items:
                bad.append(('C19_retry_spec', 'call %d: %r expected %r' % (k, items, exp_items)))
            # C19_volatile: the model holds exactly the object created at this entry
            if h['vol']:
                held[m] = (ds['hook'], nobj)
                nobj += 1
            cur[m] = d
        elif items:
            bad.append(('C19_frame', 'call %d ran callbacks without a state change' % k))
        for j in range(case['nmodels']):
            exp = [[] for _ in HOOKS]
            if held[j] is not None:
                exp[HOOKS.index(held[j][0])] = [held[j][1]]
            if snap[j][1] != exp:
                bad.append(('C19_volatile', 'call %d model %d holds %r expected %r' % (k, j, snap[j][1], exp)))
                # resynchronise on what is there so that one defect is reported once
                seen = [(HOOKS[i], v[0]) for i, v in enumerate(snap[j][1]) if v]
                held[j] = seen[0] if len(seen) == 1 else None
                nobj = max([0] + [v[0] + 1 for _, _, sn in steps[:k + 1] for _, hk in sn for v in hk if v])
    return bad


def oracle(case, obs):
    bad = check_clauses(case, obs)
    return '%s: %s' % bad[0] if bad else None


def classify_known(case, model_obs, impl_obs):
    """KF-C19-1: Retry precedes Volatile in the decorator and an exhausted retry (on_failure fired) left the
    model in the state without its volatile object.  KF-C19-2: Error precedes Volatile and the entry into an
    error state raised before Volatile.enter.  Every other failing clause stays a violation."""
    bad = check_clauses(case, impl_obs)
    if not bad or any(c != 'C19_volatile' for c, _ in bad) or volatile_guard(case):
        return None
    o = case['order']
    before = o[:o.index(FV)]
    steps = impl_obs[1][2]
    kinds = set()
    for c, detail in bad:
        k = int(detail.split()[1])
        items, res, snap = steps[k]
        m = case['history'][k][0]
        if FR in before and any(it[0] == 2 for it in items) and snap[m][1] == [[] for _ in HOOKS]:
            kinds.add('KF-C19-1')
        elif FE in before and res == [1, 0] and snap[m][1] == [[] for _ in HOOKS]:
            kinds.add('KF-C19-2')
        else:
            return None
    if len(kinds) == 1:
        return kinds.pop()
    return 'KF-C19-1' if kinds else None


# ------------------------------------------------------------------ bookkeeping
def canon(case, obs):
    """the model's output carries the specification's run as a fifth component: it is consumed by
    extra_checks, not compared with the implementation"""
    if isinstance(obs, list) and len(obs) == 2 and isinstance(obs[1], list) and len(obs[1]) == 5:
        return [obs[0], obs[1][:4]]
    return obs


def extra_checks(tier, seed):
    """(1) the Python oracle (check_clauses) is validated against the extracted Coq specification: on the
    specification's own run (FeaturesSpec.spec_run, printed by the driver) it must report nothing, i.e. the
    expectations computed in Python equal spec_step's on every sampled case; (2) thorough tier: OCaml output of
    the extracted model = vm_compute inside coqc on a sample."""
    import random
    import framework as F
    out = []
    n = 400 if tier == 'quick' else 4000
    cases = [gen(random.Random('C19-oracle-%d-%d' % (seed, i)), i, tier) for i in range(n)]
    mo = F.run_model(KIND, [enc(c) for c in cases])
    bad = None
    checked = 0
    for c, m in zip(cases, mo):
        if m[0] != 1 or m[1][0] != 0:
            continue
        _, table, steps, psteps, ssteps = m[1]
        checked += 1
        r = check_clauses(c, [1, [0, table, ssteps, psteps]])
        if r:
            bad = dict(kind='oracle-vs-spec', theorem='harness oracle = FeaturesSpec.spec_step', case=c,
                       spec_obs=ssteps, failing_clause='%s: %s' % r[0])
            break
        if volatile_guard(c) and steps != ssteps:
            bad = dict(kind='model-vs-spec', theorem='C19_retry_spec / C19_volatile (extracted)', case=c,
                       model_obs=steps, spec_obs=ssteps)
            break
    out.append(('oracle_equals_extracted_spec', bad is None, dict(cases=checked), bad or {}))
    if tier == 'thorough':
        sample = [enc(c) for c in cases[:150]]
        try:
            vm = F.run_model_vm('8', sample, 'c19')
            ok = vm == mo[:150]
            detail = dict(cases=len(sample), equal=ok)
            payload = {} if ok else dict(kind='extraction', theorem='OCaml extraction = vm_compute',
                                         first=[(a, b) for a, b in zip(vm, mo) if a != b][:1])
        except Exception as ex:  # noqa
            ok, detail, payload = False, dict(error=str(ex)[-500:]), dict(kind='extraction', error=str(ex)[-1500:])
        out.append(('extraction_crosscheck_vm_compute', ok, detail, payload))
    return out


def in_envelope(case):
    return True


def nontrivial(case, obs):
    if not isinstance(obs, list) or obs[0] != 1 or obs[1][0] != 0:
        return False
    prev = [[case['init'], [[] for _ in HOOKS]] for _ in range(case['nmodels'])]
    for (m, e), (items, res, snap) in zip(case['history'], obs[1][2]):
        if res == [1, 0] and snap[m][0] != prev[m][0]:
            return True                                   # Error raised on entry
        if any(it[0] == 2 for it in items):
            return True                                   # on_failure instead of the enter callbacks
        if snap[m][1] != prev[m][1] and any(snap[m][1]) and any(prev[m][1]):
            return True                                   # volatile object replaced
        prev = snap
    return False


def stats(case, obs, dist):
    def inc(k, n=1):
        dist[k] = dist.get(k, 0) + n
    inc('class_' + case['cls'])
    inc('order_' + ''.join('TEVR'[f] for f in case['order']) if case['order'] else 'order_none')
    inc('models_%d' % case['nmodels'])
    if not isinstance(obs, list) or obs[0] != 1:
        inc('undecodable')
        return
    if obs[1][0] == 1:
        inc('construction_raised_%s' % {0: 'MachineError', 1: 'AttributeError', 2: 'TypeError'}.get(obs[1][1], 'other'))
        return
    if not volatile_guard(case):
        inc('outside_volatile_guard')
    for items, res, snap in obs[1][2]:
        inc('calls')
        if res == [0, True]:
            inc('executed')
        elif res == [0, False]:
            inc('ignored')
        else:
            inc('raised_%s' % {0: 'MachineError', 1: 'AttributeError'}.get(res[1], 'other'))
        if any(it[0] == 2 for it in items):
            inc('on_failure_fired')
        inc('items', len(items))


def shrink_candidates(case):
    h = case['history']
    for i in range(len(h)):
        if len(h) > 1:
            c = copy.deepcopy(case)
            del c['history'][i]
            yield c
    for i in range(len(case['trans'])):
        if len(case['trans']) > 1:
            c = copy.deepcopy(case)
            del c['trans'][i]
            yield c
    for i in range(len(case['order'])):
        c = copy.deepcopy(case)
        del c['order'][i]
        yield c
    for si, s in enumerate(case['states']):
        for key in ('enter', 'exit', 'tags'):
            for i in range(len(s[key])):
                c = copy.deepcopy(case)
                del c['states'][si][key][i]
                yield c
    if case['nmodels'] > 1 and all(m < case['nmodels'] - 1 for m, _ in h):
        c = copy.deepcopy(case)
        c['nmodels'] -= 1
        yield c
