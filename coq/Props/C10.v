(* C10 — models of one machine are independent; dispatch reaches each exactly once.
   World = flat machine description + ordered list of registered models + per model object its
   state attribute and HELPER TABLE + the id-keyed side tables (model_context_map, model_graphs,
   per-model queues) as key lists (Model/Multi.v).  All statements hold for EVERY machine class
   (12 flag combinations x queue modes), every machine description, every environment (all
   condition values, all raising callbacks) and every history / any number of models.
   Statements only; proofs in Proofs/MultiP.v. *)
From Coq Require Import List Arith Bool.
From M Require Import Base Flat Multi Queue.
From P Require Import MultiP.
From M Require Features FeaturesSpec.
From P Require FeaturesP.
Import ListNotations.

(* The invariant of all histories: registered models are distinct, own every helper the machine
   declares (trigger, may_trigger, <event>, may_<event>, is_<state>, plus to / get_graph in the
   hierarchical / graph classes), have a state, and are keys of the class's side tables
   (get_graph is not claimed: a graph class that refuses a model in the middle of a list leaves the rest of the
   list registered without graph). *)
Theorem C10_invariant : forall k ev mc ini hs, Inv k (run k ev (init_world mc ini) hs).
Proof. exact Inv_reachable. Qed.

(* FRAME: model.<event>() / model.trigger(name) on model m — in ANY world, whatever the callbacks do —
   changes no other object, not m's helper table, not the registered models, not the machine, not the
   graph/queue tables; the lock map may at most gain m's own key (LockedEvent reads a defaultdict;
   nothing happens when m is registered); every callback runs on behalf of m. *)
Theorem C10_frame : forall k ev w m bn e a bs r w',
  step k ev w (OTrigger m bn e a) = (bs, r, w') ->
  (forall x, x <> m -> w_obj w' x = w_obj w x) /\
  o_helpers (w_obj w' m) = o_helpers (w_obj w m) /\
  w_models w' = w_models w /\ w_mc w' = w_mc w /\ w_graphs w' = w_graphs w /\ w_queues w' = w_queues w /\
  (forall x, x <> m -> (In x (w_ctx w') <-> In x (w_ctx w))) /\
  (In m (w_ctx w) -> w_ctx w' = w_ctx w) /\
  Forall (fun b => b_model b = m /\ Forall (fun it => it_model it = m) (b_items b)) bs.
Proof. exact frame_thm. Qed.

(* DISPATCH of a declared event in a reachable world: [full] is the event run on each registered model
   in registration order, each from its OWN state, callback positions consecutive (no model sees
   another's effects).  If nothing raises: exactly these blocks — one per registered model, each model
   once — and the result is the conjunction of the individual results.  If a model raises: the blocks
   are a prefix of [full] ending with the raising one; later models are not triggered nor changed. *)
Theorem C10_dispatch : forall k ev mc ini hs e a ts bs r w',
  let w := run k ev (init_world mc ini) hs in
  lookup (m_events (w_mc w)) e = Some ts ->
  step k ev w (ODispatch e a) = (bs, r, w') ->
  let full := dispatch_spec k ev (w_mc w) ts a (map (fun m => (m, state_of w m)) (w_models w)) (w_pos w) in
  NoDup (w_models w) /\ map b_model full = w_models w /\ blocks_tagged full /\
  (forall y, ~ In y (map b_model bs) -> w_obj w' y = w_obj w y) /\
  match r with
  | inr (Some b) => bs = full /\ b = forallb block_ok bs
  | inr None => False
  | inl x => exists pre lst, bs = pre ++ [lst] /\ b_res lst = inl x /\
                             Forall (fun b => block_raised b = false) pre /\ bs = firstn (length bs) full
  end.
Proof. exact dispatch_reachable. Qed.

(* LATE MODEL: after ANY history — models passed to the constructor or added later, with the machine's
   or their own initial state, removed and re-added, states/transitions added before or after — every
   registered model owns every helper the machine declares NOW. *)
Theorem C10_late_model : forall k ev mc ini hs m h,
  let w := run k ev (init_world mc ini) hs in
  In m (w_models w) -> expected k (w_mc w) h -> has_helper h (o_helpers (w_obj w m)) = true.
Proof. exact late_model_thm. Qed.

Corollary C10_late_model_names : forall k ev mc ini hs m,
  let w := run k ev (init_world mc ini) hs in
  In m (w_models w) ->
  (forall e, In e (map fst (m_events (w_mc w))) ->
     has_helper (HEv e) (o_helpers (w_obj w m)) = true /\ has_helper (HMay e) (o_helpers (w_obj w m)) = true) /\
  (forall s, In s (map fst (m_states (w_mc w))) -> has_helper (HIs s) (o_helpers (w_obj w m)) = true) /\
  has_helper HTrig (o_helpers (w_obj w m)) = true /\ has_helper HMayTrig (o_helpers (w_obj w m)) = true.
Proof. exact late_model_names. Qed.

(* ... remove_transition included: a trigger whose transitions were all removed and that is declared again is
   bound on every registered model, whether it was added before the removal or after it (an instance of
   C10_late_model / C10_dispatch; hierarchical class flags): *)
Example C10_trigger_rebound :
  let k := mkClass false false true false QNo in
  let ev := fun (_ _ : nat) => mkReply true None [] in
  let t := mkTrans 0 (Some 0) [] [] [] [] in
  let w := run k ev (init_world mc1 0)
               [OAddModel 0 None; OAddTransition 5 t; ORemoveTransition 5 None None; OAddModel 1 None;
                OAddTransition 5 t] in
  has_helper (HEv 5) (o_helpers (w_obj w 0)) = true /\ has_helper (HMay 5) (o_helpers (w_obj w 0)) = true /\
  has_helper (HEv 5) (o_helpers (w_obj w 1)) = true /\ has_helper (HMay 5) (o_helpers (w_obj w 1)) = true /\
  has_helper (HEv 5) (o_helpers (w_obj (run k ev (init_world mc1 0)
               [OAddModel 0 None; OAddTransition 5 t; ORemoveTransition 5 None None]) 0)) = false /\
  match step k ev w (ODispatch 5 7) with (bs, r, _) => map b_model bs = [0; 1] /\ r = inr (Some true) end.
Proof. exact trigger_rebound_witness. Qed.

(* ADD TWICE: add_model of a registered model changes nothing — models, every object, lock map, graph
   table, queues, machine, even the callback counter — and returns None, in EVERY class (the graph classes
   skip models that were registered before the call; /repo fix D34). *)
Theorem C10_add_twice : forall k ev mc ini hs m init bs r w',
  let w := run k ev (init_world mc ini) hs in
  In m (w_models w) ->
  step k ev w (OAddModel m init) = (bs, r, w') ->
  bs = [] /\ r = inr None /\ world_eq w w'.
Proof. exact add_twice_reachable. Qed.

(* ... also for ONE add_model call with a list (or the constructor's model list) that names only registered
   models, each of them any number of times: no effect, in every class. *)
Theorem C10_add_twice_list : forall k ev mc ini hs ms init bs r w',
  let w := run k ev (init_world mc ini) hs in
  (forall x, In x ms -> In x (w_models w)) ->
  step k ev w (OAddModels ms init) = (bs, r, w') ->
  bs = [] /\ r = inr None /\ world_eq w w'.
Proof. exact add_twice_list_reachable. Qed.

(* The same object listed several times within one call / one constructor list is registered ONCE (C10_invariant:
   the registered models are distinct after every history, list adds with repetitions included); an instance: *)
Example C10_in_call_repetition :
  let k := mkClass true false true false QNo in
  let ev := fun (_ _ : nat) => mkReply true None [] in
  let t := mkTrans 0 (Some 0) [] [] [] [] in
  let w := run k ev (init_world mc1 0) [OAddModels [0; 1; 0] None; OAddTransition 5 t; OAddModels [2; 2; 0] None] in
  w_models w = [0; 1; 2] /\ w_ctx w = [0; 1; 2] /\
  match step k ev w (ODispatch 5 7) with (bs, r, _) => map b_model bs = [0; 1; 2] /\ r = inr (Some true) end /\
  w_models (step_w k ev w (ORemoveModel 0)) = [1; 2].
Proof. exact in_call_repetition_witness. Qed.

(* What still raises in the graph classes: an object that is NOT registered but already owns get_graph (a model
   removed earlier keeps the attribute, or it is shared with another graph machine).  The base add_model
   registers it and sets its state, then GraphMachine.add_model raises AttributeError; no graph is built. *)
Theorem C10_graph_readd_raises : forall k ev w m init bs r w',
  k_graph k = true -> ~ In m (w_models w) ->
  has_helper HGraph (o_helpers (w_obj w m)) = true ->
  get_state (w_mc w) (match init with Some s => s | None => w_initial w end) <> None ->
  step k ev w (OAddModel m init) = (bs, r, w') ->
  r = inl AttributeError /\ w_models w' = w_models w ++ [m] /\ w_graphs w' = w_graphs w /\
  o_state (w_obj w' m) = Some (match init with Some s => s | None => w_initial w end).
Proof. exact graph_readd_thm. Qed.

(* ... and this situation is reachable: add, remove, add again on a graph class *)
Example C10_graph_readd_example :
  match step gk (fun _ _ => mkReply true None [])
             (run gk (fun _ _ => mkReply true None []) (init_world mc1 0) [OAddModel 0 None; ORemoveModel 0])
             (OAddModel 0 None) with
  | (_, r, w') => r = inl AttributeError /\ w_models w' = [0]
  end.
Proof. exact graph_readd_witness. Qed.

(* REMOVED (1): remove_model m takes m out of the registered models, the lock map and the per-model
   queues of the classes that keep them, and changes no object. *)
Theorem C10_removed_tables : forall k ev mc ini hs m bs r w',
  let w := run k ev (init_world mc ini) hs in
  In m (w_models w) ->
  step k ev w (ORemoveModel m) = (bs, r, w') ->
  r = inr None /\ ~ In m (w_models w') /\
  (k_locked k = true -> ~ In m (w_ctx w')) /\ (per_model_queue k = true -> ~ In m (w_queues w')) /\
  (forall x, w_obj w' x = w_obj w x) /\ w_mc w' = w_mc w /\ w_graphs w' = w_graphs w /\
  (forall x, x <> m -> (In x (w_models w') <-> In x (w_models w))).
Proof. exact remove_reachable. Qed.

(* REMOVED (2): as long as m is not registered, no history of operations that do not name m (i.e. anything
   but add_model(m) and calling m's own stale helpers) changes m's state or helper table, registers
   it, or puts its key into any side table. *)
Theorem C10_removed : forall k ev m hs w,
  ~ In m (w_models w) -> Forall (fun o => ~ mentions m o) hs ->
  untouched m w (run k ev w hs).
Proof. exact (fun k ev m hs w => run_untouched k ev m hs w). Qed.

(* REMOVED (3): remove_model([m1; m2; ...]) called from a callback while events are pending (queued machine;
   Queue.v performs the removals one after the other): the event in progress stays at the head, and exactly the
   pending events of ALL listed models disappear — for every "process one event" function. *)
Theorem C10_removed_list_pending : forall (payload : qentry -> nat -> nat) cur ms k (s : qstate) h tl,
  qs_queue s = h :: tl -> NoDup ms ->
  (forall m, In m ms -> existsb (Nat.eqb m) (qs_models s) = true) ->
  let s' := apply_actions payload cur k (map ARemoveModel ms) s in
  qs_queue s' = h :: filter (fun x => negb (mem_nat (q_model x) ms)) tl /\
  (forall m, In m ms -> existsb (Nat.eqb m) (qs_models s') = false).
Proof. exact remove_list_exact. Qed.

(* COPY: a machine restored by pickle.loads(pickle.dumps(..)) or copy.deepcopy(..) (together with its models) is
   the same world — same registered models, states, helpers and queues; lock map and model_graphs are rebuilt for the
   registered models, keyed by the copies' ids (C15; stale entries of removed models disappear); no further table — so every statement above, in particular C10_removed_tables / C10_removed, holds for the copy
   and for every history continued on it.  (That the copy keeps no OTHER reference to its models is not
   modelled: checked with weakref + gc on every class, extra check gc_after_remove.) *)
Theorem C10_copy : forall k ev w,
  step k ev w OCopy = ([], inr None, copy_world k w) /\
  w_models (copy_world k w) = w_models w /\ w_obj (copy_world k w) = w_obj w /\
  w_queues (copy_world k w) = w_queues w /\ w_mc (copy_world k w) = w_mc w /\
  (forall x, In x (w_ctx (copy_world k w)) -> In x (w_ctx w) \/ In x (w_models w)) /\
  (forall x, In x (w_graphs (copy_world k w)) -> In x (w_graphs w) \/ In x (w_models w)).
Proof. exact copy_thm. Qed.

(* OWN INITIAL STATE (hierarchical classes, nested / parallel states, any naming): a model added with
   initial = <state path> (None = the machine's initial) is in exactly the configuration of that state and its
   initial substates — whatever was added before or after it and whatever states the other models are in; a
   registered model named again keeps its configuration; no model is listed twice. *)
Theorem C10_own_initial : forall states dflt adds1 m init adds2 w,
  ~ In m (map fst (own_run states dflt adds1 w)) ->
  In (m, own_config states (match init with Some p => p | None => dflt end))
     (own_run states dflt (adds1 ++ (m, init) :: adds2) w).
Proof. exact own_initial_thm. Qed.

Theorem C10_own_initial_once : forall states dflt adds w,
  NoDup (map fst w) -> NoDup (map fst (own_run states dflt adds w)).
Proof. exact own_run_nodup. Qed.

(* STATE FEATURES (Tags / Error / Volatile / Retry mixins, any order, Features.v of C19): the per-model bookkeeping
   of the mixins — retry counters, volatile objects — belongs to the model: an event on model m leaves the
   record (state, hooks, retry counters of every state) of every other model untouched. *)
Theorem C10_features_per_model :
  forall (c : Features.fcfg) (w : Features.world) (m : Features.fmodel) (e : Features.fevent) (m' : Features.fmodel),
  m' <> m -> Features.w_m (FeaturesSpec.obs_world (Features.fstep c w m e)) m' = Features.w_m w m'.
Proof. exact FeaturesP.fstep_other. Qed.

(* The graph classes have no remove_model: model_graphs keeps the (integer) key of a removed model.
   No reference to the model is kept (the GC check of the harness passes); recorded as an observation. *)
Theorem C10_removed_graph_key_refuted :
  exists hs, let w := run gk (fun _ _ => mkReply true None []) (init_world mc1 0) hs in
             mem_nat 0 (w_models w) = false /\ mem_nat 0 (w_graphs w) = true.
Proof. exact graph_key_witness. Qed.

(* TWO MACHINES, flat naming (helper names contain model_attribute unless it is 'state'): with
   different attributes and disjoint event names, every helper a machine asked for (except the shared
   names trigger / may_trigger, which the first machine keeps) is bound to THAT machine, and calling it
   never changes the other machine's attribute nor any binding — for every behaviour [act]. *)
Theorem C10_two_machines : forall d0 d1,
  d_attr d0 <> d_attr d1 ->
  (forall e, In e (d_events d0) -> ~ In e (d_events d1)) ->
  (forall n, In n (desc_names false d0) -> owner_of (so_tbl (bind_two false d0 d1)) n = Some 0) /\
  (forall n, In n (desc_names false d1) -> private n = true ->
             owner_of (so_tbl (bind_two false d0 d1)) n = Some 1) /\
  (forall act n o', call_name d0 d1 act (bind_two false d0 d1) n = Some o' ->
     so_tbl o' = so_tbl (bind_two false d0 d1) /\
     (In n (desc_names false d1) -> private n = true ->
      attr_of o' (d_attr d0) = attr_of (bind_two false d0 d1) (d_attr d0)) /\
     (In n (desc_names false d0) ->
      attr_of o' (d_attr d1) = attr_of (bind_two false d0 d1) (d_attr d1))).
Proof. exact two_machines_thm. Qed.

(* KF-C10-1: hierarchical naming ignores model_attribute.  Two machines with attributes 1 and 2 that both
   have state 0: the second machine's is_s0 / to_s0 are never bound — the names belong to machine 0, and
   calling to_s0 drives machine 0's attribute, not machine 1's. *)
Theorem C10_two_machines_hsm_refuted :
  let o := bind_two true kf_d0 kf_d1 in
  existsb (hname_eqb (NIs None 0)) (desc_names true kf_d1) = true /\ owner_of (so_tbl o) (NIs None 0) = Some 0 /\
  existsb (hname_eqb (NTo None 0)) (desc_names true kf_d1) = true /\ owner_of (so_tbl o) (NTo None 0) = Some 0 /\
  match call_name kf_d0 kf_d1 (fun _ n s => match n with NTo _ t => t | _ => s end) o (NTo None 0) with
  | Some o' => attr_of o' 1 = Some 0 /\ attr_of o' 2 = Some 2     (* machine 0 moved, machine 1 did not *)
  | None => False
  end.
Proof. exact two_machines_hsm_witness. Qed.

(* non-vacuity: a history with a late model, a removal and a dispatch over two models *)
Example C10_example :
  let k := mkClass true false false false QNo in
  let t := mkTrans 0 (Some 1) [] [] [] [] in
  let mc := mkMachine [(0, mkSdef [] [] false None); (1, mkSdef [] [] false None)] [] [] [] [] [] [] [] false false in
  let hs := [OAddModel 0 None; OAddTransition 5 t; OAddModel 1 (Some 0); OAddModel 2 None; ORemoveModel 0;
             OAddModel 1 None] in
  let w := run k (fun _ _ => mkReply true None []) (init_world mc 0) hs in
  w_models w = [1; 2] /\ w_ctx w = [1; 2] /\
  match step k (fun _ _ => mkReply true None []) w (ODispatch 5 7) with
  | (bs, r, w') => map b_model bs = [1; 2] /\ r = inr (Some true) /\
                   o_state (w_obj w' 1) = Some 1 /\ o_state (w_obj w' 2) = Some 1 /\ o_state (w_obj w' 0) = Some 0
  end.
Proof. vm_compute. repeat split; reflexivity. Qed.

Print Assumptions C10_invariant.
Print Assumptions C10_frame.
Print Assumptions C10_dispatch.
Print Assumptions C10_late_model.
Print Assumptions C10_late_model_names.
Print Assumptions C10_trigger_rebound.
Print Assumptions C10_add_twice.
Print Assumptions C10_copy.
Print Assumptions C10_features_per_model.
Print Assumptions C10_own_initial.
Print Assumptions C10_own_initial_once.
Print Assumptions C10_add_twice_list.
Print Assumptions C10_in_call_repetition.
Print Assumptions C10_removed_list_pending.
Print Assumptions C10_graph_readd_raises.
Print Assumptions C10_graph_readd_example.
Print Assumptions C10_removed_tables.
Print Assumptions C10_removed.
Print Assumptions C10_removed_graph_key_refuted.
Print Assumptions C10_two_machines.
Print Assumptions C10_two_machines_hsm_refuted.
Print Assumptions C10_example.
