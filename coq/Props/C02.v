(* C02 — HSM: the active configuration stays well-formed; enter/exit stay balanced.
   The theorems are about NestedTransition._resolve_transition ([resolve]: which states a
   transition exits, the new configuration, which states it enters) for EVERY configuration
   (any forest: depth, branching, parallel regions inside parallel regions), every declaring
   scope and destination, and about every event of every history ([reach]).
   Statements only. *)
From Coq Require Import List Arith Bool.
From M Require Import Base Flat Hsm HsmSpec.
From P Require Import HsmForest HsmResolve HsmReach HsmInit.
From M Require HReent.
From P Require HReentInv HsmQueueP HsmPar HsmParCor.
From M Require Queue HsmQueueIO.
Import ListNotations.

Section C02.
  Variable f : forest.                  (* configuration before the transition *)
  Variables sc dst : path.              (* declaring scope, destination relative to it *)
  Variable dd : sdefn.                  (* the destination's definition *)
  Variable r : resolution.
  Hypothesis U : uniq f = true.         (* sibling names unique (an invariant: C02_uniq_invariant) *)
  Hypothesis UB : uniq (initial_tree def_depth_bound dd) = true.
  Hypothesis Hdst : dst <> [].
  Hypothesis R : resolve f sc dst dd = Some r.
  Variables root rest : path.
  Hypothesis SA : split_active f sc dst = (root, rest).
  (* when several children of the deepest active ancestor are active, the destination's
     branch is one of them (true for configurations whose parallel states have all their
     regions active) *)
  Hypothesis NOK : narrow_ok f sc root rest.

  (* balance: the states active afterwards are exactly the previously active ones that were
     not exited, plus the entered ones — so the set "entered and not exited since" always
     equals the active states with all their ancestors *)
  Theorem C02_balanced : forall p, p <> [] ->
    (active (r_new r) p = true <-> (active f p = true /\ ~ In p (r_exits r)) \/ In p (r_enters r)).
  Proof. exact (resolve_balance f sc dst dd r U UB Hdst R root rest SA NOK). Qed.

  (* no state is exited while it is not active *)
  Theorem C02_exit_only_active : forall p, In p (r_exits r) -> active f p = true.
  Proof. intros; eapply resolve_exits_active; eauto. Qed.

  (* no state is entered while it is active: an entered state was inactive or has just been exited *)
  Theorem C02_enter_only_inactive : forall p, In p (r_enters r) -> active f p = true -> In p (r_exits r).
  Proof. exact (resolve_enters_fresh f sc dst dd r U UB Hdst R root rest SA NOK). Qed.

  (* exits run children before parents (deepest first), enters parents before children *)
  Theorem C02_exit_order : nonincr (map (@length nat) (r_exits r)).
  Proof. intros; eapply resolve_exits_order; eauto. Qed.
  Theorem C02_enter_order : nondecr (map (@length nat) (r_enters r)).
  Proof. intros; eapply resolve_enters_order; eauto. Qed.
End C02.
Print Assumptions C02_balanced.
Print Assumptions C02_exit_only_active.
Print Assumptions C02_enter_only_inactive.
Print Assumptions C02_exit_order.
Print Assumptions C02_enter_order.

(* Every event of every history, whatever the callbacks return or raise: the configuration
   afterwards is obtained from the one before by transition resolutions only ... *)
Theorem C02_only_resolutions :
  forall (hm : hmachine) (ev : env) (c : ctx) (e : event) (p : nat) (f : forest) tr f' res,
    Hsm.trigger_event hm ev c e p f = (tr, f', res) -> reach hm f f'.
Proof. intros. eapply trigger_event_reach; eauto. Qed.
Print Assumptions C02_only_resolutions.

(* ... hence sibling-uniqueness (the hypothesis U above) holds in every reachable
   configuration of a machine whose initial lists have no duplicates *)
Theorem C02_uniq_invariant :
  forall (hm : hmachine) (f f' : forest), wf_defs hm = true -> reach hm f f' -> uniq f = true -> uniq f' = true.
Proof. exact reach_uniq. Qed.
Print Assumptions C02_uniq_invariant.

(* ... and every active state of every reachable configuration is a registered state: the
   model's state names only registered states after every event of every history *)
Theorem C02_registered :
  forall (hm : hmachine) (f f' : forest), wf_defs hm = true -> reach hm f f' -> reg hm f -> reg hm f'.
Proof. exact reach_reg. Qed.
Print Assumptions C02_registered.

(* Entering a state also enters its initial descendants, recursively: for every configuration,
   declaring scope (active) and destination whose definition is not deeper than the engine's
   bound (64 levels), every state the transition ENTERS that ends up as a leaf of the new
   configuration lies at or below the destination and declares no initial child that exists -
   the entered part of the configuration ends in leaves or in states without an initial substate. *)
Theorem C02_initial_closure :
  forall (hm : hmachine) (f : forest) (sc dst : path) (dd : sdefn) (r : resolution) (cur : forest),
    dst <> [] -> sub f sc = Some cur ->
    find_def (scope_children hm sc) dst = Some dd -> sd_depth dd <= def_depth_bound ->
    resolve f sc dst dd = Some r ->
    forall p, In p (r_enters r) -> sub (r_new r) p = Some [] ->
      exists q d, p = sc ++ dst ++ q /\ rel_def dd q = Some d /\ no_init d.
Proof. exact resolve_initial_closure. Qed.
Print Assumptions C02_initial_closure.

(* ... and therefore, as an invariant: every leaf of every reachable configuration is a state
   without an (existing) initial child - starting from the configuration add_model puts a model
   in (which is closed), for every history, when no definition is deeper than the engine's bound. *)
Theorem C02_closed_invariant :
  forall (hm : hmachine) (f f' : forest),
    wf_defs hm = true -> depth_ok hm -> reach hm f f' -> reg hm f -> closed hm f -> closed hm f'.
Proof. exact reach_closed. Qed.
Print Assumptions C02_closed_invariant.

Theorem C02_initial_config_closed :
  forall (hm : hmachine) (ini : path) (d : sdefn),
    depth_ok hm -> find_def (hm_states hm) ini = Some d ->
    closed hm (chain_tree ini (initial_tree def_depth_bound d)).
Proof. exact initial_config_closed. Qed.
Print Assumptions C02_initial_config_closed.

(* Unqueued machines whose callbacks trigger further events (processed inside the callback, to any depth):
   whatever the callbacks do, after every event - nested ones included - the configuration has unique
   sibling names, names only registered states and ends in states without initial substates.  (The
   engine writes a resolution computed BEFORE the exit callbacks AFTER them; every configuration it
   ever holds is nevertheless the result of resolving a configuration it held earlier.) *)
Theorem C02_reentrant_invariants :
  forall (hm : hmachine) (ev : env) (m : model) (fuel : nat) (e : event) (a p : nat) (f : forest) tr f' r,
    wf_defs hm = true -> depth_ok hm ->
    uniq f = true -> reg hm f -> closed hm f ->
    HReent.hrtrigger hm ev m fuel e a p f = (tr, f', r) ->
    uniq f' = true /\ reg hm f' /\ closed hm f'.
Proof. exact HReentInv.hreent_invariants. Qed.
Print Assumptions C02_reentrant_invariants.

(* "... or through the queue": on a queued hierarchical machine with any number of models, whatever programs of
   triggers, removals and raises the callbacks run, every model's configuration keeps unique sibling names,
   registered states and the closure of initial substates after every top-level call. *)
Theorem C02_queued_invariants :
  forall (hm : hmachine) (ev : env) fuel (w : HsmQueueIO.hworld) s m e a bs r w' s',
    wf_defs hm = true -> depth_ok hm -> HsmQueueP.all_good hm w ->
    Queue.top_trigger (HsmQueueIO.hqstep hm ev) HsmQueueIO.hnested_payload fuel w s m e a = Some (bs, r, w', s') ->
    HsmQueueP.all_good hm w'.
Proof. exact HsmQueueP.hq_invariants. Qed.
Print Assumptions C02_queued_invariants.

(* ---------- the hypothesis NOK of C02_balanced / C02_enter_only_inactive is an invariant ---------- *)
(* [HsmPar.full_par_defs] (decidable): every state definition whose initial list names several children names all
   its children - i.e. parallel states are entered with all their regions, the complement of the class of
   KF-C02-2.  For such machines, in every configuration reached from a registered one that satisfies
   [HsmPar.pfull] (a node with several active children has all its registered children active; the configuration
   add_model creates does: C02_initial_config_pfull), every transition resolution - any declaring scope, any
   registered destination - meets narrow_ok, so C02_balanced, C02_enter_only_inactive, C03_exit_set... apply to
   every transition of every history. *)
Theorem C02_narrow_ok_invariant :
  forall (hm : hmachine) (f f' : forest) (sc dst : path) (dd : sdefn) (cur : forest) (root rest : path),
    wf_defs hm = true -> HsmPar.full_par_defs hm = true -> reach hm f f' -> reg hm f -> HsmPar.pfull hm f ->
    find_def (scope_children hm sc) dst = Some dd -> sub f' sc = Some cur -> split_active f' sc dst = (root, rest) ->
    narrow_ok f' sc root rest.
Proof. exact HsmPar.reach_narrow_ok. Qed.
Print Assumptions C02_narrow_ok_invariant.

Theorem C02_initial_config_pfull :
  forall (hm : hmachine) (ini : path) (d : sdefn),
    HsmPar.full_par_defs hm = true -> find_def (hm_states hm) ini = Some d ->
    HsmPar.pfull hm (chain_tree ini (initial_tree def_depth_bound d)).
Proof. exact HsmPar.initial_config_pfull. Qed.
Print Assumptions C02_initial_config_pfull.

(* Balance along whole histories.  E = "the states whose on_enter has fired without a later on_exit"; [reachE]
   threads it through the transition resolutions of a history (each removes the states it exits and adds the
   states it enters - the on_exit / on_enter callbacks an executed transition runs are exactly those lists,
   C03_transition_trace; every event is a sequence of resolutions, C02_only_resolutions / reach_reachE).  If E
   is the set of active states with all their ancestors before, it is afterwards - for every history. *)
Theorem C02_history_balanced :
  forall (hm : hmachine) (f : forest) (E : path -> Prop) (f' : forest) (E' : path -> Prop),
    wf_defs hm = true -> HsmPar.full_par_defs hm = true ->
    HsmPar.reachE hm f E f' E' -> uniq f = true -> reg hm f -> HsmPar.pfull hm f ->
    HsmPar.coh E f -> HsmPar.coh E' f'.
Proof. exact HsmPar.history_balanced. Qed.
Print Assumptions C02_history_balanced.

Theorem C02_every_event_threads_E :
  forall (hm : hmachine) (ev : env) (c : ctx) (e : event) (p : nat) (f : forest) tr f' res (E : path -> Prop),
    Hsm.trigger_event hm ev c e p f = (tr, f', res) -> exists E', HsmPar.reachE hm f E f' E'.
Proof. intros. eapply HsmPar.reach_reachE. eapply trigger_event_reach; eauto. Qed.
Print Assumptions C02_every_event_threads_E.

(* The two central clauses without any side condition on the configuration: on machines with duplicate-free initial
   lists whose parallel states enter all their regions, in EVERY configuration reachable from the one add_model
   creates, every transition resolution (any declaring scope, any registered destination) leaves exactly
   "previously active and not exited, or entered" active, enters nothing that is active unless it has just exited
   it, and leads to a reachable configuration again. *)
Theorem C02_balanced_reachable :
  forall (hm : hmachine), wf_defs hm = true -> HsmPar.full_par_defs hm = true ->
  forall (f : forest) (sc dst : path) (dd : sdefn) (r : resolution),
    HsmParCor.reachable hm f -> find_def (scope_children hm sc) dst = Some dd -> resolve f sc dst dd = Some r ->
    (forall p, p <> [] ->
       (active (r_new r) p = true <-> (active f p = true /\ ~ In p (r_exits r)) \/ In p (r_enters r))) /\
    (forall p, In p (r_enters r) -> active f p = true -> In p (r_exits r)) /\
    HsmParCor.reachable hm (r_new r).
Proof. exact HsmParCor.balanced_reachable. Qed.
Print Assumptions C02_balanced_reachable.

(* the delineation is sharp: the machine of KF-C02-2 (P with children A, B, C and initial [A; B]) fails
   full_par_defs, and its transition P_A -> P_C exits the never-entered C; with initial [A; B; C] the
   hypotheses hold *)
Example C02_full_par_delineates :
  let mk ini := mkHM [SDef 1 [] [] [] false None ini []
                        [SDef 2 [] [] [] false None [] [] []; SDef 3 [] [] [] false None [] [] [];
                         SDef 4 [] [] [] false None [] [] []]] [] [] [] [] [] [] [] false false in
  HsmPar.full_par_defs (mk [2; 3]) = false /\ HsmPar.full_par_defs (mk [2; 3; 4]) = true /\
  match resolve [Node 1 [Node 2 []; Node 3 []]] [] [1; 4] (SDef 4 [] [] [] false None [] [] []) with
  | Some r => r_exits r = [[1; 4]]
  | None => False
  end.
Proof. vm_compute. repeat split; reflexivity. Qed.

(* non-vacuity: a transition between two regions' states in a parallel state *)
Example C02_example :
  let d := SDef 5 [] [] [] false None [] [] [] in
  let f := [Node 1 [Node 2 [Node 4 []]; Node 3 [Node 6 []]]] in
  match resolve f [] [1; 2; 5] d with
  | Some r => r_exits r = [[1; 2; 4]] /\ r_enters r = [[1; 2; 5]] /\
              r_new r = [Node 1 [Node 2 [Node 5 []]; Node 3 [Node 6 []]]]
  | None => False
  end.
Proof. vm_compute. repeat split; reflexivity. Qed.
