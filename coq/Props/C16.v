(* C16 — Diagrams depict the machine: states, nesting, transitions and activity
   (Mermaid backend: transitions/extensions/diagrams.py, diagrams_base.py, diagrams_mermaid.py).
   Statements only; each is closed by [exact] of a lemma proved in Proofs/DiagramP.v.

   Vocabulary (Model/Diagram.v): [render_full m st] is the list of abstract lines of
   model.get_graph() for the machine description [m] and the styling state [st];
   [render_roi m st cur] the region-of-interest view; [run m ops] the state of the diagram
   support after a history of events / add_states / add_transition / remove_transition;
   [view d] / [view_roi d] the two diagrams of that state.  [all_subtrees f] lists every state
   of the forest with the path of its parent, [node_name p] is its full name.
   Hypotheses are the boolean well-formedness predicates the generator's cases satisfy:
   [wf_kind] (a flat machine has no compound states), [wf_forest] (sibling names distinct),
   [wf_trans] (non-empty trigger / label). *)
From Coq Require Import List Arith Bool.
From M Require Import Diagram.
From P Require Import DiagramP.
Import ListNotations.

(* Every state is declared exactly once: the declared names are the state names of the machine,
   in pre-order, without repetition (any styling state, flat and nested machines). *)
Theorem C16_states_once : forall m st, wf_kind (m_opts m) (m_states m) = true ->
  map fst (decls (render_full m st)) = all_names (m_states m)
  /\ (wf_forest (m_states m) = true -> NoDup (map fst (decls (render_full m st)))).
Proof. exact states_once. Qed.
Print Assumptions C16_states_once.

(* Children inside their parents: scanning the diagram with a stack of open blocks, every
   declaration and every block opening lies inside exactly the blocks of its ancestors
   (innermost first), no block is closed that was not opened, all are closed at the end.
   Holds for the full and for the region-of-interest view. *)
Theorem C16_nesting : forall m st cur,
  check_scopes (render_full m st) [] = Some [] /\ check_scopes (render_roi m st cur) [] = Some [].
Proof. intros m st cur. split. exact (check_view m st). exact (check_view_roi m st cur). Qed.
Print Assumptions C16_nesting.

(* Parallel regions are separated: the block of every region of a parallel state except the
   first is directly preceded by a separator line. *)
Theorem C16_parallel_separated : forall m st pfx s a k b,
  o_nested (m_opts m) = true -> In (pfx, s) (all_subtrees (m_states m)) ->
  s_comp s = true -> s_ini s = IniPar -> s_kids s = a ++ k :: b -> a <> [] ->
  exists l1 l2, render_full m st =
    l1 ++ Sep :: rnode (m_opts m) (nstyle (st_nodes st)) (pfx ++ [s_id s]) k ++ l2.
Proof. exact parallel_regions. Qed.
Print Assumptions C16_parallel_separated.

(* An edge source -> destination (source -> source for an internal transition) for every shown
   transition — the user's transitions, and the automatic ones when they are shown ([elements]) —
   whose label list contains the transition's label; the line carries the labels of all
   transitions between the two states. *)
Theorem C16_edges : forall m st t, In t (elements m) -> tlabel (m_opts m) t <> [] ->
  In (Edge (t_src t) (dst_of t) (labels_for (m_opts m) (elements m) (t_src t) (dst_of t))) (render_full m st)
  /\ In (tlabel (m_opts m) t) (labels_for (m_opts m) (elements m) (t_src t) (dst_of t)).
Proof. exact view_edges_all. Qed.
Print Assumptions C16_edges.

Theorem C16_edges_user : forall m t, In t (m_trans m) -> wf_trans t = true ->
  In t (elements m) /\ tlabel (m_opts m) t <> [].
Proof.
  intros m t H W. split; [|exact (tlabel_nonempty (m_opts m) t W)].
  unfold elements, shown. apply in_or_app. left. apply in_or_app. right. exact H.
Qed.
Print Assumptions C16_edges_user.

(* A transition declared inside a nested state's definition (scope p, names relative to p) is drawn between the
   absolute names p ++ source and p ++ destination (p ++ source twice when it is internal), with its label. *)
Theorem C16_edges_scoped : forall m st p t, In (p, t) (m_scoped m) -> wf_trans t = true ->
  let s := p ++ t_src t in
  let d := p ++ dst_of t in
  In (Edge s d (labels_for (m_opts m) (elements m) s d)) (render_full m st)
  /\ In (tlabel (m_opts m) t) (labels_for (m_opts m) (elements m) s d).
Proof. exact scoped_edges. Qed.
Print Assumptions C16_edges_scoped.

(* Conversely every edge line carries exactly the labels of the transitions between its two
   states (no invented edge, no invented label). *)
Theorem C16_edges_only : forall m st s d ls, wf_kind (m_opts m) (m_states m) = true ->
  In (Edge s d ls) (render_full m st) ->
  ls = labels_for (m_opts m) (elements m) s d /\ ls <> []
  /\ (forall l, In l ls -> exists t, In t (elements m) /\ t_src t = s /\ dst_of t = d /\ tlabel (m_opts m) t = l).
Proof. exact view_edges_only. Qed.
Print Assumptions C16_edges_only.

(* The label names the trigger (or the custom label), marks internal transitions, and shows
   the conditions exactly when requested. *)
Theorem C16_label : forall o t,
  tlabel o t =
  (match t_label t with Some l => l | None => t_trig t end)
  ++ (match t_dst t with None => s_internal | Some _ => [] end)
  ++ (if o_conds o && negb (match t_conds t, t_unless t with [], [] => true | _, _ => false end)
      then s_open ++ join s_amp (map fst (t_conds t) ++ map (fun u => s_bang ++ fst u) (t_unless t)) ++ s_close
      else []).
Proof. exact tlabel_shape. Qed.
Print Assumptions C16_label.

(* Final states and initial substates are marked: the final marks are exactly the final states,
   the initial marks exactly the initial substates of compound states (plus the machine's
   initial state at the end). *)
Theorem C16_marks : forall m st, wf_kind (m_opts m) (m_states m) = true ->
  finals (render_full m st) = flat_map (fun p => if s_final (snd p) then [node_name p] else []) (all_subtrees (m_states m))
  /\ inits (render_full m st) = flat_map init_mark (all_subtrees (m_states m)) ++ [m_initial m].
Proof. exact marks_view. Qed.
Print Assumptions C16_marks.

(* After any history — events whose on_enter callbacks fire follow-up events that are processed
   at once (unqueued machine, any nesting depth of such follow-ups), add_states, add_transition,
   remove_transition: only current states are styled active, only the source of the last
   executed state-changing transition ([d_last]: the one whose state change started last) is
   styled previous, no other style occurs, and every top-level current state carries the active
   style.  Guard [exit_inert]/[op_inert]: no on_exit callback fires a follow-up event or regenerates
   the graph (see C16_styles_exit_refuted, C16_styles_regen_refuted; callbacks that regenerate the
   graph from on_enter are covered). *)
Theorem C16_styles : forall m ops, let d := run m ops in
  exit_inert m = true -> forallb (op_inert (cbcfg m)) ops = true ->
  wf_kind (m_opts (d_m d)) (m_states (d_m d)) = true ->
  (forall n, In (ClassOf n 1) (view d) -> In n (d_cur d))
  /\ (forall n, In (ClassOf n 2) (view d) -> d_last d = Some n)
  /\ (forall n v, In (ClassOf n v) (view d) -> v <= 2)
  /\ (forall s, In s (m_states (d_m d)) -> In [s_id s] (d_cur d) -> In (ClassOf [s_id s] 1) (view d)).
Proof. exact styles_thm. Qed.
Print Assumptions C16_styles.

(* Without the guard the statement is false of the faithful model: an on_exit callback of A that
   fires x (A -> D) while go (A -> B) is being executed leaves D styled active although the model
   ends in B (replayed on /repo: probes/KF-C16-3.py). *)
Definition rf_m : machine :=
  mkM [ Node 0 [65] None false [] [[108]] false NoInit []; Node 1 [66] None false [] [] false NoInit [];
        Node 3 [68] None false [] [] false NoInit [] ]
      [ mkT [103] None [0] (Some [1]) [] []; mkT [120] None [0] (Some [3]) [] [] ]
      [0] (mkO false false false false false true) [([108], [120])] 1 [] [].
Theorem C16_styles_exit_refuted :
  exists m ops, wf_kind (m_opts m) (m_states m) = true /\ wf_forest (m_states m) = true /\
    exit_inert m = false /\
    exists n, In (ClassOf n 1) (view (run m ops)) /\ ~ In n (d_cur (run m ops)).
Proof.
  exists rf_m, [Ev [103]]. repeat split; try reflexivity.
  exists [3]. split.
  - vm_compute. auto 20.
  - vm_compute. intros [H|[]]. discriminate.
Qed.
Print Assumptions C16_styles_exit_refuted.

(* Likewise an on_exit callback of A that regenerates the graph (model.get_graph(force_new=True)) while
   go (A -> B) is being executed: the fresh graph styles A active, the model ends in B
   (replayed on /repo: probes/KF-C16-2.py). *)
Definition rg_m : machine :=
  mkM [ Node 0 [65] None false [] [[114]] false NoInit []; Node 1 [66] None false [] [] false NoInit [] ]
      [ mkT [103] None [0] (Some [1]) [] [] ]
      [0] (mkO false false false false false true) [] 0 [[114]] [].
Theorem C16_styles_regen_refuted :
  exists m ops, wf_kind (m_opts m) (m_states m) = true /\ wf_forest (m_states m) = true /\
    exit_inert m = false /\
    exists n, In (ClassOf n 1) (view (run m ops)) /\ ~ In n (d_cur (run m ops)).
Proof.
  exists rg_m, [Ev [103]]. repeat split; try reflexivity.
  exists [0]. split.
  - vm_compute. auto 20.
  - vm_compute. intros [H|[]]. discriminate.
Qed.
Print Assumptions C16_styles_regen_refuted.

(* The region-of-interest view declares every active state, and for every transition leaving
   an active state (or one of its ancestors) it has the edge with the transition's label and
   declares the destination. *)
Theorem C16_roi : forall m st cur, wf_kind (m_opts m) (m_states m) = true ->
  (forall p, In p (all_subtrees (m_states m)) -> In (node_name p) cur ->
     In (Decl (node_name p) (disp (m_opts m) (snd p))) (render_roi m st cur))
  /\ (forall t, In t (elements m) -> In (t_src t) (roi_active cur) -> tlabel (m_opts m) t <> [] ->
      let ts := roi_trans (roi_active cur) st (elements m) in
      In (Edge (t_src t) (dst_of t) (labels_for (m_opts m) ts (t_src t) (dst_of t))) (render_roi m st cur)
      /\ In (tlabel (m_opts m) t) (labels_for (m_opts m) ts (t_src t) (dst_of t))
      /\ (forall p, In p (all_subtrees (m_states m)) -> node_name p = dst_of t ->
            In (Decl (node_name p) (disp (m_opts m) (snd p))) (render_roi m st cur))).
Proof. exact roi_thm. Qed.
Print Assumptions C16_roi.

(* Later additions and removals: after add_states / add_transition / remove_transition the
   diagram is the one generated from the updated machine (with fresh styling: the current
   state active); an added state is declared, an added transition has its edge and label,
   and after a removal every label on every edge stems from a remaining transition. *)
Theorem C16_refresh : forall d o, is_ev o = false ->
  view (step d o) = render_full (apply_op (d_m d) o) (fresh_styles (d_cur d))
  /\ view_roi (step d o) = render_roi (apply_op (d_m d) o) (fresh_styles (d_cur d)) (d_cur d)
  /\ d_cur (step d o) = d_cur d /\ d_m (step d o) = apply_op (d_m d) o.
Proof. exact refresh_view. Qed.
Print Assumptions C16_refresh.

Theorem C16_added_state : forall d s,
  wf_kind (m_opts (d_m d)) (m_states (d_m d) ++ [s]) = true ->
  In (Decl [s_id s] (disp (m_opts (d_m d)) s)) (view (step d (AddState s))).
Proof. exact add_state_appears. Qed.
Print Assumptions C16_added_state.

(* add_states with a list: every state of the list is declared (in particular the states that follow a
   compound state in the same call). *)
Theorem C16_added_states : forall d l s,
  wf_kind (m_opts (d_m d)) (m_states (d_m d) ++ l) = true -> In s l ->
  In (Decl [s_id s] (disp (m_opts (d_m d)) s)) (view (step d (AddStates l))).
Proof. exact add_states_appear. Qed.
Print Assumptions C16_added_states.

Theorem C16_added_transition : forall d t, wf_trans t = true ->
  let m' := apply_op (d_m d) (AddTrans t) in
  In (Edge (t_src t) (dst_of t) (labels_for (m_opts m') (elements m') (t_src t) (dst_of t))) (view (step d (AddTrans t)))
  /\ In (tlabel (m_opts m') t) (labels_for (m_opts m') (elements m') (t_src t) (dst_of t)).
Proof. exact add_trans_appears. Qed.
Print Assumptions C16_added_transition.

Theorem C16_removed_transition : forall d e s dd,
  let m' := d_m (step d (RemTrans e s dd)) in
  (forall t, In t (m_trans m') <-> In t (m_trans (d_m d)) /\ removed e s dd t = false)
  /\ (wf_kind (m_opts m') (m_states m') = true ->
      forall a b ls, In (Edge a b ls) (view (step d (RemTrans e s dd))) ->
      forall l, In l ls -> exists t, In t (elements m') /\ t_src t = a /\ dst_of t = b /\ tlabel (m_opts m') t = l).
Proof. exact rem_trans_disappears. Qed.
Print Assumptions C16_removed_transition.

(* Non-vacuity: a hierarchical machine with a parallel state, a final state, an initial
   substate, conditions and an internal transition satisfies the hypotheses; a history with
   an executed transition, an added state, an added and a removed transition. *)
Definition ex_leaf (i : nat) (tx : str) (fin : bool) : stree := Node i tx None fin [] [] false NoInit [].
Definition ex_forest : list stree :=
  [ ex_leaf 0 [65] false;
    Node 1 [66] (Some [66; 101; 101]) false [[102]] [] true (IniOne 10) [ex_leaf 10 [120] false; ex_leaf 11 [121] true];
    Node 2 [80] None false [] [] true IniPar [ex_leaf 20 [117] false; ex_leaf 21 [118] false] ].
Definition ex_trans : list trans :=
  [ mkT [103; 111] None [0] (Some [1]) [([99; 48], true)] [([99; 49], false)];
    mkT [105] None [1; 10] None [] [];
    mkT [110] (Some [78]) [1; 10] (Some [1; 11]) [] [] ].
Definition ex_m : machine := mkM ex_forest ex_trans [0] (mkO true false true true false true) [] 0 []
       [([1], mkT [108] None [10] (Some [11]) [] []); ([2], mkT [109] None [21] None [] [])].
Definition ex_ops : list op :=
  [ Ev [103; 111]; Ev [105]; Ev [110]; AddState (ex_leaf 3 [67] false);
    AddTrans (mkT [122] None [3] (Some [0]) [] []); RemTrans [105] None None ].

Example C16_example_wf :
  wf_kind (m_opts ex_m) (m_states ex_m) = true /\ wf_forest (m_states ex_m) = true
  /\ forallb wf_trans (m_trans ex_m) = true
  /\ d_cur (run ex_m ex_ops) = [[1; 11]] /\ d_last (run ex_m ex_ops) = Some [1; 10]
  /\ wf_kind (m_opts (d_m (run ex_m ex_ops))) (m_states (d_m (run ex_m ex_ops))) = true
  /\ In (ClassOf [0] 2) (view (run ex_m [Ev [103; 111]]))
  /\ In (Sep) (view (run ex_m ex_ops))
  /\ length (view_roi (run ex_m ex_ops)) < length (view (run ex_m ex_ops)).
Proof. vm_compute. repeat split; auto 20. Qed.
Print Assumptions C16_example_wf.

(* Non-vacuity of the nested-processing clause: A --go--> B, on_enter of B fires on: B --> C; afterwards
   A is default, B previous, C active. *)
Definition nx_m : machine :=
  mkM [ Node 0 [65] None false [] [] false NoInit []; Node 1 [66] None false [[102]] [] false NoInit [];
        Node 2 [67] None false [] [] false NoInit [] ]
      [ mkT [103] None [0] (Some [1]) [] []; mkT [111] None [1] (Some [2]) [] [] ]
      [0] (mkO false false false false false true) [([102], [111])] 2 [] [].
Example C16_example_nested :
  exit_inert nx_m = true /\ forallb (op_inert (cbcfg nx_m)) [Ev [103]] = true
  /\ d_cur (run nx_m [Ev [103]]) = [[2]] /\ d_last (run nx_m [Ev [103]]) = Some [1]
  /\ classes (view (run nx_m [Ev [103]])) = [([0], 0); ([1], 2); ([2], 1)].
Proof. vm_compute. repeat split; reflexivity. Qed.
Print Assumptions C16_example_nested.
