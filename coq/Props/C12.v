(* C12 — may_<event> predicts the trigger and has no side effects (flat engine).
   Statements only. *)
From Coq Require Import List Arith Bool.
From M Require Import Base Flat FlatSpec.
From P Require Import FlatP FlatOrder FlatMay.
From M Require Hsm.
From P Require HsmMay.
Import ListNotations.

(* Purity: for every machine whose transitions all have registered destinations, every
   non-raising environment, state and event, may_<event> runs exactly, for each candidate
   in order up to the first whose checks pass: prepare_event, the candidate's prepare
   callbacks and its checks (up to the first failing one) — nothing else — hands them the
   given arguments, and leaves the model's state unchanged. *)
Theorem C12_pure :
  forall (mc : machine) (ev : env) (c : ctx) (e : event) (p : nat) (cur : state),
    no_raise_from ev p -> registered mc cur = true -> wf_machine mc = true ->
    can_trigger mc ev c e p cur =
      match lookup (m_events mc) e with
      | Some ts => let r := may_scan mc ev c cur (candidates ts cur) p in (fst r, cur, inr (snd r))
      | None => ([], cur, inr false)
      end.
Proof. exact may_pure. Qed.
Print Assumptions C12_pure.

(* Prediction: with deterministic conditions, may_<event>() is True exactly when
   triggering the event right away (at any later position) executes a transition —
   including unknown events, invalid sources and ignored invalid triggers (False). *)
Theorem C12_iff :
  forall (mc : machine) (ev : env) (c : ctx) (e : event) (p p' : nat) (cur : state),
    no_raise_from ev p -> no_raise_from ev p' -> det ev ->
    registered mc cur = true -> wf_machine mc = true ->
    snd (can_trigger mc ev c e p cur) = inr (executes (trigger mc ev c e p' cur)).
Proof. exact may_iff. Qed.
Print Assumptions C12_iff.

(* The guard wf_machine (every destination registered) cannot be dropped: a candidate
   with an unregistered destination whose checks pass, followed by a valid passing one,
   makes may_ answer True although the trigger raises ValueError (KF-C12-1). *)
Definition kf_mc : machine :=
  mkMachine [(0, mkSdef [] [] false None)]
            [(0, [mkTrans 0 (Some 5) [] [] [] []; mkTrans 0 (Some 0) [] [] [] []])]
            [] [] [] [] [] [] false false.
Definition kf_ev : env := fun _ _ => mkReply true None [].
Theorem C12_iff_refuted :
  snd (can_trigger kf_mc kf_ev (mkCtx 0 0 false) 0 0 0) = inr true /\
  snd (trigger kf_mc kf_ev (mkCtx 0 0 false) 0 0 0) = inl ValueError.
Proof. vm_compute. split; reflexivity. Qed.
Print Assumptions C12_iff_refuted.

(* non-vacuity: a machine meeting all hypotheses on which may_ is True *)
Example C12_nonvacuous :
  let mc := mkMachine [(0, mkSdef [] [] false None); (1, mkSdef [] [] false None)]
                      [(0, [mkTrans 0 (Some 1) [3] [(4, true); (5, false)] [] []])]
                      [1] [] [] [] [] [] false false in
  let ev : env := fun cb _ => mkReply (negb (Nat.eqb cb 5)) None [] in
  wf_machine mc = true /\ registered mc 0 = true /\
  snd (can_trigger mc ev (mkCtx 0 0 false) 0 0 0) = inr true.
Proof. vm_compute. repeat split; reflexivity. Qed.

(* Hierarchical machines (any state tree, parallel regions, transitions inherited from
   ancestors, declared globally or inside state definitions): whatever the evaluated
   callbacks return or raise, may_<event> never changes the configuration and runs only
   prepare-stage, condition and (for routed exceptions) on_exception callbacks. *)
Theorem C12_hsm_pure :
  forall (hm : Hsm.hmachine) (ev : env) (c : ctx) (e : event) (p : nat) (f : Hsm.forest) tr f' r,
    Hsm.can_trigger hm ev c e p f = (tr, f', r) ->
    f' = f /\ Forall (fun it => HsmMay.may_slot (it_slot it) = true) tr.
Proof. exact HsmMay.hsm_may_pure. Qed.
Print Assumptions C12_hsm_pure.
