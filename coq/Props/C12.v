(* C12 — may_<event> predicts the trigger and has no side effects (flat engine).
   Statements only. *)
From Coq Require Import List Arith Bool.
From M Require Import Base Flat FlatSpec.
From P Require Import FlatP FlatOrder FlatMay.
From M Require Hsm.
From P Require HsmMay HsmIff MayGen FlatMayExn HsmMayExn HsmReach HsmTotal.
Import ListNotations.

(* Purity: for every machine whose transitions all have registered destinations, every
   non-raising environment, state and event, may_<event> runs exactly, for each candidate
   in order up to the first whose checks pass: prepare_event, the candidate's prepare
   callbacks and its checks (up to the first failing one) — nothing else — hands them the
   given arguments, and leaves the model's state unchanged. *)
Theorem C12_pure :
  forall (mc : machine) (ev : env) (c : ctx) (e : event) (p : nat) (cur : state),
    no_raise_from ev p -> registered mc cur = true -> wf_machine mc = true ->
    can_trigger mc ev c e p cur =
      match lookup (m_events mc) e with
      | Some ts => let r := may_scan mc ev c cur (candidates ts cur) p in (fst r, cur, inr (snd r))
      | None => ([], cur, inr false)
      end.
Proof. exact may_pure. Qed.
Print Assumptions C12_pure.

(* Prediction: with deterministic conditions, may_<event>() is True exactly when
   triggering the event right away (at any later position) executes a transition —
   including unknown events, invalid sources and ignored invalid triggers (False). *)
Theorem C12_iff :
  forall (mc : machine) (ev : env) (c : ctx) (e : event) (p p' : nat) (cur : state),
    no_raise_from ev p -> no_raise_from ev p' -> det ev ->
    registered mc cur = true -> wf_machine mc = true ->
    snd (can_trigger mc ev c e p cur) = inr (executes (trigger mc ev c e p' cur)).
Proof. exact may_iff. Qed.
Print Assumptions C12_iff.

(* The guard wf_machine (every destination registered) cannot be dropped: a candidate
   with an unregistered destination whose checks pass, followed by a valid passing one,
   makes may_ answer True although the trigger raises ValueError (KF-C12-1). *)
Definition kf_mc : machine :=
  mkMachine [(0, mkSdef [] [] false None)]
            [(0, [mkTrans 0 (Some 5) [] [] [] []; mkTrans 0 (Some 0) [] [] [] []])]
            [] [] [] [] [] [] false false.
Definition kf_ev : env := fun _ _ => mkReply true None [].
Theorem C12_iff_refuted :
  snd (can_trigger kf_mc kf_ev (mkCtx 0 0 false) 0 0 0) = inr true /\
  snd (trigger kf_mc kf_ev (mkCtx 0 0 false) 0 0 0) = inl ValueError.
Proof. vm_compute. split; reflexivity. Qed.
Print Assumptions C12_iff_refuted.

(* non-vacuity: a machine meeting all hypotheses on which may_ is True *)
Example C12_nonvacuous :
  let mc := mkMachine [(0, mkSdef [] [] false None); (1, mkSdef [] [] false None)]
                      [(0, [mkTrans 0 (Some 1) [3] [(4, true); (5, false)] [] []])]
                      [1] [] [] [] [] [] false false in
  let ev : env := fun cb _ => mkReply (negb (Nat.eqb cb 5)) None [] in
  wf_machine mc = true /\ registered mc 0 = true /\
  snd (can_trigger mc ev (mkCtx 0 0 false) 0 0 0) = inr true.
Proof. vm_compute. repeat split; reflexivity. Qed.

(* Hierarchical machines (any state tree, parallel regions, transitions inherited from
   ancestors, declared globally or inside state definitions): whatever the evaluated
   callbacks return or raise, may_<event> never changes the configuration and runs only
   prepare-stage, condition and (for routed exceptions) on_exception callbacks. *)
Theorem C12_hsm_pure :
  forall (hm : Hsm.hmachine) (ev : env) (c : ctx) (e : event) (p : nat) (f : Hsm.forest) tr f' r,
    Hsm.can_trigger hm ev c e p f = (tr, f', r) ->
    f' = f /\ Forall (fun it => HsmMay.may_slot (it_slot it) = true) tr.
Proof. exact HsmMay.hsm_may_pure. Qed.
Print Assumptions C12_hsm_pure.

(* Prediction on hierarchical machines (any state tree, parallel regions, transitions inherited
   from ancestors, declared globally or inside state definitions): with deterministic,
   non-raising callbacks, in every configuration with unique sibling names, whenever the
   trigger returns normally (b) without an internal error having been routed to on_exception
   handlers, may_<event> returns exactly b - and leaves the configuration alone.  [HsmIff.avail]
   is the readable middle: some scope declares for an ACTIVE source a transition of the event
   whose destination is registered and whose checks pass. *)
Theorem C12_hsm_iff :
  forall (hm : Hsm.hmachine) (ev : env) (c : ctx) (e : event) (p p' : nat) (f : Hsm.forest)
         tr1 f1 r1 tr2 f2 (b : bool),
    (forall cb q, r_raise (ev cb q) = None) -> (forall cb p q, ev cb p = ev cb q) ->
    HsmSpec.uniq f = true ->
    Hsm.can_trigger hm ev c e p f = (tr1, f1, r1) ->
    Hsm.trigger_event hm ev c e p' f = (tr2, f2, inr b) ->
    Forall (fun it => it_slot it <> SOnException) tr2 ->
    r1 = inr b /\ f1 = f.
Proof. intros hm ev c e p p' f tr1 f1 r1 tr2 f2 b NR DET. exact (HsmIff.hsm_may_iff hm ev c e NR DET p p' f tr1 f1 r1 tr2 f2 b). Qed.
Print Assumptions C12_hsm_iff.

Theorem C12_hsm_may_characterisation :
  forall (hm : Hsm.hmachine) (ev : env) (c : ctx) (e : event) (p : nat) (f : Hsm.forest),
    (forall cb q, r_raise (ev cb q) = None) -> (forall cb p q, ev cb p = ev cb q) ->
    HsmSpec.uniq f = true ->
    exists tr b, Hsm.can_trigger hm ev c e p f = (tr, f, inr b) /\ (b = true <-> HsmIff.avail hm ev e f).
Proof. intros hm ev c e p f NR DET. exact (HsmIff.may_iff_avail hm ev c e NR DET p f). Qed.
Print Assumptions C12_hsm_may_characterisation.

(* non-vacuity: parallel regions 2 and 3 of state 1; the event is declared inside region 3 for its
   child 5 (blocked by a failing condition) and globally for 1_2_4 (passes): may_ is True and
   the trigger executes *)
Example C12_hsm_nonvacuous :
  let hm := Hsm.mkHM
      [Hsm.SDef 1 [] [] [] false None [2; 3] []
         [Hsm.SDef 2 [] [] [] false None [4] [] [Hsm.SDef 4 [] [] [] false None [] [] []; Hsm.SDef 6 [] [] [] false None [] [] []];
          Hsm.SDef 3 [] [] [] false None [5] [(0, [Hsm.mkHT [5] (Some [5]) [] [(9, true)] [] []])]
            [Hsm.SDef 5 [] [] [] false None [] [] []]]]
      [(0, [Hsm.mkHT [1; 2; 4] (Some [1; 2; 6]) [] [(8, true)] [] []])] [] [] [] [] [] [] false false in
  let ev : env := fun cb _ => mkReply (negb (Nat.eqb cb 9)) None [] in
  let f := [Hsm.Node 1 [Hsm.Node 2 [Hsm.Node 4 []]; Hsm.Node 3 [Hsm.Node 5 []]]] in
  HsmSpec.uniq f = true /\
  snd (Hsm.can_trigger hm ev (mkCtx 0 0 false) 0 0 f) = inr true /\
  snd (Hsm.trigger_event hm ev (mkCtx 0 0 false) 0 0 f) = inr true /\
  snd (fst (Hsm.trigger_event hm ev (mkCtx 0 0 false) 0 0 f)) = [Hsm.Node 1 [Hsm.Node 2 [Hsm.Node 6 []]; Hsm.Node 3 [Hsm.Node 5 []]]].
Proof. vm_compute. repeat split; reflexivity. Qed.

(* The prediction on hierarchical machines WITHOUT the proviso "whenever the trigger returns normally": with
   deterministic, non-raising callbacks, duplicate-free initial lists (wf_defs), destinations registered in their
   declaring scope (dst_ok, decidable) and a good configuration (unique sibling names, registered states only -
   the configuration add_model creates is good, C03_initial_good, and goodness is kept), may_<event> returns some
   b0 and leaves the configuration alone; if b0 is True the trigger returns True; if b0 is False the trigger
   returns False or raises the invalid-trigger error - nothing else can happen, the engine has no internal
   failure mode (HsmTotal). *)
Theorem C12_hsm_iff_total :
  forall (hm : Hsm.hmachine) (ev : env) (c : ctx) (e : event) (p p' : nat) (f : Hsm.forest) tr1 f1 r1 tr2 f2 r2,
    (forall cb q, r_raise (ev cb q) = None) -> (forall cb p q, ev cb p = ev cb q) ->
    HsmReach.wf_defs hm = true -> HsmTotal.dst_ok hm = true -> HsmTotal.good hm f ->
    Hsm.can_trigger hm ev c e p f = (tr1, f1, r1) ->
    Hsm.trigger_event hm ev c e p' f = (tr2, f2, r2) ->
    exists b0, r1 = inr b0 /\ f1 = f /\ HsmTotal.good hm f2 /\
      (b0 = true -> r2 = inr true) /\
      (b0 = false -> r2 = inr false \/ r2 = inl MachineError \/ r2 = inl AttributeError).
Proof. exact HsmTotal.hsm_may_total_b. Qed.
Print Assumptions C12_hsm_iff_total.

(* non-vacuity: the machine of C12_hsm_nonvacuous meets the decidable hypotheses, its configuration is the one
   add_model creates for initial state 1 *)
Example C12_hsm_iff_total_nonvacuous :
  let hm := Hsm.mkHM
      [Hsm.SDef 1 [] [] [] false None [2; 3] []
         [Hsm.SDef 2 [] [] [] false None [4] [] [Hsm.SDef 4 [] [] [] false None [] [] []; Hsm.SDef 6 [] [] [] false None [] [] []];
          Hsm.SDef 3 [] [] [] false None [5] [(0, [Hsm.mkHT [5] (Some [5]) [] [(9, true)] [] []])]
            [Hsm.SDef 5 [] [] [] false None [] [] []]]]
      [(0, [Hsm.mkHT [1; 2; 4] (Some [1; 2; 6]) [] [(8, true)] [] []])] [] [] [] [] [] [] false false in
  HsmReach.wf_defs hm = true /\ HsmTotal.dst_ok hm = true /\
  Hsm.chain_tree [1] (Hsm.initial_tree Hsm.def_depth_bound (Hsm.SDef 1 [] [] [] false None [2; 3] [] (Hsm.sd_children (hd (Hsm.SDef 0 [] [] [] false None [] [] []) (Hsm.hm_states hm)))))
    = [Hsm.Node 1 [Hsm.Node 2 [Hsm.Node 4 []]; Hsm.Node 3 [Hsm.Node 5 []]]].
Proof. vm_compute. repeat split; reflexivity. Qed.

(* ---------- every environment: callbacks may raise anything (last clause of the property) ---------- *)
(* Flat machines, any machine / environment / registered state / event: may_<event> leaves the state
   alone, runs only prepare-stage, condition and on_exception callbacks, and if an exception x reaches
   the caller then x was raised by the callback that ran LAST, at its position - and either no
   on_exception handler is registered (the evaluated callback's exception is raised) or that last
   callback is itself an on_exception handler: with handlers registered the exception of an evaluated
   callback never reaches the caller, it is routed to them. *)
Theorem C12_any_env :
  forall (mc : machine) (ev : env) (c : ctx) (e : event) (p : nat) (cur : state) tr s' r,
    registered mc cur = true ->
    can_trigger mc ev c e p cur = (tr, s', r) ->
    s' = cur /\ Forall (fun it => MayGen.may_slot_f (it_slot it) = true) tr /\
    (forall x, r = inl x ->
       exists tr0 it, tr = tr0 ++ [it] /\ r_raise (ev (it_cb it) (p + length tr0)) = Some x /\
                      (m_on_exception mc = [] \/ it_slot it = SOnException)).
Proof. exact FlatMayExn.may_any_env. Qed.
Print Assumptions C12_any_env.

(* the same for hierarchical machines, every state tree / configuration / scope structure *)
Theorem C12_hsm_any_env :
  forall (hm : Hsm.hmachine) (ev : env) (c : ctx) (e : event) (p : nat) (f : Hsm.forest) tr f' r,
    Hsm.can_trigger hm ev c e p f = (tr, f', r) ->
    f' = f /\ Forall (fun it => MayGen.may_slot_f (it_slot it) = true) tr /\
    (forall x, r = inl x ->
       exists tr0 it, tr = tr0 ++ [it] /\ r_raise (ev (it_cb it) (p + length tr0)) = Some x /\
                      (Hsm.hm_on_exception hm = [] \/ it_slot it = SOnException)).
Proof. exact HsmMayExn.hsm_may_any_env. Qed.
Print Assumptions C12_hsm_any_env.
