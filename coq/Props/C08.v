(* C08 — async concurrency: queue modes serialize, cancellation hits only its targets.
   Model: M.AsyncConc (interleaving semantics of the bookkeeping AsyncMachine keeps on top of asyncio:
   async_tasks, protected_tasks, current_context, the queue dictionary, model states).
   Root call chains are started under ANY guard (a further start condition: `guard`), e.g. "the timer of the
   AsyncTimeout state is armed" for the trigger awaited by an on_timeout callback — _process_timeout clears
   current_context, so that trigger is a root call chain like a fresh task: every theorem below covers it.
   A schedule is ANY list of event ids (start that trigger task / release the future its callback awaits);
   event programs are ANY instruction lists; any number of tasks, models, nesting depth.
   PARTIAL by nature: task switching, gather, shield and the delivery of CancelledError are asyncio's and are
   assumed to behave as in the model (checked against /repo by the correspondence harness on every run).
   Statements only. *)
From Coq Require Import List Arith Bool.
From M Require Import AsyncConc AsyncConcIO.
From P Require Import AsyncConcP AsyncConcQ.
Import ListNotations.

(* ---- cancellation hits exactly its targets (cancel_running_transitions) ---- *)

(* The tasks cancelled when the conditions of a transition on model m passed, executed by task [me]:
   exactly the tasks registered in async_tasks[m] (= unfinished, see C08_quiescent) other than the caller's own
   task (its whole call chain runs in that task) and not protected.  Tasks of other models: never. *)
Theorem C08_cancel_exact : forall me prot m reg u,
  In u (cancel_targets me prot m reg) <-> (In (m, u) reg /\ u <> me /\ prot u = false).
Proof. exact cancel_targets_spec. Qed.

(* The "conditions passed" move of a task requests exactly these cancellations (one request per task between
   two runs of the target), changes neither async_tasks nor any model state nor the rest of its own call chain,
   and goes on running. *)
Theorem C08_cancel_step : forall defs prot t h k rest code,
  t_stack t = k :: rest -> f_cb (kframe k) = Idle -> f_code (kframe k) = IPass :: code ->
  exists t' h', micro defs prot t CRun h = (t', CRun, h', Continue) /\
    h_cancel h' = h_cancel h ++
       filter (fun u => negb (existsb (Nat.eqb u) (h_cancel h)))
              (cancel_targets (t_id t) prot (f_model (kframe k)) (h_reg h)) /\
    h_reg h' = h_reg h /\ h_mstate h' = h_mstate h /\ tl (t_stack t') = rest.
Proof. exact pass_step. Qed.

(* ---- a cancelled event: no further transition callback, finalize still runs, trigger returns False ---- *)

(* For EVERY well-formed set of event programs, every queue mode, every set of top-level / protected triggers
   and EVERY schedule: the history of every event frame — live or finished — obeys the discipline [hist_ok]
   (Body -> cancel requested -> Finally, see AsyncConc.hstep), and every model state is a registered state. *)
Theorem C08_frame_discipline : forall defs mode n top prot preds guard fuel inits sched,
  forallb (wf_def n) defs = true -> Forall (fun x => x < n) inits ->
  let s := run_schedule defs mode top prot preds guard fuel (init_state mode inits) sched in
  Forall hist_ok (live_hists s ++ done_hists s) /\ Forall (fun x => x < n) (h_mstate (s_sh s)).
Proof. exact all_schedules_hists. Qed.

(* What [hist_ok] means: once the call chain of a frame has been cancelled (CancelledError delivered to its
   suspended callback, or a cancel request on the gather it awaits while a nested trigger runs), the frame emits
   no transition item any more: no Start of a prepare/condition/before/after callback, no set_state, no
   "conditions passed", no Begin. *)
Theorem C08_cancelled_behaviour : forall l1 it l2,
  hist_ok (l1 ++ it :: l2) -> is_cancel_mark it = true ->
  Forall (fun i => transition_item i = false) l2.
Proof. exact hist_cancel_no_transition. Qed.

(* ... and whatever made the frame reach its finally-block (cancellation, any error, normal completion), only
   finalize items follow: the finalize callbacks still run. *)
Theorem C08_finalize_only : forall l1 k x l2,
  hist_ok (l1 ++ GFin k x :: l2) -> Forall (fun i => fin_item i = true) l2.
Proof. exact hist_fin_only. Qed.

(* An error arriving in the body of an event (CancelledError included) is recorded, the finalize code is what
   remains, the frame ends by re-raising it, no model state changes; the top-level process_context turns
   CancelledError into False and removes exactly the task's own async_tasks entry. *)
Theorem C08_cancelled_result : forall f x h t h2, f_fin f = false -> own_ctx t = true ->
  let f' := fst (raise_in f x h) in
  (f_fin f' = true /\ f_exn f' = Some x /\ f_code f' = f_fincode f /\ frame_outcome f' = CExn x /\
   h_mstate (snd (raise_in f x h)) = h_mstate h) /\
  t_res (fst (finish t (CExn X_CANCEL) h2)) = Some (RBool false) /\
  h_reg (snd (finish t (CExn X_CANCEL) h2)) = remove_first (t_model t, t_id t) (h_reg h2) /\
  t_ctx (fst (finish t (CExn X_CANCEL) h2)) = None.
Proof. intros f x h t h2 H Ho. split; [apply raise_in_body; exact H | apply finish_cancelled; exact Ho]. Qed.

(* ---- the own-call-chain marker (AsyncMachine.current_context) leaves nothing behind ----
   The return of a top-level process_context — with a value, an error or a cancellation — resets the marker and
   removes the task's async_tasks entry (the `finally` block). *)
Theorem C08_context_finally : forall t c h, own_ctx t = true ->
  t_ctx (fst (finish t c h)) = None /\
  h_reg (snd (finish t c h)) = remove_first (t_model t, t_id t) (h_reg h).
Proof. exact finish_resets. Qed.

(* For EVERY schedule, with triggers awaited one after another in the same asyncio task (preds; a failing one's
   exception caught by the caller): an unfinished trigger task carries its own marker, a finished one has reset
   it, so a trigger started afterwards in the same asyncio task finds the marker EMPTY — it takes the registering
   branch of process_context, is listed in async_tasks and is cancelled like any fresh task. *)
Theorem C08_context_reset : forall defs mode top prot preds guard fuel inits sched,
  let s := run_schedule defs mode top prot preds guard fuel (init_state mode inits) sched in
  (forall t, In t (s_tasks s) -> (t_res t = None -> t_ctx t = Some (t_id t)) /\ (t_res t <> None -> t_ctx t = None)) /\
  (forall e, can_start top preds guard s e = true -> inherited_ctx preds s e = None).
Proof. exact all_schedules_ctx. Qed.

(* ---- the state a transition set is not overwritten by an event it cancelled ---- *)
Theorem C08_no_overwrite : forall l1 it l2 k m d,
  hist_ok (l1 ++ it :: l2) -> is_cancel_mark it = true -> ~ In (GSet k m d) l2.
Proof. exact no_set_after_cancel. Qed.

(* ---- quiescence: registered states, no bookkeeping for finished tasks ---- *)
(* For every schedule async_tasks lists exactly the unfinished tasks (in registration order); so when every
   task has finished it is empty, and every model state is a registered state. *)
Theorem C08_quiescent : forall defs mode n top prot preds guard fuel inits sched,
  forallb (wf_def n) defs = true -> Forall (fun x => x < n) inits ->
  let s := run_schedule defs mode top prot preds guard fuel (init_state mode inits) sched in
  h_reg (s_sh s) = reg_of (s_tasks s) /\
  (quiescent s = true -> h_reg (s_sh s) = [] /\ Forall (fun x => x < n) (h_mstate (s_sh s))).
Proof. exact all_schedules_quiescent. Qed.

(* ---- queue modes, per operation (queue discipline of _process_async); the global statements over all
   schedules follow below (the C08_global theorems) ---- *)

(* queued=True / 'model': a trigger arriving while its queue (the shared one / its model's) is busy is appended
   at the END with the next arrival number and returns True at once: nothing of it runs now. *)
Theorem C08_queued_deferred : forall defs mode e h x q,
  mode <> QNone ->
  qlookup (h_queues h) (qkey mode (e_model (edef defs e))) = Some (x :: q) ->
  exists h', call_trigger defs mode e h = CalledRet (RBool true) h' /\
    qlookup (h_queues h') (qkey mode (e_model (edef defs e))) = Some ((x :: q) ++ [mkQE (h_next h) e]) /\
    h_next h' = S (h_next h) /\ h_mstate h' = h_mstate h /\ h_log h' = h_log h.
Proof. exact trigger_deferred. Qed.

(* ... arriving at an idle queue it becomes the head and is processed by the caller *)
Theorem C08_queued_idle : forall defs mode e h,
  mode <> QNone ->
  qlookup (h_queues h) (qkey mode (e_model (edef defs e))) = Some [] ->
  exists f h', call_trigger defs mode e h = CalledPush (KQ (qkey mode (e_model (edef defs e))) f) h' /\
    f_no f = h_next h /\ f_ev f = e /\
    qlookup (h_queues h') (qkey mode (e_model (edef defs e))) = Some [mkQE (h_next h) e].
Proof. exact trigger_idle. Qed.

(* arrival order: when the head is over it is popped and the NEXT entry of the same queue is begun by the same
   drain loop (one event of a queue at a time); after the last one the loop returns True *)
Theorem C08_queued_serial : forall defs q f r rest h hd nx tl stk c h',
  qlookup (h_queues h) q = Some (hd :: nx :: tl) ->
  after_frame defs (KQ q f) (CRet r) rest h = (stk, c, h') ->
  c = CRun /\ qlookup (h_queues h') q = Some (nx :: tl) /\
  exists f', stk = KQ q f' :: rest /\ f_no f' = qe_no nx /\ f_ev f' = qe_ev nx.
Proof. exact drain_next_local. Qed.

Theorem C08_queued_last : forall defs q f r rest h hd stk c h',
  qlookup (h_queues h) q = Some [hd] ->
  after_frame defs (KQ q f) (CRet r) rest h = (stk, c, h') ->
  stk = rest /\ c = CRet (RBool true) /\ qlookup (h_queues h') q = Some [].
Proof. exact drain_last_local. Qed.

(* queued='model' (one queue per model; qkey QPerModel m = m): a failing event discards the pending entries of
   ITS queue only — every other model's queue is untouched — and the error is re-raised to the drain loop's caller *)
Theorem C08_model_serial : forall defs q f x rest h stk c h',
  after_frame defs (KQ q f) (CExn x) rest h = (stk, c, h') ->
  stk = rest /\
  (forall k', k' <> q -> qlookup (h_queues h') k' = qlookup (h_queues h) k') /\
  (forall l, qlookup (h_queues h) q = Some l -> qlookup (h_queues h') q = Some [] /\ c = CExn x).
Proof. exact drain_exn_local. Qed.

(* ---- the queue modes on the GLOBAL log, for EVERY schedule ----
   GBegin n e / GEnd n e r delimit the processing ("body") of the event with arrival number n (the value of the
   ghost counter when its trigger appended it to the queue — C08_queued_deferred / C08_queued_idle); every
   callback item, set_state, "conditions passed" carries the number of the body that emitted it. *)

(* The log of every run in a queue mode is accepted by the serial scan AsyncConc.gscan: a body begins only while
   no body of the same queue is open and not below the queue's arrival bound; every other item belongs to an open
   body.  The three theorems below read this off. *)
Theorem C08_global_scan : forall defs mode, mode <> QNone -> forall top prot preds guard fuel inits sched,
  serial_log defs mode (h_log (s_sh (run_schedule defs mode top prot preds guard fuel (init_state mode inits) sched))).
Proof. exact all_schedules_serial. Qed.

(* queued=True, all models together: of any two bodies in the log, the later one begins only after the earlier one
   has ended (no overlap), and the bodies begin in strictly increasing arrival number (arrival order). *)
Theorem C08_global_serial_fifo : forall defs top prot preds guard fuel inits sched l1 n e l2 n' e' l3,
  h_log (s_sh (run_schedule defs QShared top prot preds guard fuel (init_state QShared inits) sched)) =
    l1 ++ GBegin n e :: l2 ++ GBegin n' e' :: l3 ->
  (exists e2 r, In (GEnd n e2 r) l2) /\ n < n'.
Proof. exact shared_serial_fifo. Qed.

(* queued='model': the same for two bodies of events of the SAME model (bodies of different models may interleave:
   nothing is claimed about them). *)
Theorem C08_model_serial_fifo : forall defs top prot preds guard fuel inits sched l1 n e l2 n' e' l3,
  h_log (s_sh (run_schedule defs QPerModel top prot preds guard fuel (init_state QPerModel inits) sched)) =
    l1 ++ GBegin n e :: l2 ++ GBegin n' e' :: l3 ->
  e_model (edef defs e) = e_model (edef defs e') ->
  (exists e2 r, In (GEnd n e2 r) l2 /\ e_model (edef defs e2) = e_model (edef defs e)) /\ n < n'.
Proof. exact model_serial_fifo. Qed.

(* both queue modes: every item of the log lies inside the body of its own frame — after that frame's GBegin and
   before its GEnd.  With the two theorems above: between the first and the last step of one body no step of
   another body of the same queue occurs. *)
Theorem C08_items_inside_body : forall defs mode top prot preds guard fuel inits sched l1 it l2,
  mode <> QNone ->
  h_log (s_sh (run_schedule defs mode top prot preds guard fuel (init_state mode inits) sched)) = l1 ++ it :: l2 ->
  (forall n e, it <> GBegin n e) ->
  exists la e lc, l1 = la ++ GBegin (item_no it) e :: lc /\
                  (forall e' r, In (GEnd (item_no it) e' r) lc -> ekey defs mode e' <> ekey defs mode e).
Proof. exact items_inside_body. Qed.

(* a trigger that arrives (after any schedule) while a body of its queue is in progress runs nothing: it returns
   True at once, the log, the model states and async_tasks are unchanged — or, if its model was removed
   (queued='model'), raises KeyError. *)
Theorem C08_busy_defers : forall defs mode, mode <> QNone -> forall top prot preds guard fuel inits sched e op lb,
  let s := run_schedule defs mode top prot preds guard fuel (init_state mode inits) sched in
  gscan defs mode gstate0 (h_log (s_sh s)) = Some (op, lb) -> In (ekey defs mode e) (map fst op) ->
  (exists h', call_trigger defs mode e (s_sh s) = CalledRet (RBool true) h' /\
              h_log h' = h_log (s_sh s) /\ h_mstate h' = h_mstate (s_sh s) /\ h_reg h' = h_reg (s_sh s)) \/
  call_trigger defs mode e (s_sh s) = CalledExn X_KEY (s_sh s).
Proof. exact all_schedules_busy. Qed.

Print Assumptions C08_cancel_exact.
Print Assumptions C08_cancel_step.
Print Assumptions C08_frame_discipline.
Print Assumptions C08_cancelled_behaviour.
Print Assumptions C08_finalize_only.
Print Assumptions C08_cancelled_result.
Print Assumptions C08_no_overwrite.
Print Assumptions C08_context_finally.
Print Assumptions C08_context_reset.
Print Assumptions C08_quiescent.
Print Assumptions C08_queued_deferred.
Print Assumptions C08_queued_idle.
Print Assumptions C08_queued_serial.
Print Assumptions C08_queued_last.
Print Assumptions C08_model_serial.
Print Assumptions C08_global_scan.
Print Assumptions C08_global_serial_fifo.
Print Assumptions C08_model_serial_fifo.
Print Assumptions C08_items_inside_body.
Print Assumptions C08_busy_defers.

(* non-vacuity: two triggers on one model, unqueued; both have a before callback and a finalize callback.
   Schedule: start 0, start 1, release 1 (its conditions have passed at start: task 0 was cancelled then),
   release the finalize callbacks.  Event 0 is cancelled while suspended in `before`: it returns False, its
   finalize ran, the state is the one event 1 set, async_tasks is empty at quiescence. *)
Definition ex_defs : list evdef :=
  [mkEv 0 [0;1;2] [IPass; ICb 0 2 ANone; ISet 1] [ICb 0 FIN ANone];
   mkEv 0 [0;1;2] [IPass; ICb 0 2 ANone; ISet 2] [ICb 0 FIN ANone]].
Example C08_example :
  let s := run_schedule ex_defs QNone [0;1] [] [] (fun _ _ => true) 100 (init_state QNone [0]) [0;1;1;0;1;0] in
  forallb (wf_def 3) ex_defs = true /\ quiescent s = true /\ h_reg (s_sh s) = [] /\ h_mstate (s_sh s) = [2] /\
  map t_res (s_tasks s) = [Some (RBool false); Some (RBool true)] /\
  existsb is_cancel_mark (h_log (s_sh s)) = true.
Proof. vm_compute. repeat split; reflexivity. Qed.

(* non-vacuity of the global statements: the same two events with queued=True — the second trigger returns True at
   once, its body begins after the first body has ended; with queued='model' on two different models the two
   bodies DO interleave (the second begins while the first is open). *)
Definition begins_ends (l : list item) : list (bool * nat) :=
  flat_map (fun it => match it with GBegin n _ => [(true, n)] | GEnd n _ _ => [(false, n)] | _ => [] end) l.
Example C08_example_queued :
  let s := run_schedule ex_defs QShared [0;1] [] [] (fun _ _ => true) 100 (init_state QShared [0]) [0;1;0;1;0;1;1;1] in
  quiescent s = true /\ begins_ends (h_log (s_sh s)) = [(true,0); (false,0); (true,1); (false,1)] /\
  map t_res (s_tasks s) = [Some (RBool true); Some (RBool true)] /\ h_mstate (s_sh s) = [2].
Proof. vm_compute. repeat split; reflexivity. Qed.
Definition ex_defs2 : list evdef :=
  [mkEv 0 [0;1;2] [IPass; ICb 0 2 ANone; ISet 1] [ICb 0 FIN ANone];
   mkEv 1 [0;1;2] [IPass; ICb 0 2 ANone; ISet 2] [ICb 0 FIN ANone]].
Example C08_example_model :
  let s := run_schedule ex_defs2 QPerModel [0;1] [] [] (fun _ _ => true) 100 (init_state QPerModel [0;0]) [0;1;0;1;0;1] in
  quiescent s = true /\ begins_ends (h_log (s_sh s)) = [(true,0); (true,1); (false,0); (false,1)] /\
  h_mstate (s_sh s) = [1;2].
Proof. vm_compute. repeat split; reflexivity. Qed.

(* non-vacuity of the marker statements: event 0 raises (its only callback raises) and is awaited in the SAME
   asyncio task that afterwards awaits the slow event 1 (preds = [(1,0)]); event 2 then passes its conditions on the
   same model: event 1 IS registered in async_tasks while it runs and IS cancelled (returns False). *)
Definition ex_defs3 : list evdef :=
  [mkEv 0 [0;1;2] [ICb 0 0 ARaise] [];
   mkEv 0 [0;1;2] [IPass; ICb 0 2 ANone; ISet 1] [];
   mkEv 0 [0;1;2] [IPass; ISet 2] []].
Example C08_example_same_task :
  let run := run_schedule ex_defs3 QNone [0;1;2] [] [(1,0)] (fun _ _ => true) 100 (init_state QNone [0]) in
  can_start [0;1;2] [(1,0)] (fun _ _ => true) (run [0]) 1 = false /\               (* not before event 0 has returned *)
  h_reg (s_sh (run [0;0;1])) = [(0, 1)] /\                       (* registered although event 0 raised before *)
  map t_res (s_tasks (run [0;0;1;2])) = [Some (RExn X_USER); Some (RBool false); Some (RBool true)] /\
  h_mstate (s_sh (run [0;0;1;2])) = [2] /\ h_reg (s_sh (run [0;0;1;2])) = [].
Proof. vm_compute. repeat split; reflexivity. Qed.

(* non-vacuity for a timeout-originated root call chain (guard = AsyncConcIO.timer_guard: armed iff the last
   set_state of model 0 entered state 1): event 0 enters the timeout state 1; event 2 (awaited by on_timeout) cannot
   start before that; once started it is registered in async_tasks with its own marker, and event 1, passing on the
   same model, cancels it: it returns False and does not overwrite state 2. *)
Definition ex_defs4 : list evdef :=
  [mkEv 0 [0] [IPass; ISet 1] [];
   mkEv 0 [1] [IPass; ISet 2] [];
   mkEv 0 [1] [IPass; ICb 0 2 ANone; ISet 0] []].
Example C08_example_timeout :
  let g := timer_guard (Some (0, (1, 2))) in
  let run := run_schedule ex_defs4 QNone [0;1;2] [] [] g 100 (init_state QNone [0]) in
  can_start [0;1;2] [] g (run []) 2 = false /\ can_start [0;1;2] [] g (run [0]) 2 = true /\
  h_reg (s_sh (run [0;2])) = [(0, 2)] /\ map t_ctx (s_tasks (run [0;2])) = [None; Some 2] /\
  map t_res (s_tasks (run [0;2;1])) = [Some (RBool true); Some (RBool false); Some (RBool true)] /\
  h_mstate (s_sh (run [0;2;1])) = [2] /\ h_reg (s_sh (run [0;2;1])) = [].
Proof. vm_compute. repeat split; reflexivity. Qed.
