(* C07 — Async machines match the synchronous semantics when awaited one at a time.
   Statements only; each is closed by [exact] of a lemma proved in Proofs/AsyncP.v.

   Async.v is the flat engine of transitions/extensions/asyncio.py (a hand copy of core.py, so it
   is a separate model, not Flat.v re-used).  Its trace is a list of STAGES (one per await_all /
   asyncio.gather call), each a sequence of Start/End events of callbacks.  [rp cb] is what
   callback cb returns / raises / does in this event, [susp cb] how often it yields to the event
   loop before it finishes (0 = plain function or coroutine that never yields); both are
   universally quantified: every assignment of plain / coroutine / suspending behaviour to every
   callback and condition slot.  Flat.v run with the position-free environment [ev_of rp] is
   the synchronous Machine on the same configuration and the same user behaviour.

   [stage_view] = the callbacks in the order in which they were STARTED (Ends forgotten), and of
   the checks of one candidate only those up to and including the first that fails — the one
   licensed difference (an async machine evaluates all checks of a candidate). *)
From Coq Require Import List Arith Bool.
From M Require Import Base Hsm AsyncHsm Flat FlatSpec Queue Async.
From P Require Import FlatP QueueP AsyncP AsyncQueueP AsyncHsmP.
Import ListNotations.

(* For every machine (registered or not, well-formed or not), every user behaviour that does not
   raise, every suspension assignment, context, transition list of an event, start position and
   current state: the asynchronous engine produces, up to stage_view, exactly the items of the
   synchronous engine (same slots, callbacks, model, STATE SEEN, arguments, values, in the same
   order), the same final state and the same result (True / False / MachineError for an invalid
   trigger, ValueError for an unregistered state). *)
Theorem C07_flat :
  forall (mc : machine) (rp : cbid -> reply) (susp : cbid -> nat) (c : ctx) (ts : list trans)
         (p : nat) (s : state),
    no_raise_rp rp ->
    aview (atrigger_event mc rp susp c ts s) = trigger_event mc (ev_of rp) c ts p s.
Proof. exact flat_sim. Qed.
Print Assumptions C07_flat.

(* model.trigger(name) for an event the machine knows *)
Theorem C07_flat_named :
  forall (mc : machine) (rp : cbid -> reply) (susp : cbid -> nat) (c : ctx) (e : event)
         (ts : list trans) (p : nat) (s : state),
    no_raise_rp rp -> lookup (m_events mc) e = Some ts ->
    let a := atrigger mc rp susp c e s in
    let f := trigger mc (ev_of rp) c e p s in
    stage_view (fst (fst a)) = fst (fst f) /\ snd (fst a) = snd (fst f) /\ snd a = aresult_of (snd f).
Proof. exact flat_sim_named. Qed.
Print Assumptions C07_flat_named.

(* hence (with C01_order) the asynchronous machine follows the documented execution order *)
Theorem C07_flat_documented_order :
  forall (mc : machine) (rp : cbid -> reply) (susp : cbid -> nat) (c : ctx) (ts : list trans)
         (p : nat) (cur : state),
    no_raise_rp rp ->
    registered mc cur = true -> wf_trans mc ts = true -> candidates ts cur <> [] ->
    aview (atrigger_event mc rp susp c ts cur) =
      (let r := spec_step mc (ev_of rp) c ts cur p in (fst (fst r), snd (fst r), inr (snd r))).
Proof. exact flat_documented_order. Qed.
Print Assumptions C07_flat_documented_order.

(* Exception types: the equality extends to behaviours that RAISE (Exception or BaseException
   subclasses, at any stage, with or without on_exception handlers), provided that a raising callback
   has no callback registered after it in its own list and is not a condition/unless check:
   [raise_ok] / [trans_ok] are the boolean statements of that (only the last callback of each
   machine-, state- and transition-level list may raise; checks do not raise).  Outside this envelope
   the two machines really differ: C07_raise_stage_refuted below, and checks that only the
   asynchronous machine evaluates may raise. *)
Theorem C07_flat_raising :
  forall (mc : machine) (rp : cbid -> reply) (susp : cbid -> nat) (c : ctx) (ts : list trans)
         (p : nat) (s : state),
    raise_ok mc rp = true -> forallb (trans_ok rp) ts = true ->
    aview (atrigger_event mc rp susp c ts s) = trigger_event mc (ev_of rp) c ts p s.
Proof. exact flat_sim_raising. Qed.
Print Assumptions C07_flat_raising.

(* non-vacuity of C07_flat_raising: the last `before` callback raises a BaseException, on_exception
   and finalize run with the error, the state is kept, the call returns False *)
Example C07_raising_example :
  raise_ok mc_raise_last rp_raise_last = true /\
  forallb (trans_ok rp_raise_last) [mkTrans 0 (Some 1) [1] [(2, true)] [3; 4] [7]] = true /\
  let a := atrigger_event mc_raise_last rp_raise_last (fun cb => cb) (mkCtx 0 1 true)
                          [mkTrans 0 (Some 1) [1] [(2, true)] [3; 4] [7]] 0 in
  map it_cb (stage_view (fst (fst a))) = [1; 2; 3; 4; 9; 8] /\
  map it_err (stage_view (fst (fst a))) = [None; None; None; None; Some (BaseExn 2); Some (BaseExn 2)] /\
  snd (fst a) = 0 /\ snd a = inr false.
Proof. exact raising_example. Qed.
Print Assumptions C07_raising_example.

(* may_<event>() / may_trigger(name): AsyncMachine._can_trigger against Machine._can_trigger *)
Theorem C07_may :
  forall (mc : machine) (rp : cbid -> reply) (susp : cbid -> nat) (c : ctx) (e : event)
         (p : nat) (s : state),
    no_raise_rp rp ->
    aview (acan_trigger mc rp susp c e s) = can_trigger mc (ev_of rp) c e p s.
Proof. exact may_sim. Qed.
Print Assumptions C07_may.

(* Every End of an earlier stage comes before every Start (indeed every event) of a later stage:
   along the flat event sequence — which is what the harness compares with /repo, see
   C07_flat_sequence — the stage index never decreases.  Holds for every trace, also when
   callbacks raise. *)
Theorem C07_awaited :
  forall (tr : list stage) l1 g1 e1 l2 g2 e2 l3,
    tagged tr = l1 ++ (g1, e1) :: l2 ++ (g2, e2) :: l3 -> g1 <= g2.
Proof. intros tr. exact (tagged_monotone tr 0). Qed.
Print Assumptions C07_awaited.

Theorem C07_flat_sequence :
  forall (tr : list stage), map snd (tagged tr) = flat_map sg_evs tr.
Proof. intros tr. exact (tagged_flat tr 0). Qed.
Print Assumptions C07_flat_sequence.

(* Every coroutine callback and condition is awaited to completion before the next stage starts:
   in every stage of every event (any behaviour, raising or not, any suspension counts) each
   started callback that does not raise has its End in the SAME stage, and every End is preceded
   in its stage by the Start of that callback. *)
Theorem C07_completed :
  forall (mc : machine) (rp : cbid -> reply) (susp : cbid -> nat) (c : ctx) (e : event)
         (ts : list trans) (s : state) (sg : stage),
    In (e, ts) (m_events mc) -> In sg (fst (fst (atrigger_event mc rp susp c ts s))) ->
    (forall it, In (SStart it) (sg_evs sg) -> r_raise (rp (it_cb it)) = None ->
                In (SEnd (it_slot it) (it_cb it)) (sg_evs sg)) /\
    (forall l1 sl cb l2, sg_evs sg = l1 ++ SEnd sl cb :: l2 ->
                         exists it, In (SStart it) l1 /\ it_slot it = sl /\ it_cb it = cb).
Proof. exact completed. Qed.
Print Assumptions C07_completed.

(* Callbacks of one stage are started in registration order: the Starts of every stage are, in
   order, exactly one registration list of the machine (a machine-level list, the enter/exit list
   of a registered state, the prepare/before/after list of a transition of a known event, or all
   conditions-then-unless checks of such a transition) — for any behaviour and suspension counts. *)
Theorem C07_start_order :
  forall (mc : machine) (rp : cbid -> reply) (susp : cbid -> nat) (c : ctx) (e : event)
         (ts : list trans) (s : state) (sg : stage),
    In (e, ts) (m_events mc) -> In sg (fst (fst (atrigger_event mc rp susp c ts s))) ->
    exists cbs, reg_list mc (sg_kind sg) cbs /\
      map (fun it => (it_slot it, it_cb it)) (starts (sg_evs sg)) = cbs.
Proof. exact start_order. Qed.
Print Assumptions C07_start_order.

(* A condition is honoured whether it returns its value directly or through an awaitable, with or
   without intermediate suspensions: the stages, the callbacks started in each of them (with
   everything they see), the final state and the result do not depend on the suspension counts at
   all — only the order of the Ends inside a stage does.  No hypothesis on rp: also when
   callbacks raise. *)
Theorem C07_cond_awaitable :
  forall (mc : machine) (rp : cbid -> reply) (su1 su2 : cbid -> nat) (c : ctx) (ts : list trans)
         (s : state),
    sview (atrigger_event mc rp su1 c ts s) = sview (atrigger_event mc rp su2 c ts s).
Proof. exact susp_irrelevant. Qed.
Print Assumptions C07_cond_awaitable.

(* ... and the verdict of a candidate's checks is all(value == target), whatever the suspensions *)
Theorem C07_cond_value :
  forall (rp : cbid -> reply) (su : cbid -> nat) (c : ctx) (conds : list (cbid * bool)) (s : state),
    snd (aeval_conds rp su c conds s) =
      match first_exn rp (map check_slot conds) with
      | Some e => inl e
      | None => inr (forallb (check_passes rp) conds)
      end.
Proof. exact conds_value. Qed.
Print Assumptions C07_cond_value.

(* Non-vacuity: two candidates, the first blocked by its second check of three (the third is
   evaluated by the asynchronous engine only), suspending before/enter callbacks whose Ends
   overtake each other, a final destination. *)
Example C07_example :
  no_raise_rp rp_example /\
  let a := atrigger_event mc_example rp_example susp_example (mkCtx 0 5 true)
                          [mkTrans 0 (Some 1) [1] [(2, true); (3, true); (4, false)] [] [];
                           mkTrans 0 (Some 1) [] [(5, true)] [6; 7] [8]] 0 in
  map it_cb (flat_map (fun sg => starts (sg_evs sg)) (fst (fst a))) = [20; 1; 2; 3; 4; 5; 6; 7; 10; 11; 12; 22; 8; 21] /\
  map it_cb (stage_view (fst (fst a))) = [20; 1; 2; 3; 5; 6; 7; 10; 11; 12; 22; 8; 21] /\
  map snd (flat_map (fun sg => ends (sg_evs sg)) (fst (fst a))) = [20; 1; 2; 3; 4; 5; 7; 6; 10; 12; 11; 22; 8; 21] /\
  snd (fst a) = 1 /\ snd a = inr true.
Proof. exact example_nontrivial. Qed.
Print Assumptions C07_example.

(* Unknown event names (was KF-C07-1, fixed in /repo as D30: AsyncMachine._get_trigger is now a
   coroutine function handing through the result of Machine._get_trigger): for every machine,
   behaviour (raising or not), suspension assignment and state, `await model.trigger(name)` with a
   name the machine does not know runs no callback, keeps the state and gives exactly what the
   synchronous machine gives — False on a state that ignores invalid triggers, AttributeError
   otherwise, ValueError for an unregistered state. *)
Theorem C07_unknown_event :
  forall (mc : machine) (rp : cbid -> reply) (susp : cbid -> nat) (c : ctx) (e : event)
         (p : nat) (s : state),
    lookup (m_events mc) e = None ->
    let a := atrigger mc rp susp c e s in
    let f := trigger mc (ev_of rp) c e p s in
    fst (fst a) = [] /\ fst (fst f) = [] /\ snd (fst a) = snd (fst f) /\ snd a = aresult_of (snd f).
Proof. exact unknown_event_same. Qed.
Print Assumptions C07_unknown_event.

(* hence model.trigger(name) agrees with the synchronous machine for EVERY name *)
Theorem C07_flat_any_name :
  forall (mc : machine) (rp : cbid -> reply) (susp : cbid -> nat) (c : ctx) (e : event)
         (p : nat) (s : state),
    no_raise_rp rp ->
    let a := atrigger mc rp susp c e s in
    let f := trigger mc (ev_of rp) c e p s in
    stage_view (fst (fst a)) = fst (fst f) /\ snd (fst a) = snd (fst f) /\ snd a = aresult_of (snd f).
Proof. exact flat_sim_any_name. Qed.
Print Assumptions C07_flat_any_name.

Example C07_unknown_event_example :
  let rp := fun _ : cbid => mkReply true None [] in
  let c := mkCtx 0 0 false in
  snd (trigger mc_unknown (ev_of rp) c 7 0 0) = inr false /\
  snd (atrigger mc_unknown rp (fun _ => 0) c 7 0) = AwRet false /\
  snd (trigger mc_unknown (ev_of rp) c 7 0 1) = inl AttributeError /\
  snd (atrigger mc_unknown rp (fun _ => 0) c 7 1) = AwExn AttributeError.
Proof. exact unknown_event_example. Qed.
Print Assumptions C07_unknown_event_example.

(* The statement "same callbacks" is FALSE of the faithful model in one class of cases; the witness
   replays on /repo (known finding). *)

(* KF-C07-2: a callback raises and another callback is registered after it in the same list: the
   synchronous machine never calls the later one; the asynchronous machine has scheduled the whole
   stage before the first callback ran, so the later one runs too (same exception propagates). *)
Theorem C07_raise_stage_refuted :
  let rp := fun cb : cbid => mkReply true (if Nat.eqb cb 1 then Some (UserExn 1) else None) [] in
  let c := mkCtx 0 0 false in
  map it_cb (fst (fst (trigger mc_raise (ev_of rp) c 0 0 0))) = [1] /\
  map it_cb (stage_view (fst (fst (atrigger mc_raise rp (fun _ => 0) c 0 0)))) = [1; 2] /\
  snd (trigger mc_raise (ev_of rp) c 0 0 0) = inl (UserExn 1) /\
  snd (atrigger mc_raise rp (fun _ => 0) c 0 0) = AwExn (UserExn 1).
Proof. exact raise_stage_differs. Qed.
Print Assumptions C07_raise_stage_refuted.

(* ------------------------------------------------------------------------------------------------
   The queue modes.  AsyncMachine._process_async (Async.adrain: the while loop over the deque [key] of
   _transition_queue_dict; Async.atop_trigger: a trigger arriving from outside) REFINES the abstract queue
   of C05 — Queue.drain / Queue.top_trigger, which are generic in the "process one event" step — instantiated
   with the asynchronous event step [qstep] (one awaited AsyncEvent._trigger: the stages of the event and what
   awaiting it gave).  queued=True: key 0, the one shared deque; queued='model': key S m, the deque of model
   m.  [targets_ok]: the triggers awaited from callbacks go to the deque being drained — always so for
   queued=True (C07_queue_shared), where callbacks may also call remove_model, and for queued='model' exactly when callbacks trigger their own model
   (a trigger on another model whose deque is idle is processed inside the callback: outside the model).
   [R key w s]: the abstract queue is the deque [key], same arrival counter. *)
Theorem C07_queue_refines :
  forall (mc : machine) (ev : env) (suspf : cbid -> nat -> nat) (md : qmode) (key : nat),
    targets_ok mc ev suspf md key ->
    forall (fuel : nat) (w : aworld) (s : qstate),
      R key w s ->
      match adrain mc ev suspf md fuel key w with
      | Some (bs, x, w') =>
          exists s' : qstate,
            drain (qstep mc ev suspf) qpayload fuel (aw_states w) s = Some (map to_block bs, x, aw_states w', s') /\
            R key w' s' /\
            (forall k', k' <> key -> qget (aw_queues w') k' = qget (aw_queues w) k')
      | None => drain (qstep mc ev suspf) qpayload fuel (aw_states w) s = None
      end.
Proof. exact adrain_refines. Qed.
Print Assumptions C07_queue_refines.

Theorem C07_queue_top_refines :
  forall (mc : machine) (ev : env) (suspf : cbid -> nat -> nat) (md : qmode) (key : nat),
    targets_ok mc ev suspf md key ->
    forall (fuel : nat) (w : aworld) (m : model) (e a : nat) (ts : list trans),
      lookup (m_events mc) e = Some ts -> md <> QOff -> qkey md m = key ->
      qget (aw_queues w) key = [] ->
      match atop_trigger mc ev suspf md fuel w m e a with
      | Some (bs, r, w') =>
          exists (x : option exn) (s' : qstate),
            top_trigger (qstep mc ev suspf) qpayload fuel (aw_states w) (abs_state key w) m e a
              = Some (map to_block bs, x, aw_states w', s') /\
            R key w' s' /\ r = match x with Some ex => AwExn ex | None => AwRet true end
      | None => top_trigger (qstep mc ev suspf) qpayload fuel (aw_states w) (abs_state key w) m e a = None
      end.
Proof. exact atop_refines. Qed.
Print Assumptions C07_queue_top_refines.

(* queued=True: the hypothesis of the refinement holds for every machine and behaviour *)
Theorem C07_queue_shared :
  forall (mc : machine) (ev : env) (suspf : cbid -> nat -> nat), targets_ok mc ev suspf QAll 0.
Proof. exact targets_ok_all. Qed.
Print Assumptions C07_queue_shared.

(* Hence the theorems of C05 (proved for every step) hold of the asynchronous queue.
   Run-to-completion + FIFO + at most once: the arrival numbers of the processed events (one block per
   event, each the complete awaited _trigger) strictly increase, also relative to what stays pending. *)
Theorem C07_queue_fifo_once :
  forall (mc : machine) (ev : env) (suspf : cbid -> nat -> nat) (md : qmode) (key : nat),
    targets_ok mc ev suspf md key ->
    forall (fuel : nat) (w : aworld) (lo : nat) (bs : list ablock) (x : option exn) (w' : aworld),
      within lo (aw_next w) (aids (qget (aw_queues w) key)) ->
      adrain mc ev suspf md fuel key w = Some (bs, x, w') ->
      within lo (aw_next w') (abids bs ++ aids (qget (aw_queues w') key)) /\ aw_next w <= aw_next w'.
Proof. exact adrain_fifo_once. Qed.
Print Assumptions C07_queue_fifo_once.

(* If an event raises, it is the last one processed, no earlier one raised, and the deque is empty afterwards
   (every pending trigger is discarded); without an exception every block ended normally. *)
Theorem C07_queue_raise_discards :
  forall (mc : machine) (ev : env) (suspf : cbid -> nat -> nat) (md : qmode) (key : nat),
    targets_ok mc ev suspf md key ->
    forall (fuel : nat) (w : aworld) (bs : list ablock) (x : option exn) (w' : aworld),
      adrain mc ev suspf md fuel key w = Some (bs, x, w') ->
      qget (aw_queues w') key = [] /\
      match x with
      | Some e => exists bs0 b, bs = bs0 ++ [b] /\ ab_result b = AwExn e /\
                                Forall (fun b0 => exn_of (ab_result b0) = None) bs0
      | None => Forall (fun b => exn_of (ab_result b) = None) bs
      end.
Proof. exact adrain_raise_discards. Qed.
Print Assumptions C07_queue_raise_discards.

(* `await model.trigger(e)` at an idle deque: the first processed event is the call itself, then the triggers
   awaited from callbacks in arrival order, none twice; the deque ends empty. *)
Theorem C07_queue_top :
  forall (mc : machine) (ev : env) (suspf : cbid -> nat -> nat) (md : qmode) (key : nat),
    targets_ok mc ev suspf md key ->
    forall (fuel : nat) (w : aworld) (m : model) (e a : nat) (ts : list trans) (bs : list ablock)
           (r : aresult) (w' : aworld),
      lookup (m_events mc) e = Some ts -> md <> QOff -> qkey md m = key ->
      qget (aw_queues w) key = [] ->
      atop_trigger mc ev suspf md fuel w m e a = Some (bs, r, w') ->
      within (aw_next w) (aw_next w') (abids bs) /\ NoDup (abids bs) /\ qget (aw_queues w') key = [] /\
      (exists b rest, bs = b :: rest /\ ab_entry b = mkAE (aw_next w) m e a).
Proof. exact atop_fifo. Qed.
Print Assumptions C07_queue_top.

(* ... at a busy deque (i.e. awaited from a callback): only appended, True at once, nothing is processed *)
Theorem C07_queue_deferred :
  forall (mc : machine) (ev : env) (suspf : cbid -> nat -> nat) (md : qmode) (fuel : nat) (w : aworld)
         (m : model) (e a : nat) (ts : list trans) (h : aentry) (tl : list aentry),
    lookup (m_events mc) e = Some ts -> md <> QOff ->
    qget (aw_queues w) (qkey md m) = h :: tl ->
    atop_trigger mc ev suspf md fuel w m e a =
      Some ([], AwRet true,
            mkAW (aw_states w) (qset (aw_queues w) (qkey md m) (h :: tl ++ [mkAE (aw_next w) m e a])) (S (aw_next w)) (aw_models w)).
Proof. exact atop_busy. Qed.
Print Assumptions C07_queue_deferred.

(* AsyncMachine.remove_model called from a callback (queued=True; a call with a LIST of models has the effect of
   the single calls in sequence, each covered by C07_queue_refines via Queue.apply_action): the event in progress
   stays at the head, exactly the pending events of the removed model disappear, everything else is untouched *)
Theorem C07_queue_remove_exact :
  forall (m : model) (w : aworld) (h : aentry) (tl : list aentry),
    qget (aw_queues w) 0 = h :: tl -> existsb (Nat.eqb m) (aw_models w) = true ->
    let w' := aremove_model QAll m w in
    qget (aw_queues w') 0 = h :: filter (fun x => negb (Nat.eqb (ae_model x) m)) tl /\
    (forall x, In x (qget (aw_queues w') 0) <-> x = h \/ (In x tl /\ ae_model x <> m)) /\
    aw_next w' = aw_next w /\ aw_states w' = aw_states w /\
    aw_models w' = filter (fun x => negb (Nat.eqb x m)) (aw_models w).
Proof. exact aremove_exact. Qed.
Print Assumptions C07_queue_remove_exact.

(* non-vacuity (queued='model'): a callback of the first event awaits two triggers on its own model *)
Example C07_queue_example :
  match atop_trigger mc_q ev_q (fun _ _ => 1) QPerModel 10 (mkAW [(0, 0)] [] 0 [0]) 0 0 100 with
  | Some (bs, r, w') => abids bs = [0; 1; 2] /\ map (fun b => ae_payload (ab_entry b)) bs = [100; 1000; 1001] /\
                        r = AwRet true /\ aw_states w' = [(0, 1)] /\ aw_next w' = 3
  | None => False
  end.
Proof. exact queue_example. Qed.
Print Assumptions C07_queue_example.

(* ------------------------------------------------------------------------------------------------
   HierarchicalAsyncMachine.  AsyncHsm.v is the hierarchical asynchronous engine (the hand copies in
   asyncio.py of trigger_nested / _process / _trigger_event_nested / _trigger_event / _can_trigger* and
   NestedAsyncTransition._change_state: exit partials awaited one by one, model update, enter partials one by
   one, the on_final groups one after another, the callbacks of ONE list gathered), written over the async
   monad and re-using only the pure definitions of Hsm.v that the Python copies share with nesting.py.
   [gstage_view] is stage_view for configurations as the state seen; [gaview] applies it to the trace.

   For EVERY hierarchical machine (any depth, parallel states, transitions declared in any scope, registered
   or not), every active configuration, event, context, every behaviour that does not raise and every
   suspension assignment: the asynchronous engine yields exactly the items of the synchronous engine Hsm.v
   (same callbacks, same CONFIGURATION SEEN, same order: children's exits before the parent's, enters top
   down, on_final groups in order) up to stage_view, the same final configuration and the same result /
   machine-raised exception (MachineError / AttributeError for invalid triggers, ValueError). *)
Theorem C07_nested :
  forall (hm : hmachine) (rp : cbid -> reply) (susp : cbid -> nat) (c : ctx) (e : event) (p : nat) (f : forest),
    no_raise_rp rp ->
    gaview (hatrigger_event hm rp susp c e f) = Hsm.trigger_event hm (ev_of rp) c e p f.
Proof. exact nested_sim. Qed.
Print Assumptions C07_nested.

(* may_<event> on hierarchical machines: HierarchicalAsyncMachine._can_trigger against HierarchicalMachine's *)
Theorem C07_nested_may :
  forall (hm : hmachine) (rp : cbid -> reply) (susp : cbid -> nat) (c : ctx) (e : event) (p : nat) (f : forest),
    no_raise_rp rp ->
    gaview (hacan_trigger hm rp susp c e f) = Hsm.can_trigger hm (ev_of rp) c e p f.
Proof. exact nested_may_sim. Qed.
Print Assumptions C07_nested_may.

(* one gathered stage of the hierarchical engine: the callbacks are started in list order with the
   configuration at the time of the gather, whatever the suspension counts (also when some raise) *)
Theorem C07_nested_stage_starts :
  forall (rp : cbid -> reply) (susp : cbid -> nat) (c : ctx) (err : option exn) (f : forest)
         (cbs : list (slot * cbid)),
    gstarts (ggather_evs rp susp c err f cbs) = map (fun x => gmk_item rp c (fst x) err f (snd x)) cbs.
Proof. exact (@gstarts_gather forest). Qed.
Print Assumptions C07_nested_stage_starts.

(* the stages of a hierarchical event, the callbacks started in each of them (with the configuration they see),
   the final configuration and the result do not depend on the suspension counts — for ANY behaviour, raising
   or not: a condition is honoured whether it returns its value directly or through an awaitable *)
Theorem C07_nested_cond_awaitable :
  forall (hm : hmachine) (rp : cbid -> reply) (su1 su2 : cbid -> nat) (c : ctx) (e : event) (f : forest),
    gsview (hatrigger_event hm rp su1 c e f) = gsview (hatrigger_event hm rp su2 c e f).
Proof. exact nested_susp_irrelevant. Qed.
Print Assumptions C07_nested_cond_awaitable.

Example C07_nested_example :
  no_raise_rp rp_ex /\
  let a := hatrigger_event hm_ex rp_ex su_ex (mkCtx 0 5 true) 0 f_ex in
  map it_cb (flat_map (fun sg => gstarts (gs_evs sg)) (fst (fst a))) = [50; 5; 6; 7; 8; 50; 9; 10; 21; 22; 31; 12; 41; 42; 52; 13; 51] /\
  map it_cb (gstage_view (fst (fst a))) = [50; 5; 6; 7; 50; 9; 10; 21; 22; 31; 12; 41; 42; 52; 13; 51] /\
  map snd (flat_map (fun sg => gends (gs_evs sg)) (fst (fst a))) = [50; 5; 6; 7; 8; 50; 9; 10; 22; 21; 31; 12; 41; 42; 52; 13; 51] /\
  snd (fst a) = [Node 4 []] /\ snd a = inr true.
Proof. exact nested_example. Qed.
Print Assumptions C07_nested_example.
