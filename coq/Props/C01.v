(* C01 — Flat machine: every event step follows the documented execution order.
   Statements only; each is closed by [exact] of a lemma proved in Proofs/. *)
From Coq Require Import List Arith Bool.
From M Require Import Base Flat FlatSpec.
From P Require Import FlatP FlatOrder.
Import ListNotations.

(* For every machine, every environment that does not raise from position p on (all condition
   valuations, all callback return values), every context (model, payload, send_event),
   every start position and current state that is a source of the event: the engine's
   trace, final state and result are those of the documented order [spec_step]. *)
Theorem C01_order :
  forall (mc : machine) (ev : env) (c : ctx) (ts : list trans) (p : nat) (cur : state),
    no_raise_from ev p ->
    registered mc cur = true -> wf_trans mc ts = true -> candidates ts cur <> [] ->
    trigger_event mc ev c ts p cur =
      (let r := spec_step mc ev c ts cur p in (fst (fst r), snd (fst r), inr (snd r))).
Proof. exact trigger_event_valid. Qed.
Print Assumptions C01_order.

(* The current state is not a source: no prepare-stage / condition item at all; the
   outcome is MachineError (routed to on_exception handlers when present) unless the
   state — else the machine — ignores invalid triggers; finalize still runs. *)
Theorem C01_invalid :
  forall (mc : machine) (ev : env) (c : ctx) (ts : list trans) (p : nat) (cur : state),
    no_raise_from ev p ->
    registered mc cur = true -> candidates ts cur = [] ->
    trigger_event mc ev c ts p cur =
      (let r := spec_invalid mc ev c cur p in (fst (fst r), snd (fst r), of_outcome (snd r))).
Proof. exact trigger_event_invalid. Qed.
Print Assumptions C01_invalid.

(* The trigger's positional and keyword arguments (or the one event object wrapping them
   when send_event is set) reach every callback of the step unchanged, and every callback
   runs on behalf of the triggered model. *)
Theorem C01_payload :
  forall (mc : machine) (ev : env) (c : ctx) (ts : list trans) (cur : state) (p : nat),
    Forall (carries c) (fst (fst (spec_step mc ev c ts cur p))).
Proof. exact spec_step_payload. Qed.
Print Assumptions C01_payload.

(* An event name the machine does not know: no callback runs; AttributeError, or False when
   the state - else the machine - ignores invalid triggers. *)
Theorem C01_unknown_event :
  forall (mc : machine) (ev : env) (c : ctx) (e : event) (p : nat) (cur : state) (sd : sdef),
    lookup (m_events mc) e = None -> get_state mc cur = Some sd ->
    trigger mc ev c e p cur = ([], cur, if ignores mc sd then inr false else inl AttributeError).
Proof.
  intros mc ev c e p cur sd L G. unfold trigger. rewrite L. unfold bind, get. cbn [length app].
  rewrite G. destruct (ignores mc sd); reflexivity.
Qed.
Print Assumptions C01_unknown_event.
