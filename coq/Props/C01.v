(* C01 — Flat machine: every event step follows the documented execution order.
   Statements only; each is closed by [exact] of a lemma proved in Proofs/. *)
From Coq Require Import List Arith Bool.
From M Require Import Base Flat FlatSpec.
From P Require Import FlatP FlatOrder.
Import ListNotations.

(* For every machine, every environment that does not raise from position p on (all condition
   valuations, all callback return values), every context (model, payload, send_event),
   every start position and current state that is a source of the event: the engine's
   trace, final state and result are those of the documented order [spec_step]. *)
Theorem C01_order :
  forall (mc : machine) (ev : env) (c : ctx) (ts : list trans) (p : nat) (cur : state),
    no_raise_from ev p ->
    registered mc cur = true -> wf_trans mc ts = true -> candidates ts cur <> [] ->
    trigger_event mc ev c ts p cur =
      (let r := spec_step mc ev c ts cur p in (fst (fst r), snd (fst r), inr (snd r))).
Proof. exact trigger_event_valid. Qed.
Print Assumptions C01_order.

(* The current state is not a source: no prepare-stage / condition item at all; the
   outcome is MachineError (routed to on_exception handlers when present) unless the
   state — else the machine — ignores invalid triggers; finalize still runs. *)
Theorem C01_invalid :
  forall (mc : machine) (ev : env) (c : ctx) (ts : list trans) (p : nat) (cur : state),
    no_raise_from ev p ->
    registered mc cur = true -> candidates ts cur = [] ->
    trigger_event mc ev c ts p cur =
      (let r := spec_invalid mc ev c cur p in (fst (fst r), snd (fst r), of_outcome (snd r))).
Proof. exact trigger_event_invalid. Qed.
Print Assumptions C01_invalid.
