(* C15 — Pickling preserves a machine and yields an independent copy.   (PARTIAL: pickle assumed)
   Statements only; each is closed by [exact] of a lemma proved in Proofs/PickleP.v.

   Model (M.Pickle).  Objects (models, context managers) live in a world and have identities; a
   machine holds references to them, its configuration, and the side tables keyed by the INTEGER
   id(model): model_context_map (Locked classes), model_graphs (Graph classes), the per-model
   queue table (Async classes with queued='model').  [getstate] / [setstate] mirror
   LockedMachine.__getstate__/__setstate__ (store keyed by the model objects, table rebuilt under
   the new ids), GraphMachine.__getstate__/__setstate__ (graphs dropped, regenerated) and the default
   pickling of __dict__; the two locked graph classes run both protocols (fix 74ef53e);
   [effective_hooks] says which pair the MRO of each of the 12 predefined classes selects;
   PicklableLock is re-created unlocked ([transport_lock]).
   ASSUMED, not proved: [transport rm rl] — what pickle does to the object graph (every reachable
   object re-created under the fresh identity rm i / rl l, sharing preserved, integers copied
   verbatim, configuration deep-copied).  snapshot = setstate o transport o getstate.

   [resolve w m] is the machine as its own code sees it: for each of its models (by position)
   the object, the contexts an event on it enters (model_context_map[id(model)]), its graph, its
   queue.  The engine is abstract: theorems quantify over EVERY step function of the resolved
   machine, every history, every reachable table state, any number of models / contexts.

   [guard] no longer excludes any class: every table is re-keyed (context map: LockedMachine; graphs:
   GraphMachine; per-model queues: AsyncMachine since 9fbcaa5).  It states an invariant of the original
   (queued='model': every registered model has its queue), proved for all reachable machines in
   C15_guard_reachable.  The former KF-C15-1/-2/-3 are fixed in /repo (74ef53e, 3c0ca68, 9fbcaa5); their
   witnesses are positive examples now.  Candidate findings left: KF-C15-4, KF-C15-5 (IdentManager; fixed by
   538f6a5: the harness reads the reset off /repo). *)
From Coq Require Import List Arith Bool.
From M Require Import Pickle.
From P Require Import PickleP.
Import ListNotations.

(* Which hooks are in effect for the 12 predefined classes, in the order of factory._CLASS_MAP
   (a proof by computation over the finite class table; the harness re-derives the right-hand
   side from /repo by reflection on every run). *)
Theorem C15_hooks_table :
  map (fun k => hooks_code (effective_hooks k)) the12 = [0; 1; 0; 1; 2; 3; 2; 3; 4; 5; 4; 5].
Proof. exact hooks_table. Qed.
Print Assumptions C15_hooks_table.

(* Every machine reachable by add_model / remove_model (any script, any class that exists) is in
   the envelope [wf]. *)
Theorem C15_reachable_wf :
  forall (C S G : Type) (render : C -> option S -> G) (w : world S) (k : cls) (c : C) (q : bool)
         (mctx : list ident) (script : list tabop),
  negb (k_locked k && k_async k) = true ->
  wf (fold_left (tab_step render w) script (init_machine k c q mctx : machine C G)) = true.
Proof. exact reachable_wf. Qed.
Print Assumptions C15_reachable_wf.

(* SAME.  The copy resolves to the same machine: same class, configuration and options, the same
   model objects (state included) in the same order, for every model the same contexts and queue
   under its NEW identity — up to what pickling is documented to reset ([normalize]:
   PicklableLocks unlocked, graphs regenerated from configuration and model state). *)
Theorem C15_same :
  forall (C S G : Type) (render : C -> option S -> G) (rm rl : ident -> ident)
         (w w' : world S) (m m' : machine C G),
  wf m = true -> fresh rm rl w m = true -> guard m = true ->
  snapshot render rm rl w m = Some (w', m') ->
  resolve w' m' = normalize render (resolve w m).
Proof. exact same_view. Qed.
Print Assumptions C15_same.

(* ... hence ANY engine that reads the machine through its resolved tables reacts identically on
   every continuation (fold_left over the history): observations and final machine coincide. *)
Theorem C15_same_run :
  forall (C S G : Type) (render : C -> option S -> G) (E O : Type)
         (step : pview C S G -> E -> pview C S G * O)
         (rm rl : ident -> ident) (w w' : world S) (m m' : machine C G) (h : list E),
  wf m = true -> fresh rm rl w m = true -> guard m = true ->
  snapshot render rm rl w m = Some (w', m') ->
  run_view step (resolve w' m') h = run_view step (normalize render (resolve w m)) h.
Proof. exact same_run. Qed.
Print Assumptions C15_same_run.

(* When no PicklableLock of the original is held and the class draws no graphs there is nothing
   to normalise: the copy behaves exactly like the original itself. *)
Theorem C15_same_run_quiet :
  forall (C S G : Type) (render : C -> option S -> G) (E O : Type)
         (step : pview C S G -> E -> pview C S G * O)
         (rm rl : ident -> ident) (w w' : world S) (m m' : machine C G) (h : list E),
  wf m = true -> fresh rm rl w m = true -> guard m = true ->
  k_graph (m_cls m) = false -> quiet w m = true ->
  snapshot render rm rl w m = Some (w', m') ->
  run_view step (resolve w' m') h = run_view step (resolve w m) h.
Proof. exact same_run_quiet. Qed.
Print Assumptions C15_same_run_quiet.

(* The re-keying itself.  ALL locked classes (the graph ones included): the context table of the copy
   is keyed by exactly the identities of the copy's models, and under the new identity of a model
   are the copies of the contexts that the original held under the old one. *)
Theorem C15_rekey_contexts :
  forall (C S G : Type) (render : C -> option S -> G) (rm rl : ident -> ident)
         (w w' : world S) (m m' : machine C G),
  wf m = true -> fresh rm rl w m = true ->
  k_locked (m_cls m) = true ->
  snapshot render rm rl w m = Some (w', m') ->
  m_models m' = map rm (m_models m) /\
  m_cmap m' = map (fun i => (rm i, map rl (lookup_list (m_cmap m) i))) (m_models m) /\
  keys (m_cmap m') = m_models m' /\
  (forall i, In i (m_models m) -> lookup_list (m_cmap m') (rm i) = map rl (lookup_list (m_cmap m) i)).
Proof. exact rekey_contexts. Qed.
Print Assumptions C15_rekey_contexts.

(* Pickling never raises, whatever the class and whether or not the models are hashable. *)
Theorem C15_pickles_always :
  forall (C S G : Type) (render : C -> option S -> G) (rm rl : ident -> ident)
         (w : world S) (m : machine C G),
  exists w' m', snapshot render rm rl w m = Some (w', m').
Proof. exact pickles_always. Qed.
Print Assumptions C15_pickles_always.

(* Graph classes (locked or not): the graph table of the copy is keyed by exactly the identities of the copy's
   models (stale entries of removed models are gone) and holds a freshly generated graph. *)
Theorem C15_rekey_graphs :
  forall (C S G : Type) (render : C -> option S -> G) (rm rl : ident -> ident)
         (w w' : world S) (m m' : machine C G),
  wf m = true -> fresh rm rl w m = true -> k_graph (m_cls m) = true ->
  snapshot render rm rl w m = Some (w', m') ->
  m_models m' = map rm (m_models m) /\
  keys (m_graphs m') = m_models m' /\
  (forall i, In i (m_models m) -> lookup (m_graphs m') (rm i) = Some (render (m_cfg m) (state_of w i))).
Proof. exact rekey_graphs. Qed.
Print Assumptions C15_rekey_graphs.

(* Unpickling ENTERED THROUGH A MODEL (pickle.dumps(model) reaches the machine through the model's
   trigger partials; the machine is restored while the copy of that model is still an empty shell).
   Classes without graphs: exactly the ordinary snapshot, so everything above applies. *)
Theorem C15_via_model_nongraph :
  forall (C S G : Type) (render : C -> option S -> G) (j : ident) (rm rl : ident -> ident)
         (w : world S) (m : machine C G),
  k_graph (m_cls m) = false -> snapshot_via render j rm rl w m = snapshot render rm rl w m.
Proof. exact snapshot_via_nongraph. Qed.
Print Assumptions C15_via_model_nongraph.

(* Graph classes: the same world and the same tables as the ordinary snapshot, the graph table keyed
   by the copy's models, every other model's graph regenerated from its state — but the entry
   model's graph is generated WITHOUT a state (no state styled active; candidate finding KF-C15-4,
   witness C15_via_model_refuted_graph below). *)
Theorem C15_via_model_graph :
  forall (C S G : Type) (render : C -> option S -> G) (j : ident) (rm rl : ident -> ident)
         (w w' : world S) (m m' : machine C G),
  wf m = true -> fresh rm rl w m = true ->
  k_graph (m_cls m) = true -> In j (m_models m) ->
  snapshot_via render j rm rl w m = Some (w', m') ->
  (exists m0, snapshot render rm rl w m = Some (w', m0) /\
              m_models m' = m_models m0 /\ m_mctx m' = m_mctx m0 /\ m_cmap m' = m_cmap m0 /\
              m_qkeys m' = m_qkeys m0 /\ m_cfg m' = m_cfg m0) /\
  keys (m_graphs m') = m_models m' /\
  lookup (m_graphs m') (rm j) = Some (render (m_cfg m) None) /\
  (forall i, In i (m_models m) -> i <> j ->
     lookup (m_graphs m') (rm i) = Some (render (m_cfg m) (state_of w i))).
Proof. exact snapshot_via_graph. Qed.
Print Assumptions C15_via_model_graph.

(* INDEPENDENT.  A lock held in the original is free in the copy: every PicklableLock the copy
   would enter (machine_context and per-model contexts) is unlocked, whatever the original's state. *)
Theorem C15_locks_free :
  forall (C S G : Type) (render : C -> option S -> G) (rm rl : ident -> ident)
         (w w' : world S) (m m' : machine C G),
  wf m = true -> fresh rm rl w m = true -> guard m = true ->
  snapshot render rm rl w m = Some (w', m') ->
  view_locks_free (resolve w' m').
Proof. exact locks_free. Qed.
Print Assumptions C15_locks_free.

(* No object is shared: models and contexts of the copy are disjoint from the original's (both
   directions) and from everything that existed before (for ALL classes, guarded or not). *)
Theorem C15_fresh_identities :
  forall (C S G : Type) (render : C -> option S -> G) (rm rl : ident -> ident)
         (w w' : world S) (m m' : machine C G),
  wf m = true -> fresh rm rl w m = true ->
  snapshot render rm rl w m = Some (w', m') ->
  disjoint_machines m' m /\ disjoint_machines m m' /\
  (forall i, In i (m_models m') -> ~ In i (keys (w_models w))) /\
  (forall l, In l (all_locks m') -> ~ In l (keys (w_locks w))).
Proof. exact fresh_identities. Qed.
Print Assumptions C15_fresh_identities.

(* Frame: mutations of objects outside a machine never change what it resolves to. *)
Theorem C15_frame :
  forall (C S G : Type) (xs : list (write S)) (w : world S) (m : machine C G),
  (forall x, In x xs -> write_in m x = false) ->
  resolve (fold_left apply_write xs w) m = resolve w m.
Proof. exact resolve_frame. Qed.
Print Assumptions C15_frame.

(* Two machines without common objects, ANY engine (events, reconfigurations — it may return a new
   configuration — lock acquisitions; it writes to the machine's own objects), any histories:
   after whatever a did, b still resolves to the same machine and produces the same observations
   as if a had done nothing. *)
Theorem C15_independent_run :
  forall (C S G E O : Type) (eng : pview C S G -> E -> C * list (mobj S) * list lobj * O)
         (w : world S) (a b : machine C G) (hA hB : list E),
  disjoint_machines a b ->
  resolve (fst (fst (run eng w a hA))) b = resolve w b /\
  snd (run eng (fst (fst (run eng w a hA))) b hB) = snd (run eng w b hB).
Proof. exact independent_run. Qed.
Print Assumptions C15_independent_run.

(* ... in particular original and copy, in both directions (for ALL classes). *)
Theorem C15_independent :
  forall (C S G : Type) (render : C -> option S -> G) (E O : Type)
         (eng : pview C S G -> E -> C * list (mobj S) * list lobj * O)
         (rm rl : ident -> ident) (w w' : world S) (m m' : machine C G) (hA hB : list E),
  wf m = true -> fresh rm rl w m = true ->
  snapshot render rm rl w m = Some (w', m') ->
  (resolve (fst (fst (run eng w' m hA))) m' = resolve w' m' /\
   snd (run eng (fst (fst (run eng w' m hA))) m' hB) = snd (run eng w' m' hB)) /\
  (resolve (fst (fst (run eng w' m' hB))) m = resolve w' m /\
   snd (run eng (fst (fst (run eng w' m' hB))) m hA) = snd (run eng w' m hA)).
Proof. exact snapshot_independent. Qed.
Print Assumptions C15_independent.

(* Acquiring or releasing any context of the original after the snapshot is invisible to the copy. *)
Theorem C15_hold_independent :
  forall (C S G : Type) (render : C -> option S -> G) (rm rl : ident -> ident)
         (w w' : world S) (m m' : machine C G) (l : ident) (o : lobj),
  wf m = true -> fresh rm rl w m = true ->
  snapshot render rm rl w m = Some (w', m') ->
  In l (all_locks m) -> resolve (apply_write w' (WLock l o)) m' = resolve w' m'.
Proof. exact hold_independent. Qed.
Print Assumptions C15_hold_independent.

(* Non-vacuity: a LockedMachine with two models, one with a model_context, pickled WHILE its lock
   is held, is in the envelope; the copy's table is keyed 110/111, its lock (100) is free while
   the original's (0) is still held. *)
Example C15_envelope_inhabited :
  wf xlocked = true /\ fresh (xplus 100) (xplus 100) xworld xlocked = true /\ guard xlocked = true /\
  exists w' m', snapshot xrender (xplus 100) (xplus 100) xworld xlocked = Some (w', m') /\
    m_models m' = [110; 111] /\
    m_cmap m' = [(110, [100; 101]); (111, [100; 101; 103])] /\
    lookup (w_locks w') 100 = Some (mkLobj 0 false true) /\
    lookup (w_locks w') 0 = Some (mkLobj 0 true true).
Proof. exact ex_locked_envelope. Qed.
Print Assumptions C15_envelope_inhabited.

(* Formerly KF-C15-1, fixed by 74ef53e: the same history on a LockedGraphMachine is inside the guard;
   context and graph tables of the copy are keyed by the copy's models, every model finds its
   contexts, and the copy resolves to the normalised original. *)
Example C15_locked_graph_rekeyed :
  wf xlockedgraph = true /\ fresh (xplus 100) (xplus 100) xworld xlockedgraph = true /\
  guard xlockedgraph = true /\
  exists w' m', snapshot xrender (xplus 100) (xplus 100) xworld xlockedgraph = Some (w', m') /\
    m_models m' = [110; 111] /\ keys (m_cmap m') = [110; 111] /\ keys (m_graphs m') = [110; 111] /\
    map (fun x => length (pm_ctx x)) (pv_models (resolve w' m')) = [2; 3] /\
    resolve w' m' = normalize xrender (resolve xworld xlockedgraph).
Proof. exact ex_locked_graph_rekeyed. Qed.
Print Assumptions C15_locked_graph_rekeyed.

(* Formerly KF-C15-2, fixed by 3c0ca68: a LockedMachine whose model is unhashable is inside the guard
   and pickles; the copy resolves to the normalised original. *)
Example C15_unhashable_pickles :
  wf xunhashable = true /\ fresh (xplus 100) (xplus 100) xuworld xunhashable = true /\
  guard xunhashable = true /\
  map (fun i => option_map mo_hashable (lookup (w_models xuworld) i)) (m_models xunhashable) = [Some false] /\
  exists w' m', snapshot xrender (xplus 100) (xplus 100) xuworld xunhashable = Some (w', m') /\
    m_models m' = [110] /\ m_cmap m' = [(110, [100; 101])] /\
    resolve w' m' = normalize xrender (resolve xuworld xunhashable).
Proof. exact ex_unhashable_pickles. Qed.
Print Assumptions C15_unhashable_pickles.

(* Formerly KF-C15-3, fixed by 9fbcaa5: AsyncMachine(queued='model') stores the per-model queues with their models
   and rebuilds the table under the new identities; the machine is inside the guard, every model of the copy has
   its queue, and the copy resolves to the normalised original. *)
Example C15_async_queue_rekeyed :
  wf xasyncq = true /\ fresh (xplus 100) (xplus 100) xworld xasyncq = true /\ guard xasyncq = true /\
  m_qkeys xasyncq = [10; 11] /\
  exists w' m', snapshot xrender (xplus 100) (xplus 100) xworld xasyncq = Some (w', m') /\
    m_models m' = [110; 111] /\ m_qkeys m' = [110; 111] /\
    map pm_queue (pv_models (resolve w' m')) = [true; true] /\
    resolve w' m' = normalize xrender (resolve xworld xasyncq).
Proof. exact ex_async_queue_rekeyed. Qed.
Print Assumptions C15_async_queue_rekeyed.

(* What is left of the guard is an invariant of the ORIGINAL (with queued='model' every registered model has its
   queue); it holds for every machine reachable by add_model / remove_model, for every class. *)
Theorem C15_guard_reachable :
  forall (C S G : Type) (render : C -> option S -> G) (w : world S) (k : cls) (c : C) (q : bool)
         (mctx : list ident) (script : list tabop),
  guard (fold_left (tab_step render w) script (init_machine k c q mctx : machine C G)) = true.
Proof. exact guard_reachable. Qed.
Print Assumptions C15_guard_reachable.

(* KF-C15-4 (candidate)  a GraphMachine pickled through one of its models: the copy of that model has a
   graph in which no state is styled active, unlike the regenerated graph of the original. *)
Theorem C15_via_model_refuted_graph :
  wf xgraph = true /\ fresh (xplus 100) (xplus 100) xworld xgraph = true /\ guard xgraph = true /\
  exists w' m', snapshot_via xrender 10 (xplus 100) (xplus 100) xworld xgraph = Some (w', m') /\
    m_models m' = [110; 111] /\
    m_graphs m' = [(110, (7, None)); (111, (7, Some 1))] /\
    map pm_graph (pv_models (normalize xrender (resolve xworld xgraph))) = [Some (7, Some 0); Some (7, Some 1)] /\
    resolve w' m' <> normalize xrender (resolve xworld xgraph).
Proof. exact ex_via_model_graph. Qed.
Print Assumptions C15_via_model_refuted_graph.

(* KF-C15-5 (candidate)  C15_locks_free speaks about the contexts whose state pickling discards (PicklableLock).
   IdentManager is pickled like any object: a LockedMachine pickled from inside its own contexts (a callback)
   yields a copy whose IdentManager still names the pickling thread as owner, while its lock is free: events of
   that thread on the copy enter no context.  (The harness reads off /repo whether IdentManager resets on pickling
   and encodes it in [lo_picklable]; with a resetting IdentManager the case falls under C15_locks_free.) *)
Theorem C15_ident_owner_kept :
  wf xinside = true /\ fresh (xplus 100) (xplus 100) xiworld xinside = true /\ guard xinside = true /\
  exists w' m', snapshot xrender (xplus 100) (xplus 100) xiworld xinside = Some (w', m') /\
    m_mctx m' = [100; 101] /\
    lookup (w_locks w') 100 = Some (mkLobj 0 false true) /\
    lookup (w_locks w') 101 = Some (mkLobj 1 true false) /\
    map pm_ctx (pv_models (resolve w' m')) = [[Some (mkLobj 0 false true); Some (mkLobj 1 true false)]].
Proof. exact ex_ident_kept. Qed.
Print Assumptions C15_ident_owner_kept.
