(* C18 — on_final fires exactly when a state - or a whole compound - becomes final.
   Statements only. *)
From Coq Require Import List Arith Bool.
From M Require Import Base Flat FlatSpec Hsm.
From P Require Import FlatP HsmFinal.
Import ListNotations.

(* Flat machines: the machine-level on_final callbacks run exactly when the executed
   transition has a destination flagged final, once each, in registration order (their
   position — after the destination's enter items, before the after items — is the one
   fixed by C01's spec_step/body). *)
Theorem C18_flat :
  forall (mc : machine) (ev : env) (c : ctx) (ts : list trans) (cur : state) (p : nat),
    onfinal_cbs (fst (fst (spec_step mc ev c ts cur p))) =
      match snd (scan ev c cur (candidates ts cur) (p + length (m_prepare_event mc))) with
      | Some t => match t_dst t with
                  | Some d => if s_final (sdef_of mc d) then m_on_final mc else []
                  | None => []
                  end
      | None => []
      end.
Proof. exact flat_onfinal. Qed.
Print Assumptions C18_flat.

(* Hierarchical machines.  For every machine, every new configuration t (any tree: depth,
   branching, parallel regions) and every set of states entered by the transition:
   _final_check returns, children before parents, the on_final lists of exactly those
   active nodes that count as final (no active children: own flag; else: all active
   children count as final) and that the transition touched (entered the node or one of
   its active descendants), and reports whether the node counts as final. *)
Theorem C18_characterisation :
  forall (hm : hmachine) (entered : list path) (t : tree) (abs : path),
    final_check_t hm abs t entered = (spec_onfinal hm entered abs t, counts_final hm abs t).
Proof. intros. apply final_check_char. Qed.
Print Assumptions C18_characterisation.

(* ... propagated to the machine's own on_final, last *)
Theorem C18_root :
  forall (hm : hmachine) (entered : list path) (f : forest),
    final_check_root hm f entered = spec_onfinal_root hm entered f.
Proof. exact final_check_root_char. Qed.
Print Assumptions C18_root.

(* The property's wording of "counts as final" (own flag, or all active children count)
   coincides with the code's as long as no state flagged final has active children. *)
Theorem C18_wording :
  forall (hm : hmachine) (t : tree) (abs : path),
    no_final_compound hm abs t = true -> pcounts hm abs t = counts_final hm abs t.
Proof. exact pcounts_counts. Qed.
Print Assumptions C18_wording.

(* Without that guard clause (a) of the property fails: a state flagged final that has
   just been entered together with a non-final child never runs its on_final (KF-C18-1). *)
Definition kf18_hm : hmachine :=
  mkHM [SDef 1 [] [] [7] true None [2] [] [SDef 2 [] [] [] false None [] [] []]]
       [] [] [] [] [] [] [8] false false.
Theorem C18_final_compound_refuted :
  final_check_root kf18_hm [Node 1 [Node 2 []]] [[1]; [1; 2]] = [] /\
  pcounts kf18_hm [] (Node 1 [Node 2 []]) = true.
Proof. vm_compute. split; reflexivity. Qed.
Print Assumptions C18_final_compound_refuted.

(* non-vacuity: two parallel regions; entering the second final leaf fires the leaf's, the
   region's, the parallel state's and finally the machine's on_final *)
Example C18_example :
  let hm := mkHM [SDef 1 [] [] [10] false None [2; 3] []
                    [SDef 2 [] [] [20] false None [4] [] [SDef 4 [] [] [40] true None [] [] []];
                     SDef 3 [] [] [30] false None [5] [] [SDef 5 [] [] [50] true None [] [] []]]]
                 [] [] [] [] [] [] [99] false false in
  final_check_root hm [Node 1 [Node 2 [Node 4 []]; Node 3 [Node 5 []]]] [[1; 3; 5]]
    = [[50]; [30]; [10]; [99]].
Proof. vm_compute. reflexivity. Qed.
