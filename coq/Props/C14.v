(* C14 - Markup export is faithful, current, and round-trips into an equal machine.
   Statements only; each is closed by [exact] of a lemma proved in Proofs/MarkupP.v.

   [machine] is the description of a flat or hierarchical machine with named callbacks
   (state tree with nesting, initial substates, flags, callback lists; per scope the ordered
   event table trigger -> source -> transitions with conditions / unless / prepare / before /
   after, internal transitions with dest = None; six machine-level lists; options; models).
   [to_markup] mirrors MarkupMachine.markup (what _convert omits included), [of_markup] the
   [markup=] constructor path, [getter]/[step] the cache automaton (_needs_update).
   [wf_machine] is the envelope (boolean, extracted, checked on every generated case):
   non-empty names, canonical event tables, no user event that the auto-transition heuristic
   swallows, state flags representable (True or inherited), initial set, models in resolved
   states, flat+auto_transitions only with model_attribute = 'state'. *)
From Coq Require Import List Arith Bool String.
From G Require Import AttrLists.
From M Require Import Markup.
From P Require Import MarkupP.
Import ListNotations.
Open Scope string_scope.

(* The whitelists dumped from /repo (Generated/AttrLists.v, rewritten on every run) export
   every attribute of the description - a proof by computation over the finite tables. *)
Theorem C14_whitelists :
  forallb (fun k => memb k state_attributes)
          ["on_enter"; "on_exit"; "on_final"; "ignore_invalid_triggers"; "final"] = true
  /\ forallb (fun k => memb k transition_attributes) ["source"; "dest"; "prepare"; "before"; "after"] = true.
Proof. exact (conj state_attributes_cover transition_attributes_cover). Qed.
Print Assumptions C14_whitelists.

(* Faithful: the markup is a lossless projection of the description - one function recovers
   every state (nesting, initial, flags, callbacks), every transition (trigger, source,
   destination, conditions, unless, callbacks, order), every machine-level list and option
   and every model's state from it, for ALL machines of the envelope. *)
Theorem C14_faithful :
  exists recover : bool -> markup -> machine,
    forall m, wf_machine m = true -> recover (m_hsm m) (to_markup m) = m.
Proof. exact faithful_exists. Qed.
Print Assumptions C14_faithful.

(* Round trip: constructing a machine from the markup yields the same description ... *)
Theorem C14_roundtrip :
  forall m, wf_machine m = true -> of_markup (m_hsm m) (to_markup m) = m.
Proof. exact of_to_markup. Qed.
Print Assumptions C14_roundtrip.

(* ... hence an identical markup ... *)
Theorem C14_roundtrip_markup :
  forall m, wf_machine m = true -> to_markup (of_markup (m_hsm m) (to_markup m)) = to_markup m.
Proof. exact roundtrip_markup. Qed.
Print Assumptions C14_roundtrip_markup.

(* ... and the same reaction to every event history, for every semantics that is a function
   of the description (the correspondence check runs the real engines on both machines). *)
Theorem C14_roundtrip_behaviour :
  forall m, wf_machine m = true ->
  forall (Obs : Type) (behaves : machine -> Obs),
    behaves (of_markup (m_hsm m) (to_markup m)) = behaves m.
Proof. exact roundtrip_behaviour. Qed.
Print Assumptions C14_roundtrip_behaviour.

(* Current: after ANY script of add_states / add_transition / remove_transition / callback
   registration / model changes / intermediate reads, the getter returns the markup of the
   current machine computed from scratch - for a machine built by the constructor ... *)
Theorem C14_current :
  forall hsm d ops, forallb op_in_envelope ops = true ->
    snd (getter (run_ops ops (construct hsm d)))
    = to_markup (fold_left (fun m o => apply_op o m) ops (of_markup hsm d)).
Proof. exact current_constructed. Qed.
Print Assumptions C14_current.

(* ... and for a machine rebuilt from a markup dict (which then serves as the cache). *)
Theorem C14_current_rebuilt :
  forall hsm d ops, wf_markup_static d = true -> forallb op_in_envelope ops = true ->
    snd (getter (run_ops ops (construct_markup hsm d)))
    = to_markup (fold_left (fun m o => apply_op o m) ops (of_markup hsm d)).
Proof. exact current_rebuilt. Qed.
Print Assumptions C14_current_rebuilt.

(* Non-vacuity: a hierarchical machine (compound with guarded local and internal
   transitions, parallel state, final child with on_final, three models) and a flat one
   satisfy the envelope; a ten-step script is inside it and changes the markup. *)
Example C14_envelope_inhabited :
  wf_machine ex_hsm = true /\ wf_machine ex_flat = true /\ forallb op_in_envelope ex_ops = true
  /\ List.length (k_transitions (to_markup ex_hsm)) = 4.
Proof. exact (conj ex_hsm_wf (conj ex_flat_wf (conj ex_ops_in_envelope (proj1 ex_hsm_nontrivial)))). Qed.
Print Assumptions C14_envelope_inhabited.

(* Limits of the envelope (each hypothesis of wf is necessary), by concrete witnesses. *)
(* known finding KF-C14-1 *)
Theorem C14_roundtrip_refuted_flag :
  exists m, map (fun s => eff_ignore (m_ignore m) (s_ignore s)) (m_states m) = [false; true]
    /\ map (fun s => eff_ignore (m_ignore m) (s_ignore s)) (m_states (of_markup (m_hsm m) (to_markup m))) = [true; true]
    /\ map ks_attrs (k_states (to_markup m)) = [[]; []]
    /\ map ks_attrs (k_states (to_markup (of_markup (m_hsm m) (to_markup m))))
       = [[("ignore_invalid_triggers", ABool true)]; [("ignore_invalid_triggers", ABool true)]].
Proof. exact roundtrip_refuted_flag. Qed.
Print Assumptions C14_roundtrip_refuted_flag.

(* known finding KF-C14-2 *)
Theorem C14_faithful_refuted_auto_name :
  exists m, m_auto m = false /\ List.length (flatten (m_events m)) = 2 /\ k_transitions (to_markup m) = []
            /\ m_events (of_markup (m_hsm m) (to_markup m)) = [].
Proof. exact faithful_refuted_auto_name. Qed.
Print Assumptions C14_faithful_refuted_auto_name.

(* D29 (fixed in /repo): the hierarchical on_enter(state, cb) / on_exit(state, cb) helpers are
   operations of the envelope, covered by C14_current; a concrete instance: *)
Example C14_current_direct_helper :
  map ks_attrs (k_states (snd (getter (run_ops [OGet; ODirectState 0 ["A"] "late"]
        (construct true (to_markup (mkMachine true [st "A" [] []] [] (Some (inl "A")) "" [] [] [] [] [] []
                                              false false "state" false None QFalse [])))))))
  = [[("on_enter", AList ["late"])]].
Proof. exact current_direct_example. Qed.
Print Assumptions C14_current_direct_helper.

(* documented limits (DESIGN section 9) *)
Theorem C14_current_refuted_set_list :
  exists d ops, k_bsc (snd (getter (run_ops ops (construct false d)))) = ["early"]
    /\ k_bsc (to_markup (mach (run_ops ops (construct false d)))) = ["late"].
Proof. exact current_refuted_set_list. Qed.
Print Assumptions C14_current_refuted_set_list.

Theorem C14_roundtrip_refuted_no_initial :
  exists m, m_initial m = None
    /\ map s_name (m_states m) = ["A"]
    /\ map s_name (m_states (of_markup (m_hsm m) (to_markup m))) = ["A"; "initial"].
Proof. exact roundtrip_refuted_no_initial. Qed.
Print Assumptions C14_roundtrip_refuted_no_initial.
