(* C13 — Equivalent ways of building a machine yield equivalent machines.
   Statements only; each is closed by [exact] of a lemma proved in Proofs/BuildP.v.
   [exec]/[run_op]/[add_*] (Model/Build.v) mirror Machine.__init__, add_states, the initial
   setter, add_transition(s), add_ordered_transitions and remove_transition of /repo
   (tied to /repo by the correspondence check); [flatten] yields the abstract machine of
   Model/Flat.v whose [trigger]/[can_trigger] define behaviour. *)
From Coq Require Import List Arith Bool.
From M Require Import Base Flat Hsm Build HBuild.
From P Require Import BuildP HBuildP.
Import ListNotations.

(* ---- callbacks: by name, by reference, by dotted path, as a property; single value or list:
   only the resolved callback list matters. *)
Theorem C13_callback_repr : forall trig src dst c b,
  add_transition (mkT trig src dst (canon_tcbs c)) b = add_transition (mkT trig src dst c) b.
Proof. exact callback_repr_transition. Qed.
Print Assumptions C13_callback_repr.

Theorem C13_callback_repr_state : forall h cen cex cign cfin f,
  state_of_form h (canon_cbspec cen) (canon_cbspec cex) cign cfin
    (match f with
     | SDict n en ex fin ign => SDict n (canon_cbspec en) (canon_cbspec ex) fin ign
     | SObj n en ex fin ign => SObj n (canon_cbspec en) (canon_cbspec ex) fin ign
     | _ => f end)
  = state_of_form h cen cex cign cfin f.
Proof. exact callback_repr_state. Qed.
Print Assumptions C13_callback_repr_state.

Theorem C13_callback_repr_machine : forall hsm auto ign send pe bsc asc fin oe ofi sts evs i m en,
  flatten (mkBm (mkHdr hsm auto ign send (canon_cbspec pe) (canon_cbspec bsc) (canon_cbspec asc)
                       (canon_cbspec fin) (canon_cbspec oe) (canon_cbspec ofi)) sts evs i m en)
  = flatten (mkBm (mkHdr hsm auto ign send pe bsc asc fin oe ofi) sts evs i m en).
Proof. exact callback_repr_header. Qed.
Print Assumptions C13_callback_repr_machine.

(* ---- states: two forms (name / Enum member / dict / State object, with or without the
   keyword arguments of add_states) that denote the same name and State register the same
   machine — including the automatic to_<state> transitions.  (HierarchicalMachine refuses a
   duplicate name except for dicts, hence the side condition.) *)
Theorem C13_state_repr : forall cen cex cign cfin f cen' cex' cign' cfin' f' b,
  fst (state_of_form (b_hdr b) cen cex cign cfin f) = fst (state_of_form (b_hdr b) cen' cex' cign' cfin' f') ->
  is_enum_form f = is_enum_form f' ->
  (h_hsm (b_hdr b) = false \/
   snd (state_of_form (b_hdr b) cen cex cign cfin f) = snd (state_of_form (b_hdr b) cen' cex' cign' cfin' f')) ->
  add_state1 cen cex cign cfin f b = add_state1 cen' cex' cign' cfin' f' b.
Proof. exact state_repr. Qed.
Print Assumptions C13_state_repr.

Theorem C13_state_name_obj : forall n en ex ign fin b,
  add_state1 en ex ign fin (SName n) b =
  add_state1 CNone CNone None false
    (SObj n en ex fin (match ign with None => h_ignore (b_hdr b) | Some _ => ign end)) b.
Proof. exact state_repr_name_obj. Qed.
Print Assumptions C13_state_name_obj.

Theorem C13_state_dict_obj : forall n en ex fin ign b, h_hsm (b_hdr b) = false ->
  add_state1 CNone CNone None false (SDict n en ex fin ign) b =
  add_state1 CNone CNone None false
    (SObj n en ex fin (match ign with None => h_ignore (b_hdr b) | Some v => v end)) b.
Proof. exact state_repr_dict_obj. Qed.
Print Assumptions C13_state_dict_obj.

(* a State whose own ignore_invalid_triggers is unset = one carrying the machine's flag *)
Theorem C13_ignore_fallback : forall h n en ex fin evs i m ens pre post,
  flatten (mkBm h (pre ++ (n, mkSdef en ex fin None) :: post) evs i m ens) =
  flatten (mkBm h (pre ++ (n, mkSdef en ex fin (Some (eff_ignore h None))) :: post) evs i m ens).
Proof. exact ignore_fallback. Qed.
Print Assumptions C13_ignore_fallback.

(* ---- references to states in add_transition: names, Enum members, registered State objects *)
Theorem C13_ref_repr : forall t b, refs_ok b t = true ->
  add_transition (mkT (ts_trig t) (name_src (ts_src t)) (name_dst (ts_dst t)) (ts_cbs t)) b
  = add_transition t b.
Proof. exact ref_repr. Qed.
Print Assumptions C13_ref_repr.

Theorem C13_initial_repr : forall n b,
  set_initial (REnum n) b = set_initial (RName n) b /\
  (registered b n = true -> set_initial (RObj n) b = set_initial (RName n) b).
Proof. intros n b. split; [exact (initial_repr_enum n b)|exact (initial_repr_obj n b)]. Qed.
Print Assumptions C13_initial_repr.

(* ---- constructor arguments = the same calls made afterwards; batching *)
Theorem C13_ctor_later : forall h k rest,
  exec (ctor_script k ++ rest) (empty h) =
  match construct h k with (b, None) => exec rest b | res => res end.
Proof. exact construct_later. Qed.
Print Assumptions C13_ctor_later.

Theorem C13_ctor_unfold : forall h sts i ts m,
  construct h (mkCtor (Some sts) (Some i) (Some ts) true m) =
  exec ([AddStates sts CNone CNone None false; SetInitial i; AddTransitions ts; AddOrdered default_ordered]
        ++ (if m then [AddModel] else [])) (empty h).
Proof. exact construct_unfold. Qed.
Print Assumptions C13_ctor_unfold.

Theorem C13_script_compose : forall s1 s2 b,
  exec (s1 ++ s2) b = match exec s1 b with (b', None) => exec s2 b' | res => res end.
Proof. exact exec_app. Qed.
Print Assumptions C13_script_compose.

Theorem C13_batch_states : forall l1 l2 en ex ign fin rest b,
  exec (AddStates (l1 ++ l2) en ex ign fin :: rest) b =
  exec (AddStates l1 en ex ign fin :: AddStates l2 en ex ign fin :: rest) b.
Proof. exact batch_states. Qed.
Print Assumptions C13_batch_states.

Theorem C13_batch_transitions : forall l1 l2 rest b,
  exec (AddTransitions (l1 ++ l2) :: rest) b = exec (AddTransitions l1 :: AddTransitions l2 :: rest) b.
Proof. exact batch_transitions. Qed.
Print Assumptions C13_batch_transitions.

(* ---- list vs dict elements of add_transitions, and add_transitions vs add_transition *)
Theorem C13_list_dict : forall l b,
  run_op (AddTransitions l) b = exec (map (fun f => AddTransition (tf_spec f)) l) b.
Proof. exact list_dict. Qed.
Print Assumptions C13_list_dict.

Theorem C13_list_dict_forms : forall ts b,
  run_op (AddTransitions (map TPos ts)) b = run_op (AddTransitions (map TKw ts)) b.
Proof. exact list_dict_forms. Qed.
Print Assumptions C13_list_dict_forms.

(* ---- '*' = the list of the states existing at that time *)
Theorem C13_wildcard : forall trig d c b,
  add_transition (mkT trig SrcWild d c) b =
  add_transition (mkT trig (SrcMany (map RName (state_names b))) d c) b.
Proof. exact wildcard_expansion. Qed.
Print Assumptions C13_wildcard.

(* ---- a list of sources = one call per source *)
Theorem C13_many_split : forall trig c d l b, l <> [] -> plain_dst d = true ->
  add_transition (mkT trig (SrcMany (map RName l)) d c) b =
  exec_ts (map (fun s => mkT trig (SrcOne (RName s)) d c) l) b.
Proof. exact many_sources. Qed.
Print Assumptions C13_many_split.

(* ---- '=' = the reflexive transition of every source, also under '*' *)
Theorem C13_reflexive : forall trig c l b, l <> [] ->
  add_transition (mkT trig (SrcMany (map RName l)) DstSame c) b =
  exec_ts (map (fun s => mkT trig (SrcOne (RName s)) (DstTo (RName s)) c) l) b.
Proof. exact reflexive_expansion. Qed.
Print Assumptions C13_reflexive.

Theorem C13_wildcard_reflexive : forall trig c b, state_names b <> [] ->
  add_transition (mkT trig SrcWild DstSame c) b =
  exec_ts (map (fun s => mkT trig (SrcOne (RName s)) (DstTo (RName s)) c) (state_names b)) b.
Proof. exact wildcard_reflexive. Qed.
Print Assumptions C13_wildcard_reflexive.

(* ---- the ordered helper = the add_transition calls of [ordered_ts] (rotation to the
   initial state, loop, loop_includes_initial, per-edge arguments), raising iff it does *)
Theorem C13_ordered_ring : forall o b,
  run_op (AddOrdered o) b =
  match ordered_ts b o with inl e => (b, Some e) | inr ts => exec (map AddTransition ts) b end.
Proof. exact ordered_as_calls. Qed.
Print Assumptions C13_ordered_ring.

(* the ring of a concrete instance, evaluated: states s0 s1 s2 s3, initial s2, loop, initial
   excluded from the loop: s2->s3, s3->s0, s0->s1, s1->s3 *)
Example C13_ordered_ring_example :
  ordered_ts (fst (exec [AddStates [SName 0; SName 1; SName 2; SName 3] CNone CNone None false;
                         SetInitial (RName 2)] (empty h0)))
             (mkO None 0 true false ONone ONone ONone ONone ONone)
  = inr (map (fun p => mkT 0 (SrcOne (RName (fst p))) (DstTo (RName (snd p))) no_cbs)
             [(2, 3); (3, 0); (0, 1); (1, 3)]).
Proof. vm_compute. reflexivity. Qed.

(* ---- add-then-remove = never added: transitions (any number of calls, any sources, dests,
   wildcards, callbacks) added under a trigger the machine did not have, then removed:
   the machine is EXACTLY the one before *)
Theorem C13_remove_inverse : forall trig ts b b',
  has_key trig (b_events b) = false -> ts <> [] -> Forall (fun t => ts_trig t = trig) ts ->
  exec_ts ts b = (b', None) -> remove_transition trig FWild FWild b' = (b, None).
Proof. exact remove_inverse. Qed.
Print Assumptions C13_remove_inverse.

(* ---- equal (equivalent) machines behave equally on every call and every history *)
Theorem C13_behaviour : forall b1 b2, beq b1 b2 ->
  forall ev c e p cur,
    Flat.trigger (flatten b1) ev c e p cur = Flat.trigger (flatten b2) ev c e p cur /\
    Flat.can_trigger (flatten b1) ev c e p cur = Flat.can_trigger (flatten b2) ev c e p cur.
Proof. exact behaviour. Qed.
Print Assumptions C13_behaviour.

Theorem C13_behaviour_history : forall b1 b2, beq b1 b2 ->
  forall ev c hs p s, run_calls (flatten b1) ev c hs p s = run_calls (flatten b2) ev c hs p s.
Proof. exact behaviour_history. Qed.
Print Assumptions C13_behaviour_history.

Theorem C13_equal_scripts_behave_equally : forall s1 s2 b, exec s1 b = exec s2 b ->
  forall ev c hs p s,
    run_calls (flatten (fst (exec s1 b))) ev c hs p s = run_calls (flatten (fst (exec s2 b))) ev c hs p s.
Proof. intros s1 s2 b H. rewrite H. reflexivity. Qed.
Print Assumptions C13_equal_scripts_behave_equally.

(* ---- the ordered helper is independent of how its states are given (names, Enum members,
   registered State objects): rotation to the initial state, loop_includes_initial and the
   per-edge arguments apply alike (was KF-C13-1 / D27 before the fix in /repo) *)
Theorem C13_ordered_repr : forall o l b, forallb (ref_ok b) l = true ->
  add_ordered (with_states o (Some (map name_ref l))) b = add_ordered (with_states o (Some l)) b.
Proof. exact ordered_repr. Qed.
Print Assumptions C13_ordered_repr.

Theorem C13_ordered_ts_repr : forall b o l,
  ordered_ts b (with_states o (Some (map name_ref l))) =
  match ordered_ts b (with_states o (Some l)) with
  | inl e => inl e
  | inr ts => inr (map name_tspec ts)
  end.
Proof. exact ordered_ts_names. Qed.
Print Assumptions C13_ordered_ts_repr.

Theorem C13_ordered_default_states : forall o b,
  add_ordered (with_states o None) b = add_ordered (with_states o (Some (map RName (state_names b)))) b.
Proof. exact ordered_default_states. Qed.
Print Assumptions C13_ordered_default_states.

(* the former counterexample: states s0 s1 s2, initial s1, no loop, given as Enum members *)
Example C13_ordered_enum_example :
  exec (three ++ [ord [REnum 0; REnum 1; REnum 2]]) (empty h0) =
  exec (three ++ [ord [RName 0; RName 1; RName 2]]) (empty h0).
Proof. vm_compute. reflexivity. Qed.

(* ---- the filter of remove_transition is independent of the representation of its
   elements, on Machine as well as on HierarchicalMachine (was KF-C13-2 / D28) *)
Theorem C13_remove_filter_repr : forall trig fs fd b,
  h_hsm (b_hdr b) && filt_enum_bad b fs fd = false ->
  remove_transition trig (name_filt_src fs) (name_filt_dst fd) b = remove_transition trig fs fd b.
Proof. exact remove_filter_repr. Qed.
Print Assumptions C13_remove_filter_repr.

Theorem C13_remove_match_repr : forall fs fd t,
  t_match (name_filt_src fs) (name_filt_dst fd) t = t_match fs fd t.
Proof. exact t_match_names. Qed.
Print Assumptions C13_remove_match_repr.

Example C13_remove_enum_example :
  exec (go01 ++ [RemoveTransition 2 (FList [REnum 0]) FWild]) (empty h0) =
  exec (go01 ++ [RemoveTransition 2 (FList [RName 0]) FWild]) (empty h0).
Proof. vm_compute. reflexivity. Qed.

(* ======================================================================================
   Hierarchical machines (Model/HBuild.v: HierarchicalMachine.add_states with separator-
   joined names / nested dicts / machines embedded as children with remap, add_transition(s)
   globally and in a dict's 'transitions', remove_transition).  [hexec] builds the state
   trees and scope events of Model/Hsm.v; the laws hold at EVERY scope ([add_form] on any
   scope) and inside every script (any prefix, any suffix).
   ====================================================================================== *)

(* ---- (1) the children of a nested dict under the key 'children' or 'states', at any depth *)
Theorem C13_h_children_states : forall dflt k f sc, add_form dflt (rekey k f) sc = add_form dflt f sc.
Proof. exact children_states. Qed.
Print Assumptions C13_h_children_states.

Theorem C13_h_children_states_script : forall pre suf k f b,
  hexec (pre ++ HAddStates [rekey k f] :: suf) b = hexec (pre ++ HAddStates [f] :: suf) b.
Proof. exact script_children_states. Qed.
Print Assumptions C13_h_children_states_script.

(* ---- (2) a state tree as nested dict = its root, then its descendants as separator-joined
   names created one by one in pre-order (sibling names distinct, the root new in its scope,
   no explicit ignore_invalid_triggers=None) *)
Theorem C13_h_nested_dict_joined_names : forall dflt t, wf_pt t = true ->
  forall ds evs, has_child ds (pt_name t) = false ->
  add_forms dflt (names_of t) (ds, evs) = add_form dflt (dict_of t) (ds, evs).
Proof. exact names_eq_dict. Qed.
Print Assumptions C13_h_nested_dict_joined_names.

Theorem C13_h_nested_dict_joined_names_script : forall pre suf t b, wf_pt t = true ->
  (forall b1, hexec pre b = (b1, None) -> has_child (hb_states b1) (pt_name t) = false) ->
  hexec (pre ++ HAddStates [dict_of t] :: suf) b =
  hexec (pre ++ map (fun f => HAddStates [f]) (names_of t) ++ suf) b.
Proof. exact script_names_dict. Qed.
Print Assumptions C13_h_nested_dict_joined_names_script.

Definition ex_tree : ptree :=
  PT 1 (mkHA [7] [] [] false None [2])
     [PT 2 (mkHA [] [8] [] true (Some (Some true)) []) [PT 4 (mkHA [] [] [9] false None []) []];
      PT 3 (mkHA [] [] [] false None []) []].
Example C13_h_names_example :
  wf_pt ex_tree = true /\
  names_of ex_tree = [HName [1] (mkHA [7] [] [] false None [2]);
                      HName [1; 2] (mkHA [] [8] [] true (Some (Some true)) []);
                      HName [1; 2; 4] (mkHA [] [] [9] false None []);
                      HName [1; 3] (mkHA [] [] [] false None [])].
Proof. vm_compute. split; reflexivity. Qed.

(* ---- (3) another machine embedded as children: without remap it is the nested dict of its
   states with its global transitions as the dict's 'transitions' (the embedding state takes
   over the machine's initial state unless it has its own) *)
Theorem C13_h_embedded_machine : forall dflt n a s sc, wf_sub s = true ->
  add_form dflt (HEmbed n a s []) sc =
  add_form dflt (HDict n (with_initial a (sub_initial s)) true (map form_of (sub_states s))
                       (flat_events (sub_events s))) sc.
Proof. exact embed_is_dict. Qed.
Print Assumptions C13_h_embedded_machine.

Theorem C13_h_embedded_machine_script : forall pre suf n a s b, wf_sub s = true ->
  hexec (pre ++ HAddStates [HEmbed n a s []] :: suf) b =
  hexec (pre ++ HAddStates [HDict n (with_initial a (sub_initial s)) true (map form_of (sub_states s))
                                  (flat_events (sub_events s))] :: suf) b.
Proof. exact script_embed_dict. Qed.
Print Assumptions C13_h_embedded_machine_script.

(* the nested dict written from a state tree builds exactly that tree *)
Theorem C13_h_dict_round_trip : forall dflt d, wfr_d d = true ->
  forall ds es, add_form dflt (form_of d) (ds, es) = ((set_child d ds, es), None).
Proof. exact build_form_of. Qed.
Print Assumptions C13_h_dict_round_trip.

(* with remap: the remapped states are absent, transitions from them are gone, transitions
   into them are declared one scope up from <n>_<source> to the remap target (same callbacks),
   everything else is the explicit nested definition *)
Theorem C13_h_embedded_remap : forall dflt n a s remap sc, wf_sub s = true ->
  add_form dflt (HEmbed n a s remap) sc =
  (let ks := kept_sub remap s in
   let sc1 := fst (add_form dflt (HDict n (with_initial a (sub_initial s)) true (map form_of (sub_states ks))
                                        (flat_events (sub_events ks))) sc) in
   ((fst sc1, add_hts (moved_events n remap (sub_events s)) (snd sc1)), None)).
Proof. exact embed_remap_explicit. Qed.
Print Assumptions C13_h_embedded_remap.

Theorem C13_h_embedded_remap_script : forall pre suf n a s remap b, wf_sub s = true ->
  hexec (pre ++ HAddStates [HEmbed n a s remap] :: suf) b =
  hexec (pre ++ [HAddStates [HEmbed n a (kept_sub remap s) []];
                 HAddTransitions (moved_events n remap (sub_events s))] ++ suf) b.
Proof. exact script_embed_remap. Qed.
Print Assumptions C13_h_embedded_remap_script.

(* ---- (4) add then remove = never added.  For every script that does not otherwise remove
   the trigger and every start machine: the script with every mention of the trigger
   stripped (global add_transition(s), 'transitions' of nested dicts at any depth, machines
   embedded as children) builds the machine of the full script with the trigger dropped
   from every scope, and raises iff the full script does ... *)
Theorem C13_h_never_mentioned : forall trig s b, forallb (fun o => negb (removes trig o)) s = true ->
  hexec (map (strip_op trig) s) (drop_b trig b) = (drop_b trig (fst (hexec s b)), snd (hexec s b)).
Proof. exact drop_exec. Qed.
Print Assumptions C13_h_never_mentioned.

(* ... and remove_transition(trigger) is that dropping (event names are unique in every
   scope of every machine a script builds: [uk_exec]) *)
Theorem C13_h_remove_never_added : forall trig s b,
  forallb wf_op s = true -> forallb (fun o => negb (removes trig o)) s = true ->
  uk_scope (hb_scope b) = true -> snd (hexec s b) = None ->
  hexec (s ++ [HRemove trig [] []]) b = hexec (map (strip_op trig) s) (drop_b trig b).
Proof. exact remove_never_added. Qed.
Print Assumptions C13_h_remove_never_added.

Theorem C13_h_remove_never_added_scratch : forall trig s ign,
  forallb wf_op s = true -> forallb (fun o => negb (removes trig o)) s = true ->
  snd (hexec s (hempty ign)) = None ->
  hexec (s ++ [HRemove trig [] []]) (hempty ign) = hexec (map (strip_op trig) s) (hempty ign).
Proof. exact remove_never_added_scratch. Qed.
Print Assumptions C13_h_remove_never_added_scratch.

Theorem C13_h_unique_event_names : forall s b, forallb wf_op s = true -> uk_scope (hb_scope b) = true ->
  uk_scope (hb_scope (fst (hexec s b))) = true.
Proof. exact uk_exec. Qed.
Print Assumptions C13_h_unique_event_names.

(* ---- remove_transition(trigger, source, dest) with filters (D46, fixed in /repo; this used to
   be C13_h_remove_scope_refuted): it deletes, in every scope at any depth, exactly the
   transitions whose ABSOLUTE source and destination are the given paths - whatever scope
   declares them, and nothing else *)
Theorem C13_h_remove_filter : forall trig sp dp sc, wfp_scope sc = true ->
  rem_scope trig sp dp sc = filt_scope trig sp dp sc.
Proof. exact remove_is_absolute_filter. Qed.
Print Assumptions C13_h_remove_filter.

(* hence add-then-remove with a filter = never added: transitions from sp to dp added and
   removed again by that filter, on a machine where nothing else has that absolute source and
   destination, leave exactly the machine before *)
Theorem C13_h_remove_filter_inverse : forall trig sp dp l b,
  wfp_scope (hb_scope b) = true ->
  filt_scope trig sp dp (hb_scope b) = hb_scope b ->
  Forall (fun p => fst p = trig /\ abs_match [] sp dp (snd p) = true) l ->
  hexec [HAddTransitions l; HRemove trig sp dp] b = (b, None).
Proof. exact remove_filter_inverse. Qed.
Print Assumptions C13_h_remove_filter_inverse.

(* the former counterexample: states s1 and s2{s1, s3}; s2 declares e0: s1 -> s3 (i.e. from
   s2_s1); remove_transition('e0', source='s1') now leaves the machine alone *)
Example C13_h_remove_scope_example : hrun_op (HRemove 0 [1] []) quirk_machine = (quirk_machine, None).
Proof. exact remove_scope_example. Qed.
