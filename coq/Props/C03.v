(* C03 — HSM: event dispatch and transition resolution follow hierarchical semantics.
   Statements only.  (Balance / freshness / order of exits and enters: Props/C02.v.) *)
From Coq Require Import List Arith Bool.
From M Require Import Base Flat Hsm HsmSpec.
From P Require Import HsmForest HsmResolve HsmOffer MonadP CrashGen HsmExec.
From P Require HsmIff HsmDecl HsmReach HsmTotal HsmOrder HsmPar HsmParCor HsmTotalCor.
Import ListNotations.

(* ---------- transition resolution ---------- *)
(* base = scope ++ root is the deepest ACTIVE PROPER ancestor of the destination (the scope
   itself if there is none): it is active, and the next element of the destination path is
   not active below it — unless the whole destination is active, in which case the
   destination itself is re-entered (rest = its last element). *)
Theorem C03_deepest_active_ancestor :
  forall (f : forest) (sc dst root rest : path) (cur : forest),
    dst <> [] -> sub f sc = Some cur -> split_active f sc dst = (root, rest) ->
    root ++ rest = dst /\ rest <> [] /\ active f (sc ++ root) = true /\
    (active f (sc ++ root ++ [hd 0 rest]) = true -> length rest = 1 /\ active f (sc ++ dst) = true).
Proof. exact split_active_spec. Qed.
Print Assumptions C03_deepest_active_ancestor.

Section Resolution.
  Variable f : forest.
  Variables sc dst : path.
  Variable dd : sdefn.
  Variable r : resolution.
  Hypothesis U : uniq f = true.
  Hypothesis UB : uniq (initial_tree def_depth_bound dd) = true.
  Hypothesis Hdst : dst <> [].
  Hypothesis R : resolve f sc dst dd = Some r.
  Variables root rest : path.
  Hypothesis SA : split_active f sc dst = (root, rest).
  Hypothesis NOK : narrow_ok f sc root rest.

  (* the exit set: exactly the active states strictly below base — restricted to the
     destination's own branch when several children of base are active; never base itself,
     never anything outside base *)
  Theorem C03_exit_set : forall scoped q,
    sub f (sc ++ root) = Some scoped -> q <> [] ->
    (In ((sc ++ root) ++ q) (r_exits r) <->
       active scoped q = true /\ (Nat.ltb 1 (length scoped) = true -> hd 0 q = hd 0 rest)).
  Proof. exact (exits_below f sc dst dd r U R root rest SA NOK). Qed.
  Theorem C03_exit_below_base : forall p, In p (r_exits r) -> exists q, p = (sc ++ root) ++ q /\ q <> [].
  Proof. exact (exits_form f sc dst dd r R root rest SA). Qed.

  (* the enter set: the rest of the destination path, then the initial descendants of the
     destination (all children of parallel states), nothing else *)
  Theorem C03_enter_set : forall q, q <> [] ->
    (In ((sc ++ root) ++ q) (r_enters r) <->
       active (chain_tree rest (initial_tree def_depth_bound dd)) q = true).
  Proof. exact (enters_below f sc dst dd r UB Hdst R root rest SA). Qed.
  Theorem C03_enter_below_base : forall p, In p (r_enters r) -> exists q, p = (sc ++ root) ++ q /\ q <> [].
  Proof. exact (enters_form f sc dst dd r Hdst R root rest SA). Qed.
End Resolution.
Print Assumptions C03_exit_set.
Print Assumptions C03_exit_below_base.
Print Assumptions C03_enter_set.
Print Assumptions C03_enter_below_base.

(* C03_exit_set without its side conditions: on machines with duplicate-free initial lists whose parallel states
   enter all their regions (HsmPar.full_par_defs, decidable), in every configuration reachable from the one
   add_model creates, for every declaring scope and registered destination *)
Theorem C03_exit_set_reachable :
  forall (hm : hmachine), HsmReach.wf_defs hm = true -> HsmPar.full_par_defs hm = true ->
  forall (f : forest) (sc dst : path) (dd : sdefn) (r : resolution) (root rest : path),
    HsmParCor.reachable hm f -> find_def (scope_children hm sc) dst = Some dd -> resolve f sc dst dd = Some r ->
    split_active f sc dst = (root, rest) ->
    forall scoped q, sub f (sc ++ root) = Some scoped -> q <> [] ->
      (In ((sc ++ root) ++ q) (r_exits r) <->
         active scoped q = true /\ (Nat.ltb 1 (length scoped) = true -> hd 0 q = hd 0 rest)).
Proof. exact HsmParCor.exit_set_reachable. Qed.
Print Assumptions C03_exit_set_reachable.

(* other parallel regions are untouched: every subtree that neither contains base nor lies
   below it is literally the same afterwards *)
Theorem C03_frame :
  forall (f : forest) (sc dst : path) (dd : sdefn) (r : resolution) (root rest p : path),
    resolve f sc dst dd = Some r -> split_active f sc dst = (root, rest) ->
    ~ is_prefix (sc ++ root) p -> ~ is_prefix p (sc ++ root) -> sub (r_new r) p = sub f p.
Proof.
  intros f sc dst dd r root rest p R SA N1 N2. unfold resolve in R. rewrite SA in R.
  destruct (sub f (sc ++ root)); [|discriminate]. cbv zeta in R. injection R as <-. cbn [r_new].
  now apply sub_update_other.
Qed.
Print Assumptions C03_frame.

(* ---------- the trace of one transition ---------- *)
(* Under an environment that does not raise from position p on, a candidate transition
   declared in scope sc and offered in configuration f produces exactly: its prepare
   callbacks, its checks up to the first failing one, and - if all pass -
   before_state_change, before, the exit callbacks of exactly the resolved exit set in its
   order (all seeing the old configuration), the enter callbacks of exactly the resolved
   enter set in its order and the on_final callbacks of C18 (all seeing the new
   configuration), after, after_state_change; result and new configuration as resolved. *)
Theorem C03_transition_trace :
  forall (hm : hmachine) (ev : env) (c : ctx) (sc : path) (t : htrans) (p : nat) (f : forest),
    no_raise_from_g ev p -> resolvable hm f sc t = true ->
    Hsm.execute hm ev c sc t p f =
      (fst (fst (spec_execute hm ev c f sc t p)), snd (fst (spec_execute hm ev c f sc t p)),
       inr (snd (spec_execute hm ev c f sc t p))).
Proof. exact execute_ok. Qed.
Print Assumptions C03_transition_trace.

(* ---------- offering the event (NestedEvent.trigger_nested) ---------- *)
(* For EVERY way a single offer behaves (attempt: prepare_event, candidates in definition
   order up to the first that passes, its callbacks - any results, any configuration change)
   the loop over the resolve order (deepest level first) satisfies: *)
Theorem C03_offers :
  forall (attempt : path -> M (V:=forest) (S:=forest) bool) (hc : path -> bool) (sc : path)
         (order done : list path) (result : option bool) p0 s0 tr s' res log,
    offer_loop_gen attempt hc sc order done result p0 s0 = (tr, s', inr (res, log)) ->
    (* only states that are active when their turn comes, declare the event and are not excluded are offered *)
    Forall (fun o => In (o_path o) order /\ hc (o_path o) = true /\
                     active (o_cfg o) (sc ++ o_path o) = true /\ ~ In (o_path o) done) log /\
    (* in the order fixed at the start: innermost (deepest) first *)
    sublist (map o_path log) order /\
    (* once a state executed a transition, neither it nor any of its ancestors is offered again:
       at most one transition per region *)
    (forall l1 o l2, log = l1 ++ o :: l2 -> o_exec o = true ->
        Forall (fun o' => ~ (o_path o' <> [] /\ exists r, o_path o = o_path o' ++ r)) l2) /\
    (* True iff some transition executed, False iff offered but all blocked, None iff not offered at all *)
    res = res_of result log.
Proof. exact offer_loop_spec. Qed.
Print Assumptions C03_offers.

(* the order used by the loop: deepest level first (so every descendant comes before its ancestors) *)
Theorem C03_innermost_first : forall f, nonincr (map (@length nat) (resolve_order f)).
Proof. exact resolve_order_nonincr. Qed.
Print Assumptions C03_innermost_first.

(* ---------- the result of the whole scope recursion (_trigger_event_nested over all regions) ---------- *)
(* With deterministic, non-raising callbacks, whenever the trigger returns normally (no internal
   error routed to handlers): it returns True iff SOME active state - in whichever region, on
   whichever level, for a transition declared globally or inside any enclosing state definition -
   has a transition of the event with a registered destination whose checks pass; hence False
   means that every such candidate of every active (scope, source) pair was blocked by its
   conditions: no active region or ancestor is left out of the offer. *)
Theorem C03_result_iff :
  forall (hm : hmachine) (ev : env) (c : ctx) (e : event) (p : nat) (f : forest) tr f' (b : bool),
    (forall cb q, r_raise (ev cb q) = None) -> (forall cb p q, ev cb p = ev cb q) ->
    uniq f = true ->
    trigger_event hm ev c e p f = (tr, f', inr b) ->
    Forall (fun it => it_slot it <> SOnException) tr ->
    (b = true <->
     exists sc q ts t, lookup (scope_events hm sc) e = Some ts /\ q <> [] /\ active f (sc ++ q) = true /\
                       In t (cands ts q) /\ hdest_ok hm sc t = true /\ HsmIff.tpass ev t = true).
Proof. intros hm ev c e p f tr f' b NR DET. exact (HsmIff.trigger_iff_avail hm ev c e NR DET p f tr f' b). Qed.
Print Assumptions C03_result_iff.

(* ---------- the invalid-trigger branch ---------- *)
(* For EVERY environment (callbacks may do anything), state tree and configuration with unique sibling
   names: the scope recursion answers None - the only case in which _check_event_result raises
   MachineError / AttributeError or answers False for ignoring states - exactly when NO active state
   (no leaf, no ancestor, in no region) has a transition of the event declared for it in any scope;
   and in that case no callback has run and the configuration is untouched. *)
Theorem C03_invalid_iff_undeclared :
  forall (hm : hmachine) (ev : env) (c : ctx) (e : event) (p : nat) (f : forest) tr f' (r : option bool),
    uniq f = true ->
    dispatch_f hm ev c e [] f None p f = (tr, f', inr r) ->
    (r = None <-> ~ HsmDecl.declares hm e f) /\ (r = None -> tr = [] /\ f' = f).
Proof. exact HsmDecl.dispatch_none_iff. Qed.
Print Assumptions C03_invalid_iff_undeclared.

(* ... so a trigger of an event that no active state or ancestor declares IS the invalid-trigger check of
   the active leaves (or the propagation of an exception raised inside the dispatch, which cannot happen
   when nothing is offered - first disjunct kept for completeness of the case analysis). *)
Theorem C03_undeclared_is_invalid :
  forall (hm : hmachine) (ev : env) (c : ctx) (e : event) (p : nat) (f : forest),
    uniq f = true -> ~ HsmDecl.declares hm e f ->
    forall tr f' r, HsmIff.trigger_body hm ev c e p f = (tr, f', r) ->
    (exists x, r = inl x /\ dispatch_f hm ev c e [] f None p f = (tr, f', inl x)) \/
    (tr = [] /\ f' = f /\ check_leaves hm e (leaves f) p f = ([], f, r)).
Proof. exact HsmDecl.undeclared_is_invalid. Qed.
Print Assumptions C03_undeclared_is_invalid.

(* "raises MachineError exactly when no active state or ancestor declares the event", the missing half: the engine
   itself never fails.  For every state tree (parallel regions, nested scopes), when no callback raises, initial
   lists have no duplicates (wf_defs), every destination names a registered state of the scope its transition is
   declared in (dst_ok, decidable) and the configuration is good (unique sibling names, registered states only -
   an invariant, see below), processing an event leaves a good configuration and the ONLY exceptions that can
   reach the caller are the invalid-trigger errors of _check_event_result (MachineError, or AttributeError for an
   event that is no trigger of the machine at all) - and then no on_exception handler is registered and no active
   state or ancestor declares the event.  No ValueError / KeyError-like failure of the engine is possible. *)
Theorem C03_no_internal_error :
  forall (hm : hmachine) (ev : env) (c : ctx) (e : event) (p : nat) (f : forest) tr f' r,
    (forall cb q, r_raise (ev cb q) = None) ->
    HsmReach.wf_defs hm = true -> HsmTotal.dst_ok hm = true -> HsmTotal.good hm f ->
    Hsm.trigger_event hm ev c e p f = (tr, f', r) ->
    HsmTotal.good hm f' /\
    (forall x, r = inl x -> (x = MachineError \/ x = AttributeError) /\ hm_on_exception hm = [] /\
                            ~ HsmDecl.declares hm e f).
Proof. exact HsmTotal.hsm_no_internal_error. Qed.
Print Assumptions C03_no_internal_error.

(* the hypothesis on the configuration is met by the configuration add_model puts a model in (and kept by the
   theorem above, so by every configuration reached through events) *)
Theorem C03_initial_good :
  forall (hm : hmachine) (ini : path) (d : sdefn),
    HsmReach.wf_defs hm = true -> find_def (hm_states hm) ini = Some d ->
    HsmTotal.good hm (chain_tree ini (initial_tree def_depth_bound d)).
Proof. exact HsmTotal.initial_good. Qed.
Print Assumptions C03_initial_good.

(* ... for whole histories: from a good configuration (e.g. the initial one), whatever events are triggered in
   whatever order, every single result is a boolean or the invalid-trigger error, and the final configuration is
   good. *)
Theorem C03_history_no_internal_error :
  forall (hm : hmachine) (ev : env) (c : ctx),
    (forall cb q, r_raise (ev cb q) = None) -> HsmReach.wf_defs hm = true -> HsmTotal.dst_ok hm = true ->
    forall (es : list event) (p : nat) (f : forest), HsmTotal.good hm f ->
      Forall HsmTotal.benign (fst (HsmTotal.run_seq hm ev c es p f)) /\
      HsmTotal.good hm (snd (HsmTotal.run_seq hm ev c es p f)).
Proof. exact HsmTotal.history_total. Qed.
Print Assumptions C03_history_no_internal_error.

(* ... and stated from the start: every configuration reached from the one add_model creates, through any events under
   any callbacks (reach), is one from which a trigger with non-raising callbacks returns a boolean or raises the
   invalid-trigger error, and leads to such a configuration again *)
Theorem C03_no_internal_error_reachable :
  forall (hm : hmachine) (ev : env) (c : ctx) (e : event) (p : nat) (f : forest) tr f' r,
    (forall cb q, r_raise (ev cb q) = None) -> HsmReach.wf_defs hm = true -> HsmTotal.dst_ok hm = true ->
    HsmTotalCor.reachable0 hm f -> Hsm.trigger_event hm ev c e p f = (tr, f', r) ->
    HsmTotalCor.reachable0 hm f' /\
    (forall x, r = inl x -> (x = MachineError \/ x = AttributeError) /\ hm_on_exception hm = [] /\
                            ~ HsmDecl.declares hm e f).
Proof. exact HsmTotalCor.no_internal_error_reachable. Qed.
Print Assumptions C03_no_internal_error_reachable.

(* non-vacuity: the machine of KF-C03-1 below meets the decidable hypotheses *)
Example C03_no_internal_error_nonvacuous :
  let hm := mkHM [SDef 1 [] [] [] false None [2; 4] [(0, [mkHT [2] (Some [4; 5]) [] [] [20] []])]
                    [SDef 2 [] [] [] false None [3] [] [SDef 3 [] [] [] false None [] [] []];
                     SDef 4 [] [] [] false None [5] [] [SDef 5 [] [] [] false None [] [] []; SDef 6 [] [] [] false None [] [] []]]]
                 [(0, [mkHT [1; 4; 5] (Some [1; 4; 6]) [] [] [30] []])] [] [] [] [] [] [] false false in
  HsmReach.wf_defs hm = true /\ HsmTotal.dst_ok hm = true /\
  snd (Hsm.trigger_event hm (fun _ _ => mkReply true None []) (mkCtx 0 0 false) 0 0
         [Node 1 [Node 2 [Node 3 []]; Node 4 [Node 5 []]]]) = inr true /\
  snd (Hsm.trigger_event hm (fun _ _ => mkReply true None []) (mkCtx 0 0 false) 1 0
         [Node 1 [Node 2 [Node 3 []]; Node 4 [Node 5 []]]]) = inl AttributeError.
Proof. vm_compute. repeat split; reflexivity. Qed.

(* ---------- the order of the offers, all scopes ---------- *)
(* [HsmOrder.seq_f hm e s sc l]: for every tree of l that is active below scope sc - first, recursively, the scopes
   nested inside it (so the DEEPEST declaring scope comes first), then scope sc itself: if it declares e, the
   sources of that branch which have candidates and are active, in resolve order (deepest source first), each
   contributing prepare_event, and per candidate its prepare callbacks and its first condition.
   Theorem: when no callback raises, every callback returns False and every transition of the event starts with
   a condition (so every candidate is evaluated and blocked), the dispatch of the event leaves the configuration
   alone, does not answer True, and runs exactly these callbacks in exactly this order - for every machine, state
   tree and configuration.  This is the order in which (scope, source) pairs are asked: scope-major, the fact
   behind KF-C03-1. *)
Theorem C03_quiet_offer_order :
  forall (hm : hmachine) (ev : env) (c : ctx) (e : event),
    (forall cb q, r_raise (ev cb q) = None) -> (forall cb q, r_ret (ev cb q) = false) ->
    (forall sc ts t, lookup (scope_events hm sc) e = Some ts -> In t ts -> HsmOrder.guarded t) ->
    forall (f : forest) (p : nat),
    exists tr r, dispatch_f hm ev c e [] f None p f = (tr, f, inr r) /\ r <> Some true /\
                 map (@it_cb forest) tr = HsmOrder.seq_f hm e f [] f.
Proof. exact HsmOrder.dispatch_quiet_order. Qed.
Print Assumptions C03_quiet_offer_order.

Theorem C03_quiet_trigger_order :
  forall (hm : hmachine) (ev : env) (c : ctx) (e : event),
    (forall cb q, r_raise (ev cb q) = None) -> (forall cb q, r_ret (ev cb q) = false) ->
    (forall sc ts t, lookup (scope_events hm sc) e = Some ts -> In t ts -> HsmOrder.guarded t) ->
    forall (f : forest) (p : nat) tr f' r,
    Hsm.trigger_event hm ev c e p f = (tr, f', r) ->
    (exists tr0, dispatch_f hm ev c e [] f None p f = (tr0, f, inr (Some false))) ->
    f' = f /\ r = inr false /\ map (@it_cb forest) tr = HsmOrder.seq_f hm e f [] f ++ hm_finalize hm.
Proof. exact HsmOrder.trigger_quiet_order. Qed.
Print Assumptions C03_quiet_trigger_order.

(* non-vacuity and reading aid: states 1 > 2 > 3 and 1 > 4 (1 parallel); the event is declared inside 1 for source
   2 (condition 20), inside 1_2 for source 3 (condition 10), and globally for 1_2_3 (condition 30) and 1_4
   (condition 40): the deepest scope 1_2 is asked first, then scope 1, then the machine's own transitions in
   resolve order (deepest source first) *)
Example C03_quiet_order_example :
  let hm := mkHM [SDef 1 [] [] [] false None [2; 4] [(0, [mkHT [2] None [] [(20, true)] [] []])]
                    [SDef 2 [] [] [] false None [3] [(0, [mkHT [3] None [] [(10, true)] [] []])]
                       [SDef 3 [] [] [] false None [] [] []];
                     SDef 4 [] [] [] false None [] [] []]]
                 [(0, [mkHT [1; 4] None [] [(40, true)] [] []; mkHT [1; 2; 3] None [] [(30, true)] [] []])]
                 [] [] [] [99] [] [] false false in
  let f := [Node 1 [Node 2 [Node 3 []]; Node 4 []]] in
  HsmOrder.seq_f hm 0 f [] f = [10; 20; 30; 40] /\
  map (@it_cb forest) (fst (fst (Hsm.trigger_event hm (fun _ _ => mkReply false None []) (mkCtx 0 0 false) 0 0 f)))
    = [10; 20; 30; 40; 99].
Proof. vm_compute. split; reflexivity. Qed.

(* ---------- the same event in two scopes (KF-C03-1) ---------- *)
(* An ancestor's transition declared inside a state definition wins over its descendant's
   globally declared one: dispatch is scope-major.  States 1 > 2 > 3; the local transition
   (in 1, source 2) has before-callback 20, the global one (source 1_2_3) has 30. *)
Definition kf03_hm : hmachine :=
  mkHM [SDef 1 [] [] [] false None [2] [(0, [mkHT [2] None [] [] [20] []])]
          [SDef 2 [] [] [] false None [3] [] [SDef 3 [] [] [] false None [] [] []]]]
       [(0, [mkHT [1; 2; 3] None [] [] [30] []])] [] [] [] [] [] [] false false.
Theorem C03_mixed_scope_refuted :
  map it_cb (fst (fst (Hsm.trigger_event kf03_hm (fun _ _ => mkReply true None []) (mkCtx 0 0 false) 0 0
                        [Node 1 [Node 2 [Node 3 []]]]))) = [20].
Proof. vm_compute. reflexivity. Qed.
Print Assumptions C03_mixed_scope_refuted.
