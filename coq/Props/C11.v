(* C11 — the helpers on a model mirror the machine and the model's state.  Flat machines:
   first part (naming model of Naming.v); hierarchical machines: second part, over the
   hierarchical definitions of Hsm.v (NamingH.v).
   Statements only; each is closed by [exact] of a lemma proved in Proofs/NamingP.v.
   [run c ops] is the machine after the history [ops] (constructor arguments are its first
   operations); [wf_run wf_op] is the envelope: state names non-empty, user events not
   shaped like helpers (is_/to_/may_ prefix, "trigger"), added models carry only their own
   attributes and none named like the state attribute, and remove_transition is only applied
   to events whose helper on every registered model is the machine's own (KF-C11-1 outside). *)
From Coq Require Import List Arith Bool String.
From M Require Import Naming.
From P Require Import NamingP.
Import ListNotations.
Open Scope string_scope.

(* At every point of every history and for every registered model: its state is a registered
   state, and the is_ helpers bound by the machine that answer True are exactly the current
   state's (one helper; none only if the model itself defined an attribute of that name). *)
Theorem C11_exactly_one_flat :
  forall c ops o, wf_cfg c = true -> wf_run wf_op c empty_mach ops = true ->
  In o (m_models (run c ops)) ->
  exists cur, cur_state c o = Some cur /\ In cur (m_states (run c ops)) /\
    filter (is_true c (run c ops) o) (m_states (run c ops)) = if is_bound c o cur then [cur] else [].
Proof. exact exactly_one_flat. Qed.
Print Assumptions C11_exactly_one_flat.

(* Attributes a model defined itself (any value but None — callable or not, truthy or falsy)
   keep their value through every history; with
   model_override the machine only binds names the model had defined; class attributes are
   never touched. *)
Theorem C11_no_overwrite :
  forall c ops o, wf_cfg c = true -> wf_run wf_op c empty_mach ops = true ->
  In o (m_models (run c ops)) ->
  (c_over c = false -> forall n v, own_val v = true -> getattr (orig o) n = Some v -> getattr o n = Some v)
  /\ (c_over c = true -> forall n v, alookup n (o_inst o) = Some v ->
        n = c_attr c \/ getattr (orig o) n <> None)
  /\ o_cls (orig o) = o_cls o.
Proof. exact no_overwrite. Qed.
Print Assumptions C11_no_overwrite.

(* Without the clause on remove_transition the statement is false of the faithful model
   (and of /repo): known finding KF-C11-1. *)
Theorem C11_no_overwrite_refuted :
  exists c ops o n k,
  wf_cfg c = true /\ wf_run wf_op_weak c empty_mach ops = true /\ c_over c = false /\
  In o (m_models (run c ops)) /\ getattr (orig o) n = Some (VPre k) /\ getattr o n = None.
Proof. exact no_overwrite_refuted. Qed.
Print Assumptions C11_no_overwrite_refuted.

(* An event named like the state attribute is rejected (ValueError, machine unchanged), and
   no history of any operations whatsoever contains such an event. *)
Theorem C11_not_attr :
  forall c ops,
  (forall m src d ok, step c m (OAddTransition (c_attr c) src d ok) = (m, Raised ValueError))
  /\ alookup (c_attr c) (m_events (run c ops)) = None.
Proof. exact not_attr. Qed.
Print Assumptions C11_not_attr.

(* get_triggers(s) lists exactly the events that have a transition from s, each once. *)
Theorem C11_get_triggers :
  forall c ops s e,
  (In e (get_triggers (run c ops) [s]) <-> exists t, In (e, t) (flatten (run c ops)) /\ t_src t = s)
  /\ NoDup (get_triggers (run c ops) [s]).
Proof.
  exact (fun c ops s e => conj (get_triggers_spec (run c ops) s e (MInv_run c ops))
                               (get_triggers_nodup (run c ops) [s] (mi_evkeys _ (MInv_run c ops)))).
Qed.
Print Assumptions C11_get_triggers.

(* get_transitions(trigger, source, dest) returns exactly the matching transitions of the
   machine ("" = every event, "*" or "" = any state), in definition order. *)
Theorem C11_get_transitions :
  forall c ops trig src dst,
  get_transitions (run c ops) trig src dst
  = map snd (filter (q_match trig src dst) (flatten (run c ops))).
Proof. exact (fun c ops trig src dst => get_transitions_spec (run c ops) trig src dst (mi_evkeys _ (MInv_run c ops))). Qed.
Print Assumptions C11_get_transitions.

(* PARTIAL (state level, any machine): an event method bound to event e equals trigger(e).
   Not proved: that along every history a bound event helper implies the event still exists
   (checked by the correspondence oracle). *)
Theorem C11_event_is_trigger_partial :
  forall c m o e tm,
  alookup e (m_events m) = Some tm -> getattr o e = Some (VEvent e) -> getattr o "trigger" = Some VTrigger ->
  call_attr c m o e None = call_attr c m o "trigger" (Some e).
Proof. exact event_is_trigger. Qed.
Print Assumptions C11_event_is_trigger_partial.

(* PARTIAL (state level): a to-helper whose event has, from the current state, only passing
   transitions to s returns True and ends in s.  Not proved: that add_states with
   auto_transitions establishes exactly this table for every pair of states along every
   history and that no to_ event exists otherwise (checked by the correspondence oracle). *)
Theorem C11_to_iff_auto_partial :
  forall c m o s cur tm l,
  getattr o (to_name c s) = Some (VEvent (to_name c s)) ->
  alookup (to_name c s) (m_events m) = Some tm ->
  cur_state c o = Some cur -> In cur (m_states m) -> alookup cur tm = Some l -> l <> [] ->
  (forall t, In t l -> t_dst t = Some s /\ t_ok t = true) -> s <> "" -> In s (m_states m) ->
  call_attr c m o (to_name c s) None = (setattr o (c_attr c) (VState s), RBool true).
Proof. exact to_helper_ends_in. Qed.
Print Assumptions C11_to_iff_auto_partial.

(* Non-vacuity: a history with clashing attributes, reconfigurations and calls is inside
   the envelope (by computation). *)
Example C11_envelope_inhabited :
  wf_cfg ex_cfg = true /\ wf_run wf_op ex_cfg empty_mach ex_ops = true
  /\ map (fun o => cur_state ex_cfg o) (m_models (run ex_cfg ex_ops)) = [Some "C"; Some "C"].
Proof. exact ex_wf. Qed.
Print Assumptions C11_envelope_inhabited.

(* ================================================================== hierarchical machines *)
From M Require Import Base Flat Hsm HsmSpec NamingH.
From P Require Import HsmForest NamingHP.

(* is_<state>() without allow_substates: for every configuration with unique sibling names the
   helpers answering True are exactly those of the active leaves *)
Theorem C11_hsm_is_leaves :
  forall (f : forest) (p : path), uniq f = true -> p <> [] ->
  (is_state_h f p false = true <-> In p (leaves f)).
Proof. exact is_state_leaves. Qed.
Print Assumptions C11_hsm_is_leaves.

(* ... with allow_substates=True: exactly those of the active leaves and all their ancestors,
   i.e. of all active states ([nodes]) *)
Theorem C11_hsm_is_ancestors :
  forall (f : forest) (p : path), uniq f = true -> p <> [] ->
  (is_state_h f p true = true <-> exists l, In l (leaves f) /\ is_prefix p l).
Proof. exact is_state_active. Qed.
Print Assumptions C11_hsm_is_ancestors.
Theorem C11_hsm_is_nodes :
  forall (f : forest) (p : path), uniq f = true ->
  (is_state_h f p true = true /\ p <> [] <-> In p (nodes f)).
Proof. exact is_state_nodes. Qed.
Print Assumptions C11_hsm_is_nodes.

(* exactly one helper answers True in a configuration with one active leaf (exclusive
   configurations), among any duplicate-free list of registered states containing it *)
Theorem C11_hsm_exactly_one_exclusive :
  forall (f : forest) (l : path) (reg : list path), uniq f = true -> leaves f = [l] ->
  NoDup reg -> In l reg -> ~ In [] reg ->
  filter (fun p => is_state_h f p false) reg = [l].
Proof. exact exactly_one_exclusive. Qed.
Print Assumptions C11_hsm_exactly_one_exclusive.

(* the same in terms of the model's state value ls (a list of state paths), from which
   is_state rebuilds the tree: the tree has unique sibling names whatever ls is; a helper is
   True with allow_substates iff its path is a prefix of one of the values, and without iff
   in addition no value extends it strictly *)
Theorem C11_hsm_model_value :
  forall (ls : list path) (p : path), p <> [] ->
  uniq (build_tree ls) = true
  /\ (is_helper_h ls p true = true <-> exists l, In l ls /\ is_prefix p l)
  /\ (is_helper_h ls p false = true <->
        (exists l, In l ls /\ is_prefix p l) /\ forall n, ~ exists l, In l ls /\ is_prefix (p ++ [n])%list l).
Proof. exact helper_model_value. Qed.
Print Assumptions C11_hsm_model_value.

(* get_triggers(state) as the library computes it (get_nested_triggers + the parent walk)
   lists exactly: the events declared at the machine from the state or an ancestor, and the
   events declared inside a state from the state itself *)
Theorem C11_hsm_get_triggers_char :
  forall (hm : hmachine) (p : path) (e : event), In e (get_triggers_h hm p) <-> lib_trigger hm p e.
Proof. exact get_triggers_char. Qed.
Print Assumptions C11_hsm_get_triggers_char.

(* hence: every listed event has a transition from the state or one of its ancestors, and
   all of them are listed unless one is declared inside a state from a strict ancestor *)
Theorem C11_hsm_get_triggers :
  forall (hm : hmachine) (p : path) (e : event),
  (In e (get_triggers_h hm p) -> spec_trigger hm p e)
  /\ (no_nested_ancestor_source hm p -> (In e (get_triggers_h hm p) <-> spec_trigger hm p e)).
Proof. exact (fun hm p e => conj (get_triggers_sound hm p e) (get_triggers_exact hm p e)). Qed.
Print Assumptions C11_hsm_get_triggers.

(* without that guard the statement is false of the faithful model and of /repo: KF-C11-3 *)
Theorem C11_hsm_get_triggers_refuted :
  exists hm p e, spec_trigger hm p e /\ ~ In e (get_triggers_h hm p).
Proof. exact get_triggers_refuted. Qed.
Print Assumptions C11_hsm_get_triggers_refuted.

(* to_<state>(): the automatic transition is declared at the machine with destination p; from
   EVERY configuration it resolves, afterwards is_<p>(allow_substates=True) holds, what is active
   below p is exactly its initial descent, and is_<p>() holds when p declares no initial child *)
Theorem C11_hsm_to_state :
  forall (f : forest) (p : path) (dd : sdefn), p <> [] ->
  exists r, resolve f [] p dd = Some r
    /\ sub (r_new r) p = Some (initial_tree def_depth_bound dd)
    /\ is_state_h (r_new r) p true = true
    /\ (initial_tree def_depth_bound dd = [] -> is_state_h (r_new r) p false = true).
Proof.
  exact (fun f p dd NE => match to_state_ends f p dd NE with
         | ex_intro _ r (conj HR HS) =>
             ex_intro _ r (conj HR (conj HS (to_state_helpers f p dd r NE HR))) end).
Qed.
Print Assumptions C11_hsm_to_state.
