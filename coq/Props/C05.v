(* C05 — queued processing is run-to-completion, FIFO and exactly-once.
   The theorems hold for EVERY "process one event" function [step] (so for every machine
   configuration, flat or hierarchical), every program of actions performed by callbacks
   (triggers on any model, remove_model of any model, raising), every number of models.
   Entries carry their arrival number (q_id).  Statements only. *)
From Coq Require Import List Arith Bool.
From M Require Import Base Queue.
From P Require Import QueueP ReentP.
From M Require Import Flat Reent.
Import ListNotations.

Section C05.
  Context {W T : Type}.
  Variable step : W -> qentry -> (T * list action * option exn * W).
  Variable payload : qentry -> nat -> nat.

  (* A trigger issued from a callback while an event is in progress is only appended
     (deferred; the call returns True) — it never runs inside the current event. *)
  Theorem C05_deferred : forall cur k m e s,
    apply_action payload cur k (ATrigger m e) s =
      mkQS (qs_queue s ++ [mkQ (qs_next s) m e (payload cur k)]) (qs_models s) (S (qs_next s)) (qs_dropped s).
  Proof. reflexivity. Qed.

  (* Run-to-completion + FIFO + at most once: the arrival numbers of the processed events
     (one block per event, each block complete before the next begins) strictly increase. *)
  Theorem C05_fifo_once : forall fuel w s lo bs r w' s',
    within lo (qs_next s) (qids s) ->
    drain step payload fuel w s = Some (bs, r, w', s') ->
    within lo (qs_next s') (bids bs ++ qids s') /\ qs_next s <= qs_next s'.
  Proof. exact (drain_within step payload). Qed.

  (* The same for a trigger arriving at an idle machine: the first processed event is the
     call itself, then the deferred ones in arrival order, none twice; the queue ends empty. *)
  Theorem C05_top : forall fuel w s m e a bs r w' s',
    qs_queue s = [] ->
    top_trigger step payload fuel w s m e a = Some (bs, r, w', s') ->
    within (qs_next s) (qs_next s') (bids bs) /\ NoDup (bids bs) /\ qs_queue s' = [] /\
    (exists b rest, bs = b :: rest /\ b_entry b = mkQ (qs_next s) m e a).
  Proof. exact (top_trigger_fifo step payload). Qed.

  (* If processing raises, that event is the last one processed by the call, every pending
     event is discarded (queue empty: none runs later), and no earlier event raised. *)
  Theorem C05_raise_discards : forall fuel w s bs r w' s',
    drain step payload fuel w s = Some (bs, r, w', s') ->
    qs_queue s' = [] /\
    match r with
    | None => Forall (fun b => b_raised b = None) bs
    | Some e => exists bs0 b, bs = bs0 ++ [b] /\ b_raised b = Some e /\
                              Forall (fun b => b_raised b = None) bs0
    end.
  Proof. exact (drain_outcome step payload). Qed.

  (* remove_model m discards exactly the pending events of m: the event in progress (head)
     and every pending event of another model stay, in order. *)
  Theorem C05_remove_exact : forall cur k m s h tl,
    qs_queue s = h :: tl -> existsb (Nat.eqb m) (qs_models s) = true ->
    let s' := apply_action payload cur k (ARemoveModel m) s in
    qs_queue s' = h :: filter (fun x => negb (Nat.eqb (q_model x) m)) tl /\
    (forall x, In x (qs_queue s') <-> x = h \/ (In x tl /\ q_model x <> m)) /\
    (forall x, In x tl -> q_model x = m -> In x (map fst (qs_dropped s'))) /\
    qs_next s' = qs_next s.
  Proof. exact (remove_exact payload). Qed.

  (* whatever the callbacks do, the event in progress stays at the head of the queue *)
  Theorem C05_head_stays : forall cur k acts s h tl,
    qs_queue s = h :: tl -> exists tl', qs_queue (apply_actions payload cur k acts s) = h :: tl'.
  Proof. exact (apply_actions_head payload). Qed.

  (* Nothing is lost: every arrival is processed, or logged as dropped (by a remove_model
     of its model, or by a raising event), or still pending. *)
  Theorem C05_nothing_lost : forall fuel w s done bs r w' s',
    accounted done s -> drain step payload fuel w s = Some (bs, r, w', s') ->
    accounted (done ++ bids bs) s'.
  Proof. exact (drain_acc step payload). Qed.
End C05.
Print Assumptions C05_deferred.
Print Assumptions C05_fifo_once.
Print Assumptions C05_top.
Print Assumptions C05_raise_discards.
Print Assumptions C05_remove_exact.
Print Assumptions C05_head_stays.
Print Assumptions C05_nothing_lost.

(* non-vacuity: a run in which a callback triggers two events and removes a model *)
Example C05_example :
  let step := fun (w : nat) (q : qentry) =>
     (q_id q, if Nat.eqb (q_id q) 0 then [ATrigger 1 7; ATrigger 2 7; ARemoveModel 1] else [], @None exn, S w) in
  match top_trigger step (fun _ k => k) 10 0 (mkQS [] [0;1;2] 0 []) 0 5 0 with
  | Some (bs, None, _, s') => bids bs = [0; 2] /\ map (fun d => q_id (fst d)) (qs_dropped s') = [1]
  | _ => False
  end.
Proof. vm_compute. split; reflexivity. Qed.

(* ---------- without a queue ---------- *)
(* An event triggered from a callback is processed immediately and completely (its whole
   trace follows the triggering callback's item) before the triggering callback returns;
   if it raises, the triggering callback raises. *)
Theorem C05_unqueued_nested :
  forall (ev : env) (nested : model -> event -> nat -> RM bool) (c : ctx) sl err cb p w m' e' tn w' b,
    r_acts (ev cb p) = [ATrigger m' e'] -> r_raise (ev cb p) = None ->
    nested m' e' (nested_payload_r p 0) (S p) w = (tn, w', inr b) ->
    rcall ev nested c sl err cb p w =
      (mkItem sl cb (c_model c) (rstate_of w (c_model c)) (ctx_arg c) (if c_send c then err else None)
              (r_ret (ev cb p)) [ATrigger m' e'] :: tn,
       w', inr (r_ret (ev cb p))).
Proof. exact rcall_nested. Qed.
Print Assumptions C05_unqueued_nested.

(* The re-entrant engine is the flat engine of C01/C04 when callbacks perform no action:
   it refines Event._trigger on the triggered model's state and leaves the world otherwise
   unchanged — for every machine, environment, model and world. *)
Theorem C05_reentrant_refines_flat :
  forall (mc : machine) (ev : env) (nested : model -> event -> nat -> RM bool) (c : ctx),
    no_acts ev -> forall ts, sim c (trigger_event mc ev c ts) (rtrigger_event mc ev nested c ts).
Proof. exact rtrigger_event_refines. Qed.
Print Assumptions C05_reentrant_refines_flat.

(* ---------- the hierarchical instance ---------- *)
(* The theorems above hold for every step function; spelled out for the one the correspondence check
   runs against the queued hierarchical classes (HsmQueueIO.hqstep = Hsm.trigger_event on the
   triggered model's configuration): a trigger arriving at an idle queued hierarchical machine is
   processed first, then the events its callbacks deferred, in arrival order, none twice, and the
   queue ends empty - whatever the state tree, the parallel regions and the callbacks' programs. *)
From M Require Hsm HsmQueueIO.
Theorem C05_hsm_top :
  forall (hm : Hsm.hmachine) (ev : env) fuel (w : HsmQueueIO.hworld) s m e a bs r w' s',
    qs_queue s = [] ->
    top_trigger (HsmQueueIO.hqstep hm ev) HsmQueueIO.hnested_payload fuel w s m e a = Some (bs, r, w', s') ->
    within (qs_next s) (qs_next s') (bids bs) /\ NoDup (bids bs) /\ qs_queue s' = [] /\
    (exists b rest, bs = b :: rest /\ b_entry b = mkQ (qs_next s) m e a).
Proof. intros hm ev. exact (top_trigger_fifo (HsmQueueIO.hqstep hm ev) HsmQueueIO.hnested_payload). Qed.
Print Assumptions C05_hsm_top.

(* ---------- hierarchical machines without a queue ---------- *)
From M Require HReent.
From P Require HReentP.
(* An event triggered from a callback of an unqueued HIERARCHICAL machine is processed immediately and completely
   (its whole trace follows the triggering callback's item), on the configuration of that moment, before the
   callback returns; the outer event continues on the configuration the nested one left. *)
Theorem C05_hsm_unqueued_nested :
  forall (ev : env) (nested : event -> nat -> HReent.HM bool) (c : ctx) sl err cb p f m' e' tn f' b,
    r_acts (ev cb p) = [ATrigger m' e'] -> r_raise (ev cb p) = None ->
    nested e' (nested_payload_r p 0) (S p) f = (tn, f', inr b) ->
    HReent.hcall ev nested c sl err cb p f =
      (mkGItem sl cb (c_model c) f (ctx_arg c) (if c_send c then err else None) (r_ret (ev cb p)) [ATrigger m' e'] :: tn,
       f', inr (r_ret (ev cb p))).
Proof. exact HReentP.hcall_nested. Qed.
Print Assumptions C05_hsm_unqueued_nested.

(* The re-entrant hierarchical engine (the model the unqueued hierarchical classes are run against) IS the
   hierarchical engine of C02/C03/C04 when callbacks perform no action - for every machine, environment,
   configuration, position and fuel. *)
Theorem C05_hsm_reentrant_refines :
  forall (hm : Hsm.hmachine) (ev : env) (m : model) (fuel : nat) (e : event) (a : nat),
    no_acts ev ->
    forall p f, HReent.hrtrigger hm ev m (S fuel) e a p f =
                Hsm.trigger_event hm ev (mkCtx m a (Hsm.hm_send_event hm)) e p f.
Proof. intros hm ev m fuel e a NA. exact (HReentP.hrtrigger_refines hm ev m fuel e a NA). Qed.
Print Assumptions C05_hsm_reentrant_refines.
