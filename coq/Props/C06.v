(* C06 — locked machines serialize event processing under every thread schedule.
   The theorems are about the interleaving semantics of Model/Lock.v (the lock / ident protocol of
   transitions/extensions/locking.py) over an ABSTRACT machine: [start]/[resume]/[ret] are arbitrary, so
   every statement holds for every machine configuration (flat or hierarchical), every callback
   program (segments, nested calls from callbacks to any depth, any result including exceptions),
   every number of threads (thread ids are all naturals >= 1), every program per thread and every
   schedule (any list of thread ids; a blocked / finished thread's step is a no-op).
   PARTIAL: threading.Lock, get_ident and the GIL are assumed to behave as the mutex / thread identity /
   atomic reads and writes of the model.  Statements only. *)
From Coq Require Import List Arith Bool.
From M Require Import Lock LockIO.
From P Require Import LockP.
Import ListNotations.

Section C06.
  Context {MS K R I : Type}.
  Variable start : call -> K.
  Variable resume : K -> MS -> MS * list I * status (K:=K) (R:=R).
  Variable ret : K -> R -> K.
  Variable reg : MS -> nat -> option (list nat).    (* model_context_map, part of the machine state *)
  (* context managers are user code: __enter__ of context x may refuse (raise) for call c, __exit__ may raise after
     releasing; the theorems hold for EVERY such behaviour (all failure patterns) *)
  Variable cfail xfail : call -> ctx -> bool.
  Variable r_refused : call -> ctx -> R.
  Variable r_exit : call -> ctx -> R -> R.
  Variable cfg : lcfg.
  Hypothesis WF : wf_cfg cfg = true.
  Variable ms0 : MS.
  Variable progs : nat -> list call.

  (* reachable within the envelope: g = run sched (init progs ms0) for some schedule, and the ghost flag
     g_bad is down (no call entered with an empty context list - an event sent to an unregistered model of
     a LockedMachine - or with a context object configured twice) *)
  Notation reach := (reachable start resume ret reg cfail xfail r_refused r_exit cfg ms0 progs).
  Notation stp := (step start resume ret reg cfail xfail r_refused r_exit cfg).

  (* The protocol invariant holds in every such state: each thread's entered contexts are a prefix of the
     list it read when the call started (all of it while processing), nested activations hold nothing, a
     lock's owner / ident.current is exactly the thread that entered it. *)
  Theorem C06_invariant : forall sched,
    g_bad (run start resume ret reg cfail xfail r_refused r_exit cfg sched (init progs ms0)) = false ->
    Inv cfg (run start resume ret reg cfail xfail r_refused r_exit cfg sched (init progs ms0)).
  Proof. exact (@c06_invariant MS K R I start resume ret reg cfail xfail r_refused r_exit cfg WF ms0 progs). Qed.

  (* Mutual exclusion: at most one thread is between its first acquire and its last release; at most
     one thread executes segments (callbacks), it owns the first machine context and is ident.current. *)
  Theorem C06_mutex : forall g t1 t2, reach g -> t1 <> 0 -> t2 <> 0 ->
    (held g t1 <> [] -> held g t2 <> [] -> t1 = t2) /\
    (in_segment g t1 -> in_segment g t2 -> t1 = t2) /\
    (in_segment g t1 -> g_own g (L0 cfg) = t1 /\ g_ident g = t1).
  Proof. exact (@c06_mutex MS K R I start resume ret reg cfail xfail r_refused r_exit cfg WF ms0 progs). Qed.

  (* Serial equivalence: the completed top-level calls, in the order in which they acquired the machine,
     form a serial execution from the initial machine state with the same per-call results and item
     traces; when no call is in progress the machine state IS the final state of that serial execution
     and the acquisition order is exactly the completion order. *)
  Theorem C06_serial : forall g, reach g ->
    exists msk,
      serial_exec start resume ret (dcalls (g_done g)) ms0 msk (dress (g_done g)) /\
      ((forall t, t <> 0 -> t_cur (g_th g t) = None) -> g_ms g = msk /\ g_acq g = dpairs (g_done g)).
  Proof. exact (@serial_final MS K R I start resume ret reg cfail xfail r_refused r_exit cfg WF ms0 progs). Qed.

  (* ... and while a call is being processed, the machine state is an intermediate state of the purely
     sequential execution of that call started after the serial execution of the completed ones. *)
  Theorem C06_serial_in_progress : forall g t a k, reach g -> t <> 0 ->
    t_cur (g_th g t) = Some a -> a_phase a = PRun k ->
    exists msk n,
      serial_exec start resume ret (dcalls (g_done g)) ms0 msk (dress (g_done g)) /\
      seq_iter start resume ret n (Running [start (a_call a)] msk []) =
        Running (kstack (t_nest (g_th g t)) k) (g_ms g) (t_items (g_th g t)) /\
      g_acq g = dpairs (g_done g) ++ [(t, a_call a)].
  Proof. exact (@serial_mid MS K R I start resume ret reg cfail xfail r_refused r_exit cfg WF ms0 progs). Qed.

  (* ... and these are "the same calls": per thread, program = finished calls (in program order; g_fin marks
     each as processed or as refused by a context's __enter__) ++ the call in progress ++ the calls not yet
     started; a finished thread has finished exactly its program; the processed ones are exactly the calls of
     the serial execution - a refused call is unwound and nothing of it is processed. *)
  Theorem C06_same_calls : forall g t, reach g -> t <> 0 ->
    progs t = tcalls t (g_fin g) ++ pend (g_th g t) ++ t_prog (g_th g t) /\
    (thread_done (g_th g t) = true -> tcalls t (g_fin g) = progs t) /\
    dpairs (g_done g) = processed (g_fin g).
  Proof. exact (@c06_same_calls MS K R I start resume ret reg cfail xfail r_refused r_exit cfg ms0 progs). Qed.

  (* Re-entrancy: a call made from a callback by the thread that is inside touches no lock and not
     ident.current, starts processing at once, and the thread is not blocked. *)
  Theorem C06_reentrant : forall g tid a k ms' its c' k', reach g -> tid <> 0 ->
    top_act (g_th g tid) = Some a -> a_phase a = PRun k ->
    resume k (g_ms g) = (ms', its, SCall c' k') ->
    let g' := stp tid g in
    (forall l, g_own g' l = g_own g l) /\ g_ident g' = g_ident g /\
    top_act (g_th g' tid) = Some (mkAct c' (PRun (start c')) [] []) /\
    blocked cfail g' tid = false /\
    g_log g' = g_log g ++ [EvSeg tid (a_call a) its].
  Proof. exact (@c06_reentrant MS K R I start resume ret reg cfail xfail r_refused r_exit cfg WF ms0 progs). Qed.

  Theorem C06_reentrant_never_blocked : forall g t, reach g -> t <> 0 ->
    t_nest (g_th g t) <> [] -> blocked cfail g t = false.
  Proof. exact (@c06_reentrant_never_blocked MS K R I start resume ret reg cfail xfail r_refused r_exit cfg WF ms0 progs). Qed.

  (* Contexts.  (1) A top-level call reads its context list when it starts (the unlocked read of
     model_context_map next to the read of ident.current): machine contexts, then the contexts registered
     for the event's model at that moment; for LockedMachine this is exactly what the property demands. *)
  Theorem C06_entry_reads_configuration : forall (g : gstate) tid c rest,
    tid <> 0 -> t_nest (g_th g tid) = [] -> t_cur (g_th g tid) = None -> t_prog (g_th g tid) = c :: rest ->
    g_ident g <> tid -> ctxs_of reg cfg (g_ms g) c <> [] ->
    t_cur (g_th (stp tid g) tid) =
      Some (mkAct c (PAcq (ctxs_of reg cfg (g_ms g) c)) [] (ctxs_of reg cfg (g_ms g) c)) /\
    (cfg_hier cfg = false -> ctxs_of reg cfg (g_ms g) c = ctxs_spec reg cfg (g_ms g) c).
  Proof. exact (@entry_reads_configuration MS K R I start resume ret reg cfail xfail r_refused r_exit cfg). Qed.

  (* (2) no later step changes the call or that list while the activation exists *)
  Theorem C06_contexts_fixed : forall (g : gstate) tid t a, t_cur (g_th g t) = Some a ->
    match t_cur (g_th (stp tid g) t) with
    | Some a' => a_call a' = a_call a /\ a_ctxs a' = a_ctxs a
    | None => True
    end.
  Proof. exact (@a_ctxs_stable MS K R I start resume ret reg cfail xfail r_refused r_exit cfg). Qed.

  (* (3) while the call is processed every context of that list is held by the processing thread, and
     they were entered in the order of the list *)
  Theorem C06_contexts_held : forall g t a k, reach g -> t <> 0 ->
    t_cur (g_th g t) = Some a -> a_phase a = PRun k ->
    rev (a_held a) = a_ctxs a /\
    forall x, In x (a_ctxs a) -> holds g t x.
  Proof. exact (@c06_contexts_held_code MS K R I start resume ret reg cfail xfail r_refused r_exit cfg WF ms0 progs). Qed.

  (* at every moment the contexts entered so far are a prefix of the list (order) *)
  Theorem C06_contexts_order : forall g t a, reach g -> t <> 0 -> t_cur (g_th g t) = Some a ->
    exists suf, rev (a_held a) ++ suf = a_ctxs a.
  Proof. exact (@c06_contexts_order MS K R I start resume ret reg cfail xfail r_refused r_exit cfg WF ms0 progs). Qed.

  (* after the call (whatever its result r : R was - a value or an exception) nothing is held *)
  Theorem C06_contexts_released : forall g t, reach g -> t <> 0 -> t_cur (g_th g t) = None ->
    forall x, ~ holds g t x.
  Proof. exact (@c06_contexts_released MS K R I start resume ret reg cfail xfail r_refused r_exit cfg WF ms0 progs). Qed.

  (* No deadlock: unless every thread is finished, some thread can make a real step. *)
  Theorem C06_progress : forall g, reach g ->
    (exists t, t <> 0 /\ thread_done (g_th g t) = false) -> exists t', enabled cfail g t' = true.
  Proof. exact (@c06_progress MS K R I start resume ret reg cfail xfail r_refused r_exit cfg WF ms0 progs). Qed.
End C06.
Print Assumptions C06_invariant.
Print Assumptions C06_mutex.
Print Assumptions C06_serial.
Print Assumptions C06_serial_in_progress.
Print Assumptions C06_same_calls.
Print Assumptions C06_reentrant.
Print Assumptions C06_reentrant_never_blocked.
Print Assumptions C06_entry_reads_configuration.
Print Assumptions C06_contexts_fixed.
Print Assumptions C06_contexts_held.
Print Assumptions C06_contexts_order.
Print Assumptions C06_contexts_released.
Print Assumptions C06_progress.

(* The macro steps executed by the correspondence runner (Model/LockIO.v: one observable step followed by
   the steps that cannot be observed from outside) are ordinary schedules: every macro run is the run of
   some fine-grained schedule, hence covered by all theorems above. *)
Theorem C06_macro_runs_are_schedules : forall tab fails cfg msched (g : cgstate),
  exists sched, macro_run tab fails cfg msched g =
                run (c_start tab) (c_resume tab) c_ret c_reg (fail_at fails 1) (fail_at fails 2) c_refused c_exit cfg sched g.
Proof. exact macro_run_is_run. Qed.
Print Assumptions C06_macro_runs_are_schedules.

(* ------------------------------------------------------------------ a tiny concrete machine for witnesses:
   a call with id n consists of n+1 segments; the machine state counts segments; registrations are fixed *)
Definition w_start (c : call) : nat := c_id c.
Definition w_resume (k : nat) (ms : nat) : nat * list nat * status (K:=nat) (R:=nat) :=
  match k with 0 => (S ms, [k], SDone ms) | S k' => (S ms, [k], SMore k') end.
Definition w_ret (k : nat) (r : nat) : nat := k.
Definition nofail (c : call) (x : ctx) : bool := false.
Definition w_rr (c : call) (x : ctx) : nat := 99.
Definition w_rx (c : call) (x : ctx) (r : nat) : nat := 98.
Definition w_reg (ms : nat) (m : nat) : option (list nat) :=
  match m with 0 => Some [3] | 1 => Some [4; 5] | 2 => Some [] | _ => None end.

(* non-vacuity: two machine contexts and model contexts; two threads contending run to completion in
   serial order inside the envelope *)
Example C06_example :
  let cfg := mkCfg [1; 2] false in
  let progs := fun t => match t with 1 => [mkCall (KEvent 0) 1] | 2 => [mkCall (KEvent 1) 0; mkCall KMethod 0] | _ => [] end in
  let g := run w_start w_resume w_ret w_reg nofail nofail w_rr w_rx cfg (flat_map (fun _ => [1; 2]) (seq 0 30)) (init progs 0) in
  wf_cfg cfg = true /\ g_bad g = false /\ g_ms g = 4 /\
  g_acq g = [(1, mkCall (KEvent 0) 1); (2, mkCall (KEvent 1) 0); (2, mkCall KMethod 0)] /\
  map (fun d => d_res d) (g_done g) = [1; 2; 3] /\ thread_done (g_th g 1) = true /\ thread_done (g_th g 2) = true.
Proof. vm_compute. repeat split; reflexivity. Qed.

(* non-vacuity of the failure clause: the LAST context of thread 1's call (the model context, lock 3) refuses;
   the machine contexts and ident entered before it are released, nothing of the call is processed (g_ms only
   counts the 2 segments of thread 2's call), thread 2 gets through, nothing is held at the end *)
Example C06_refusal_example :
  let cfg := mkCfg [1; 2] false in
  let cf := fun (c : call) (x : ctx) => Nat.eqb (c_id c) 7 && ctx_eqb x (CLock 3) in
  let progs := fun t => match t with 1 => [mkCall (KEvent 0) 7] | 2 => [mkCall (KEvent 0) 1] | _ => [] end in
  let g := run w_start w_resume w_ret w_reg cf nofail w_rr w_rx cfg (flat_map (fun _ => [1; 2]) (seq 0 30)) (init progs 0) in
  g_bad g = false /\ g_ms g = 2 /\ g_fin g = [(1, mkCall (KEvent 0) 7, false); (2, mkCall (KEvent 0) 1, true)] /\
  g_acq g = [(2, mkCall (KEvent 0) 1)] /\ g_ident g = 0 /\ map (g_own g) [1; 2; 3] = [0; 0; 0] /\
  thread_done (g_th g 1) = true /\ thread_done (g_th g 2) = true.
Proof. vm_compute. repeat split; reflexivity. Qed.

(* KF-C06-1: on the hierarchical locked classes (event_cls = NestedEvent) the contexts of the event's
   model are never entered: a state reachable inside the envelope in which thread 1 is processing an
   event on model 0 while that model's context (lock 3) is free. *)
Theorem C06_contexts_held_hier_refuted :
  exists (cfg : lcfg) (progs : nat -> list call) (sched : list nat) (a : act (K:=nat) (R:=nat)) (k : nat),
    wf_cfg cfg = true /\ cfg_hier cfg = true /\
    let g := run w_start w_resume w_ret w_reg nofail nofail w_rr w_rx cfg sched (init progs 0) in
    g_bad g = false /\ t_cur (g_th g 1) = Some a /\ a_phase a = PRun k /\
    In (CLock 3) (ctxs_spec w_reg cfg (g_ms g) (a_call a)) /\ ~ holds g 1 (CLock 3).
Proof.
  exists (mkCfg [0] true),
         (fun t => match t with 1 => [mkCall (KEvent 0) 2] | _ => [] end),
         [1; 1; 1; 1],
         (mkAct (mkCall (KEvent 0) 2) (PRun 1) [CIdent; CLock 0] [CLock 0; CIdent]), 1.
  vm_compute. repeat split; try reflexivity.
  - right. right. left. reflexivity.
  - discriminate.
Qed.

(* KF-C06-2 (candidate): an event on ANOTHER model triggered from a callback by the thread that is inside
   takes the re-entrant path, so that model's contexts (locks 4, 5) are not entered while it is processed
   (probes/KF-C06-2.py).  C06_contexts_held is therefore about top-level calls. *)
Definition w2_resume (k : nat) (ms : nat) : nat * list nat * status (K:=nat) (R:=nat) :=
  match k with
  | 0 => (S ms, [k], SDone ms)
  | 5 => (S ms, [k], SCall (mkCall (KEvent 1) 1) 0)
  | S k' => (S ms, [k], SMore k')
  end.

Theorem C06_contexts_held_nested_refuted :
  exists (cfg : lcfg) (progs : nat -> list call) (sched : list nat) (a : act (K:=nat) (R:=nat)) (k : nat),
    wf_cfg cfg = true /\ cfg_hier cfg = false /\
    let g := run w_start w2_resume w_ret w_reg nofail nofail w_rr w_rx cfg sched (init progs 0) in
    g_bad g = false /\ top_act (g_th g 1) = Some a /\ a_phase a = PRun k /\ a_call a = mkCall (KEvent 1) 1 /\
    In (CLock 4) (ctxs_spec w_reg cfg (g_ms g) (a_call a)) /\ ~ holds g 1 (CLock 4).
Proof.
  exists (mkCfg [0] false),
         (fun t => match t with 1 => [mkCall (KEvent 0) 5] | _ => [] end),
         [1; 1; 1; 1; 1],
         (mkAct (mkCall (KEvent 1) 1) (PRun 1) [] []), 1.
  vm_compute. repeat split; try reflexivity.
  - right. right. left. reflexivity.
  - discriminate.
Qed.

(* KF-C06-3 (candidate): an event sent to a model that is not registered (after remove_model) finds an
   empty context list on LockedMachine and is processed without the machine lock: outside the envelope
   (g_bad is raised) mutual exclusion fails - two threads execute segments at the same time
   (probes/KF-C06-3.py).  This is why the theorems carry the hypothesis g_bad = false. *)
Theorem C06_mutex_unregistered_refuted :
  exists (cfg : lcfg) (progs : nat -> list call) (sched : list nat),
    wf_cfg cfg = true /\ cfg_hier cfg = false /\
    let g := run w_start w_resume w_ret w_reg nofail nofail w_rr w_rx cfg sched (init progs 0) in
    g_bad g = true /\ in_segment g 1 /\ in_segment g 2.
Proof.
  exists (mkCfg [0] false),
         (fun t => match t with 1 => [mkCall (KEvent 0) 3] | 2 => [mkCall (KEvent 9) 3] | _ => [] end),
         [1; 1; 1; 1; 2].
  vm_compute. repeat split; try reflexivity; eexists; eexists; split; reflexivity.
Qed.

(* KF-C06-4 (candidate): the context list is read UNLOCKED when the call starts (C06_entry_reads_configuration)
   and never changes (C06_contexts_fixed).  If, while the thread waits for the machine contexts, another
   thread re-registers the model with other contexts (remove_model + add_model), the event is processed under
   the OLD list: inside the envelope, a state in which thread 1 processes an event on model 0 holding lock 3
   while the contexts configured for model 0 in the current machine state are [5], and lock 5 is free
   (probes/KF-C06-4.py).  So C06_contexts_held is about the list read at entry, not about the registration
   in force during processing. *)
Definition w3_reg (ms : nat) (m : nat) : option (list nat) :=
  match m with 0 => if Nat.ltb ms 2 then Some [3] else Some [5] | _ => None end.

Theorem C06_contexts_stale_refuted :
  exists (cfg : lcfg) (progs : nat -> list call) (sched : list nat) (a : act (K:=nat) (R:=nat)) (k : nat),
    wf_cfg cfg = true /\ cfg_hier cfg = false /\
    let g := run w_start w_resume w_ret w3_reg nofail nofail w_rr w_rx cfg sched (init progs 0) in
    g_bad g = false /\ t_cur (g_th g 1) = Some a /\ a_phase a = PRun k /\
    holds g 1 (CLock 3) /\
    In (CLock 5) (ctxs_spec w3_reg cfg (g_ms g) (a_call a)) /\ ~ holds g 1 (CLock 5).
Proof.
  exists (mkCfg [0] false),
         (fun t => match t with 1 => [mkCall (KEvent 0) 2] | 2 => [mkCall KMethod 1] | _ => [] end),
         [1; 2; 2; 2; 2; 2; 2; 2; 1; 1; 1],
         (mkAct (mkCall (KEvent 0) 2) (PRun 2) [CLock 3; CIdent; CLock 0] [CLock 0; CIdent; CLock 3]), 2.
  vm_compute. repeat split; try reflexivity.
  - right. right. left. reflexivity.
  - discriminate.
Qed.
Print Assumptions C06_example.
Print Assumptions C06_refusal_example.
Print Assumptions C06_contexts_stale_refuted.
Print Assumptions C06_contexts_held_hier_refuted.
Print Assumptions C06_contexts_held_nested_refuted.
Print Assumptions C06_mutex_unregistered_refuted.
