(* C17 — State timeouts fire once, on time, and only while the state is still active.
   Statements only; each is closed by [exact] of a lemma proved in Proofs/TimerP.v.

   Model (M.Timer): a flat machine decorated with Timeout (threads) or AsyncTimeout (asyncio), any
   states / timeouts / callback lists / transitions (reflexive, internal, failing conditions), any number
   of models, queued or not; on_timeout callbacks may trigger events (on the timed-out or on another
   model) and may raise.  A history is any list of `HEvent model event | HAdvance dt | HSetTimeout state v`
   under an integer clock; HSetTimeout is the
   reconfiguration `machine.get_state(state).timeout = v` at run time (v = 0 switches the timeout off): the
   attribute is read when a state is ENTERED (a timer that is running keeps its deadline), and exit
   cancels the model's timer whatever the attribute says by then; `HSetHandlers state l` changes the
   state's on_timeout list at run time: the timer is armed on every entry with timeout > 0 whatever the
   list holds then, and the handlers registered when it EXPIRES are the ones that run.  The timer objects, the runner dictionary state -> id(model) -> timer, start / cancel /
   is_alive and the overwrite of the runner entry are modelled as the code has them.
   PARTIAL: that threading.Timer / asyncio.sleep call back at the deadline is ASSUMED — it is the
   definition of [tick] (timers due at an instant run at that instant, in creation order, before an
   event the caller issues at the same instant).
   Specification (M.TimerSpec): [spec_C17], a checker over the marker items of a trace. *)
From Coq Require Import List Arith Bool.
From M Require Import Timer TimerSpec.
From P Require Import TimerP.
Import ListNotations.

(* The property over complete traces, for EVERY configuration inside the guard, number of models, initial
   state and timed history.  Guard (TimerSpec.guard_C17): on an UNQUEUED machine the events triggered by
   on_exit callbacks are inert in the state they are attached to (unknown / invalid / failing condition /
   internal) — any other such trigger re-runs the exit of the same state for ever (RecursionError in
   Python, out of fuel here); queued machines: no restriction; on_enter callbacks: no restriction (they
   may leave the state at once, re-enter it, ... to any depth).
   spec_C17 (TimerSpec.v) says, reading the trace from left to right (TExited / TEntered mark the
   changes of the model's state attribute):
   - a model whose state becomes s at time t with timeout(s) = d > 0 has an outstanding timeout with
     deadline t + d; re-entering — also s itself through a reflexive transition — starts a fresh one;
   - a timeout handler runs (TFired m s t') only for a model with an outstanding timeout in s and only
     at t' = its deadline, and that uses the timeout up: exactly at t + d, at most once per stay, never
     after the stay has ended (also when an on_enter callback of s itself ended it), never for another
     model's stay;
   - when the model leaves s an outstanding timeout must not be overdue and is dropped: it can never
     fire later;
   - when the caller issues an event at time t (TUser), and at the end of the history, no model has an
     outstanding timeout with deadline <= t: every timeout that came due while the model stayed has
     fired — at least once;
   - internal transitions produce no marker, so they neither restart nor stop a period; the bookkeeping
     is per model, so timers of different models do not interact;
   - timeout(s) is the value of the attribute when s is entered (TSetTimeout markers): reassigning it
     neither moves nor protects the timeout of a stay that is under way. *)
Theorem C17_once_on_time : forall (c : tcfg) (nm : nat) (s0 : tstate) (h : list top),
  guard_C17 c = true ->
  spec_C17 c nm s0 (run_trace c (init_world c s0) h) (w_clock (run_world c (init_world c s0) h)) = true.
Proof. exact timed_spec. Qed.
Print Assumptions C17_once_on_time.

(* Non-vacuity: two models; the timeout handler of state 0 moves its model to state 1, whose on_enter
   callback leaves state 1 AT ONCE (to 2): the timer of state 1, started before the callback ran, is
   cancelled by that exit and never fires; the on_exit callback of state 0 triggers an event that is
   internal in state 0.  Unqueued (nested) and queued (deferred) machines are inside the guard and give
   the same markers; spec_C17 is not constantly true. *)
Definition ex_cfg (queued : bool) : tcfg :=
  mkTC false queued
       [(0, mkTS 3 [mkOcb 1 None false; mkOcb 2 (Some (None, 0)) false] [] [mkEcb 6 (Some 3)]);
        (1, mkTS 2 [mkOcb 3 None false] [mkEcb 5 (Some 2)] []); (2, ts_default)]
       [mkTT 0 0 (Some 1) true; mkTT 1 2 (Some 0) true; mkTT 2 1 (Some 2) true; mkTT 3 0 None true] true [].
Definition ex_hist : list top :=
  [HEvent 0 1; HAdvance 1; HEvent 1 1; HEvent 0 3; HAdvance 2; HAdvance 1; HEvent 1 0; HAdvance 4].
Definition markers (l : list titem) : list titem :=
  filter (fun it => match it with TExited _ _ _ | TEntered _ _ _ | TFired _ _ _ => true | _ => false end) l.
Definition ex_markers : list titem :=
  [TExited 0 2 0; TEntered 0 0 0; TExited 1 2 1; TEntered 1 0 1;
   TFired 0 0 3; TExited 0 0 3; TEntered 0 1 3; TExited 0 1 3; TEntered 0 2 3;
   TFired 1 0 4; TExited 1 0 4; TEntered 1 1 4; TExited 1 1 4; TEntered 1 2 4].
Example C17_nonvacuous :
  guard_C17 (ex_cfg false) = true /\ guard_C17 (ex_cfg true) = true /\
  markers (run_trace (ex_cfg false) (init_world (ex_cfg false) 2) ex_hist) = ex_markers /\
  markers (run_trace (ex_cfg true) (init_world (ex_cfg true) 2) ex_hist) = ex_markers /\
  spec_C17 (ex_cfg false) 2 2 (run_trace (ex_cfg false) (init_world (ex_cfg false) 2) ex_hist) 8 = true /\
  spec_C17 (ex_cfg false) 2 2 [TExited 0 2 0; TEntered 0 0 0] 8 = false /\                         (* never fired *)
  spec_C17 (ex_cfg false) 2 2 [TExited 0 2 0; TEntered 0 0 0; TFired 0 0 4] 8 = false /\           (* late *)
  spec_C17 (ex_cfg false) 2 2 [TExited 0 2 0; TEntered 0 0 0; TFired 0 0 3; TFired 0 0 3] 8 = false /\  (* twice *)
  spec_C17 (ex_cfg false) 2 2 [TExited 0 2 0; TEntered 0 0 0; TExited 0 0 1; TEntered 0 2 1; TFired 0 0 3] 8 = false /\
                                                                                                   (* after leaving *)
  spec_C17 (ex_cfg false) 2 2 [TExited 0 2 0; TEntered 0 0 0; TFired 0 0 3; TExited 0 0 3; TEntered 0 1 3;
                               TExited 0 1 3; TEntered 0 2 3; TFired 0 1 5] 8 = false /\
                                                          (* the timer of a state left by its own on_enter callback *)
  spec_C17 (ex_cfg false) 2 2 [TExited 0 2 0; TEntered 0 0 0; TFired 1 0 3] 8 = false.             (* wrong model *)
Proof. vm_compute. repeat split. Qed.
Print Assumptions C17_nonvacuous.

(* Reconfiguration at run time: model 0 enters state 0 (timeout 3) at 0; at 1 the timeout of state 0 is set
   to 0; at 2 the model leaves (internal event first: no effect) — the running timer is cancelled by that
   exit and nothing fires at 3; model 1 entered state 0 at 1 BEFORE the reassignment and stays: its timer
   keeps its deadline 4; entering state 0 at 5 with timeout 0 starts none; after setting it to 2 an entry at
   6 fires at 8.  The checker rejects a firing at 3 for the stay that ended at 2. *)
Definition rc_cfg : tcfg :=
  mkTC false false [(0, mkTS 3 [mkOcb 1 None false] [] []); (1, ts_default)]
       [mkTT 0 1 (Some 0) true; mkTT 1 0 (Some 1) true; mkTT 2 0 None true] true [].
Definition rc_hist : list top :=
  [HEvent 0 0; HAdvance 1; HEvent 1 0; HSetTimeout 0 0; HAdvance 1; HEvent 0 2; HEvent 0 1; HAdvance 3;
   HEvent 0 0; HSetTimeout 0 2; HAdvance 1; HEvent 0 1; HEvent 0 0; HAdvance 3].
Example C17_reconfigured :
  filter (fun it => match it with TFired _ _ _ | TSetTimeout _ _ _ => true | _ => false end)
         (run_trace rc_cfg (init_world rc_cfg 1) rc_hist) =
    [TSetTimeout 0 0 1; TFired 1 0 4; TSetTimeout 0 2 5; TFired 0 0 8] /\
  spec_C17 rc_cfg 2 1 (run_trace rc_cfg (init_world rc_cfg 1) rc_hist) 9 = true /\
  spec_C17 rc_cfg 2 1 [TExited 0 1 0; TEntered 0 0 0; TSetTimeout 0 0 1; TExited 0 0 2; TEntered 0 1 2;
                       TFired 0 0 3] 3 = false /\
  spec_C17 rc_cfg 2 1 [TExited 0 1 0; TEntered 0 0 0; TSetTimeout 0 0 1] 3 = false.   (* a running timer is not dropped *)
Proof. vm_compute. repeat split. Qed.
Print Assumptions C17_reconfigured.

(* Handlers changed during the visit: state 0 (timeout 3) is created with an EMPTY on_timeout list; model 0
   enters it at 0 — the timer is armed all the same —, a handler is registered at 1 and runs at 3; the next
   stay (from 3) has its handler removed at 4: the timeout still expires at 6 (marker) but nothing is called;
   [fire] runs what [w_ot] holds when the timer expires. *)
Definition hd_cfg : tcfg :=
  mkTC true false [(0, mkTS 3 [] [] []); (1, ts_default)]
       [mkTT 0 1 (Some 0) true; mkTT 0 0 (Some 0) true] true [].
Definition hd_hist : list top :=
  [HEvent 0 0; HAdvance 1; HSetHandlers 0 [mkOcb 7 None false; mkOcb 8 (Some (None, 0)) false]; HAdvance 3;
   HSetHandlers 0 []; HAdvance 3].
Example C17_handlers_changed :
  filter handler_kind (run_trace hd_cfg (init_world hd_cfg 1) hd_hist) =
    [TFired 0 0 3; CTimeout 7 0 0 3; CTimeout 8 0 0 3; TFired 0 0 6] /\
  spec_C17 hd_cfg 1 1 (run_trace hd_cfg (init_world hd_cfg 1) hd_hist) 7 = true.
Proof. vm_compute. split; reflexivity. Qed.
Print Assumptions C17_handlers_changed.

(* Outside the guard the statement is false of the model: an unqueued on_exit callback that triggers a
   state-changing event recurses until the fuel is gone (Python: RecursionError — there is no run of the
   library to compare with); every unwinding level then enters the destination again without the exit
   that would cancel the previous level's timer. *)
Definition bad_cfg : tcfg :=
  mkTC false false [(0, mkTS 0 [] [] [mkEcb 1 (Some 0)]); (1, mkTS 2 [mkOcb 2 None false] [] [])]
       [mkTT 0 0 (Some 1) true] true [].
Theorem C17_guard_needed : exists (c : tcfg) (h : list top),
  guard_C17 c = false /\
  spec_C17 c 1 0 (run_trace c (init_world c 0) h) (w_clock (run_world c (init_world c 0) h)) = false.
Proof. exists bad_cfg, [HEvent 0 0; HAdvance 3]. vm_compute. split; reflexivity. Qed.
Print Assumptions C17_guard_needed.

(* The invariant behind it, after every history: every pending timer belongs to the state its model is
   in now, is the timer registered for that model in that state's runner dictionary (so there is at most
   one per model, none for a state the model has left, and the runner entry is always the latest timer),
   and its deadline lies in the future. *)
Theorem C17_invariant : forall (c : tcfg) (s0 : tstate) (h : list top),
  guard_C17 c = true -> Inv true (run_world c (init_world c s0) h).
Proof. exact inv_reachable. Qed.
Print Assumptions C17_invariant.

(* The timer bookkeeping of ONE state change, [switch] = Timeout.exit's cancel, Machine.set_state,
   Timeout.enter's start — what Transition._change_state does between the on_exit and the on_enter
   callbacks ([change_state] in Timer.v) — from any world satisfying the invariant, i.e. also after any
   reassignment of timeout attributes ([w_tout w] is the CURRENT table; [cancel_slot] never consults it):

   Never if left: the only timer that can be pending for m afterwards is the one created by this very
   entry (position = number of timers that existed before): the timer of the state that was left is not
   pending any more, and only pending timers are ever run ([fire_due]).  It exists BEFORE the on_enter
   callbacks of d run, so a callback that leaves d finds and cancels it. *)
Theorem C17_never_if_left :
  forall (b : bool) (c : tcfg) (w : world) (m : tmodel) (d : tstate),
  Inv b w ->
  forall j tm, pend (snd (switch c w m d)) j tm -> tm_model tm = m ->
    j = length (w_timers w) /\ tm_state tm = d /\ tm_deadline tm = w_clock w + w_tout w d.
Proof. exact never_if_left_local. Qed.
Print Assumptions C17_never_if_left.

(* Restart: whatever deadline was outstanding for m before, after the change into d (also d = the current
   state) the outstanding deadline of m is now + timeout(d) (none if d has no timeout) ... *)
Theorem C17_restart : forall (b : bool) (c : tcfg) (w : world) (m : tmodel) (d : tstate),
  Inv b w -> armed (snd (switch c w m d)) m = period (w_tout w) d (w_clock w).
Proof. exact restart_local. Qed.
Print Assumptions C17_restart.

(* ... and an internal transition changes nothing at all (no exit, no enter, no timer). *)
Theorem C17_internal : forall (rec : rec_t) (c : tcfg) (w : world) (q : queue) (m : tmodel) (e : tevent) (t : ttrans),
  event_known c e = true -> first_ok (cands c e (w_st w m)) = Some t -> tt_dst t = None ->
  step rec c w q m e = ([], w, q, RTrue).
Proof. exact internal_local. Qed.
Print Assumptions C17_internal.

(* Per model: a state change of model m changes neither the state nor the outstanding deadline of any
   other model, also when both are in the same state. *)
Theorem C17_per_model : forall (b : bool) (c : tcfg) (w : world) (m : tmodel) (d : tstate) (m' : tmodel),
  Inv b w -> m' <> m ->
  armed (snd (switch c w m d)) m' = armed w m' /\ w_st (snd (switch c w m d)) m' = w_st w m'.
Proof. exact per_model_local. Qed.
Print Assumptions C17_per_model.

(* Validation: building the states raises AttributeError iff some state has timeout > 0 and is not
   given the keyword on_timeout. *)
Theorem C17_validation : forall (l : list (bool * tsdef)),
  build l = if existsb (fun p => Nat.ltb 0 (ts_timeout (snd p)) && negb (fst p)) l
            then Some XAttribute else None.
Proof. exact build_spec. Qed.
Print Assumptions C17_validation.

(* asyncio, shield: a firing logs EVERY on_timeout callback of the state, in order, with the state and
   time of the firing — although the transition triggered by one of them exits the state and cancels the
   very timer whose handler is running (and whatever the callbacks of that transition trigger in turn).
   (callback ids are positive: 0 stands for MachineError in on_exception items) *)
Theorem C17_async_shield : forall (b : bool) (c : tcfg) (w : world) (i : nat) (tm : timer),
  tc_async c = true -> Inv b w -> pend w i tm -> ids_positive (w_ot w) (tm_state tm) = true ->
  filter is_ctimeout (fst (fire c w i tm)) =
    map (fun cb => CTimeout (oc_id cb) (tm_model tm) (tm_state tm) (w_clock w))
        (w_ot w (tm_state tm)).
Proof. exact async_shield. Qed.
Print Assumptions C17_async_shield.

(* asyncio, exceptions: the machine's on_exception callbacks run for the model, with the first failing
   on_timeout callback, iff one failed — each exactly once.  [oc_raise] stands for a failure of ANY kind
   (Exception, another BaseException, asyncio.CancelledError raised by awaiting a cancelled task): the
   correspondence check raises all three. *)
Theorem C17_async_exception : forall (b : bool) (c : tcfg) (w : world) (i : nat) (tm : timer),
  tc_async c = true -> Inv b w -> pend w i tm -> ids_positive (w_ot w) (tm_state tm) = true ->
  filter is_user_onexc (fst (fire c w i tm)) =
    match first_raising (w_ot w (tm_state tm)) with
    | Some k => map (fun h => COnExc h (tm_model tm) k (w_clock w)) (tc_onexc c)
    | None => []
    end.
Proof. exact async_exception. Qed.
Print Assumptions C17_async_exception.
