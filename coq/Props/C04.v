(* C04 — a failing callback is contained: outcome, state, usability at any crash point.
   Flat engine (transitions/core.py).  Statements only. *)
From Coq Require Import List Arith Bool.
From M Require Import Base Flat FlatSpec.
From P Require Import FlatP FlatOrder FlatCrash.
From M Require Hsm.
From P Require CrashGen HsmCrash HsmReach HsmTotal.
Import ListNotations.

(* single_raise ev k e : the callback invoked at position k raises e (an Exception or a
   BaseException subclass), no other callback raises.  Quantifying over k quantifies over
   every position of every trace.  b/st'/res are the documented trace before finalize, the
   state and the result of the non-failing run (C01). *)
Theorem C04_crash_point :
  forall (mc : machine) (c : ctx) (ev : env) (k : nat) (e : exn) (ts : list trans) (p : nat) (cur : state),
    single_raise ev k e ->
    registered mc cur = true -> wf_trans mc ts = true -> candidates ts cur <> [] ->
    let r := spec_body mc ev c ts cur p in
    let b := fst (fst r) in let st' := snd (fst r) in let res := snd r in
    let fin := items ev c SFinalize None st' (m_finalize mc) (p + length b) in
    (* (1) failure at any stage before finalize: nothing of a later stage runs; the
       on_exception handlers (if any) see the error, then every finalize callback runs once;
       the exception reaches the caller iff there is no handler; the state is the one the
       failing callback saw (source up to exit, destination from enter on — C01), no rollback *)
    (p <= k < p + length b ->
       let s_at := it_state (nth (k - p) b dummy_item) in
       let h := items ev c SOnException (Some e) s_at (m_on_exception mc) (S k) in
       let f := items ev c SFinalize (Some e) s_at (m_finalize mc) (S k + length h) in
       trigger_event mc ev c ts p cur =
         (firstn (k - p + 1) b ++ h ++ f, s_at,
          match m_on_exception mc with [] => inl e | _ => inr false end)) /\
    (* (2) failure inside a finalize callback: it never replaces the outcome *)
    (p + length b <= k < p + length b + length fin ->
       trigger_event mc ev c ts p cur = (b ++ firstn (k - (p + length b) + 1) fin, st', inr res)) /\
    (* (3) the failing position belongs to another event: this one is unaffected *)
    (k < p \/ p + length b + length fin <= k ->
       trigger_event mc ev c ts p cur = (b ++ fin, st', inr res)).
Proof. exact crash_valid. Qed.
Print Assumptions C04_crash_point.

(* The event is invalid in the current state: MachineError is the failure being handled. *)
Theorem C04_crash_while_handling :
  forall (mc : machine) (c : ctx) (ev : env) (k : nat) (e : exn) (ts : list trans) (p : nat) (cur : state),
    single_raise ev k e ->
    registered mc cur = true -> candidates ts cur = [] ->
    ignores mc (sdef_of mc cur) = false ->
    let h := items ev c SOnException (Some MachineError) cur (m_on_exception mc) p in
    let fin := items ev c SFinalize (Some MachineError) cur (m_finalize mc) (p + length h) in
    (p <= k < p + length h ->
       trigger_event mc ev c ts p cur =
         (firstn (k - p + 1) h ++ items ev c SFinalize (Some MachineError) cur (m_finalize mc) (S k),
          cur, inl e)) /\
    (p + length h <= k < p + length h + length fin ->
       trigger_event mc ev c ts p cur =
         (h ++ firstn (k - (p + length h) + 1) fin, cur,
          match m_on_exception mc with [] => inl MachineError | _ => inr false end)).
Proof. exact crash_invalid. Qed.
Print Assumptions C04_crash_while_handling.

Theorem C04_crash_ignored_invalid :
  forall (mc : machine) (c : ctx) (ev : env) (k : nat) (e : exn) (ts : list trans) (p : nat) (cur : state),
    single_raise ev k e ->
    registered mc cur = true -> candidates ts cur = [] ->
    ignores mc (sdef_of mc cur) = true ->
    let fin := items ev c SFinalize None cur (m_finalize mc) p in
    (p <= k < p + length fin ->
       trigger_event mc ev c ts p cur = (firstn (k - p + 1) fin, cur, inr false)).
Proof. exact crash_invalid_ignored. Qed.
Print Assumptions C04_crash_ignored_invalid.

(* ---------- hierarchical machines (nesting.py) ---------- *)
(* For every hierarchical machine (any state tree, parallel regions, global and local
   transitions), every configuration, event and every position k of the trace b that the
   dispatch of the event produces (b, st', r0: what the non-raising twin of the environment
   does inside the try block — r0 may itself be MachineError/AttributeError): if the callback
   at position k raises e, nothing after it runs except the on_exception handlers (iff
   registered, seeing e) and every finalize callback once; the exception reaches the caller
   iff there is no handler; the configuration is the one the failing callback saw. *)
Theorem C04_hsm_crash_point :
  forall (hm : Hsm.hmachine) (c : ctx) (ev : env) (k : nat) (e : exn) (ev_id : event) (p : nat) (f : Hsm.forest) b st' r0,
    CrashGen.single_raise ev k e ->
    HsmCrash.hbody hm c (CrashGen.strip ev) ev_id p f = (b, st', r0) ->
    p <= k < p + length b ->
    let s_at := it_state (nth (k - p) b HsmCrash.dummy_h) in
    let h := CrashGen.gitems ev c SOnException (Some e) s_at (Hsm.hm_on_exception hm) (S k) in
    let fin := CrashGen.gitems ev c SFinalize (Some e) s_at (Hsm.hm_finalize hm) (S k + length h) in
    Hsm.trigger_event hm ev c ev_id p f =
      (firstn (k - p + 1) b ++ h ++ fin, s_at,
       match Hsm.hm_on_exception hm with [] => inl e | _ => inr false end).
Proof. exact HsmCrash.hsm_crash. Qed.
Print Assumptions C04_hsm_crash_point.

(* a raising finalize callback never replaces the outcome *)
Theorem C04_hsm_crash_finalize :
  forall (hm : Hsm.hmachine) (c : ctx) (ev : env) (k : nat) (e : exn) (ev_id : event) (p : nat) (f : Hsm.forest) b st' res,
    CrashGen.single_raise ev k e ->
    HsmCrash.hbody hm c (CrashGen.strip ev) ev_id p f = (b, st', inr res) ->
    let fin := CrashGen.gitems ev c SFinalize None st' (Hsm.hm_finalize hm) (p + length b) in
    p + length b <= k < p + length b + length fin ->
    Hsm.trigger_event hm ev c ev_id p f = (b ++ firstn (k - (p + length b) + 1) fin, st', inr res).
Proof. exact HsmCrash.hsm_crash_finalize. Qed.
Print Assumptions C04_hsm_crash_finalize.

(* "the machine is fully usable afterwards": whatever any callback raises at whatever position (no hypothesis on
   the environment), the configuration a hierarchical trigger leaves behind is good - unique sibling names, only
   registered states - so it is a configuration from which C03_no_internal_error / C03_history_no_internal_error
   (Props/C03.v) apply again: the continuation can only return booleans or raise the invalid-trigger error (or what
   its own callbacks raise).  The model has no other state than the configuration; that the implementation has
   none either (scope stack, prefix of state names) is what the survivor streams of the harness check. *)
Theorem C04_hsm_survivor_good :
  forall (hm : Hsm.hmachine) (ev : env) (c : ctx) (e : event) (p : nat) (f : Hsm.forest) tr f' r,
    HsmReach.wf_defs hm = true -> HsmTotal.good hm f ->
    Hsm.trigger_event hm ev c e p f = (tr, f', r) -> HsmTotal.good hm f'.
Proof. exact HsmTotal.any_env_good. Qed.
Print Assumptions C04_hsm_survivor_good.
