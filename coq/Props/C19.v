(* C19 — State feature mixins keep their contracts on every machine class.
   Statements only; each is closed by [exact] of a lemma proved in Proofs/FeaturesP.v.

   Model (M.Features): a machine decorated with @add_state_features(order...), any number
   of states with arbitrary feature arguments, condition-free transitions, any number of
   models; [fstep c w m e] is model m triggering event e in world w.  [c_order c] is ANY
   list of the mixins Tags / Error / Volatile / Retry (every subset, every order); the only
   requirement is that Python can build the class at all ([feat_nodup], and for wf_cfg also
   "Tags not before Error": otherwise add_state_features raises TypeError, which the model
   and the correspondence check reproduce).
   Specification (M.FeaturesSpec): [spec_step], written without reference to the order. *)
From Coq Require Import List Arith Bool.
From M Require Import Features FeaturesSpec FeaturesH FeaturesDyn FeaturesRe FeaturesFinal FeaturesKinds.
From P Require Import FeaturesP FeaturesHP FeaturesDynP FeaturesReP.
Import ListNotations.

(* Tags: is_<tag> answers True exactly for the state's tags (plus 'accepted', tag 0, when an
   Error state was built with accepted=True); without Tags/Error in the decorator the
   attribute does not exist. *)
Theorem C19_tags : forall (c : fcfg) (s : fstate_id) (t : ftag),
  tag_answer c s t =
    if has_tags (c_order c)
    then Some (nat_mem t (fs_tags (sdef c s)) ||
               (Nat.eqb t 0 && has_error (c_order c) && fs_accepted (sdef c s)))
    else None.
Proof. exact tags_spec. Qed.
Print Assumptions C19_tags.

(* Error: for every order of the mixins, every world, every call that selects a transition
   into d: MachineError is raised on entry iff Error is among the mixins and d has no outgoing
   transition and is not accepted; when it is raised no enter callback and no on_failure ran
   (the trace is the source's exit callbacks); the model's state is d either way. *)
Theorem C19_error_iff : forall (c : fcfg) (w : world) (m : fmodel) (e : fevent) (t : ftrans) (d : fstate_id),
  feat_nodup (c_order c) = true ->
  first_cand (c_trans c) e (m_state (w_m w m)) = Some t -> ft_dst t = Some d ->
  (obs_res (fstep c w m e) = RExn EMachine <->
   has_error (c_order c) && is_error_state c d = true) /\
  (obs_res (fstep c w m e) = RExn EMachine ->
   obs_trace (fstep c w m e) = exit_items c m (m_state (w_m w m))) /\
  obs_state m (fstep c w m e) = d.
Proof. exact error_iff. Qed.
Print Assumptions C19_error_iff.

(* All contracts on traces at once, for every order, every history over any number of models:
   per call the callback trace, the result / exception and every model's state are those of
   the order-independent specification: exit callbacks of the source, then nothing (Error
   raised) / on_failure alone (retries exhausted: more than [retries] consecutive entries of
   this model into this state, counted from its last entry from another state) / the enter
   callbacks.  The per-(state, model) counters of the code collapse to one streak per model. *)
Theorem C19_retry_spec : forall (c : fcfg) (h : list (fmodel * fevent)) (s0 : fstate_id) (m : fmodel),
  feat_nodup (c_order c) = true ->
  map (obs_core m) (frun c (init_world s0) h) = map (sobs_core m) (spec_run c (spec_init s0) h).
Proof. exact contracts_run. Qed.
Print Assumptions C19_retry_spec.

(* Retry, counted: from ANY world, model m enters d from another state (event e0) and then
   re-enters it j times through d -> d (event e); the next re-entry runs the enter callbacks
   iff retries = 0 or j < retries, and on_failure instead of them otherwise: exactly
   [retries] consecutive self re-entries are admitted, whatever was counted before. *)
Theorem C19_retry_exact :
  forall (c : fcfg) (w : world) (m : fmodel) (e0 e : fevent) (d : fstate_id) (t0 t : ftrans),
  feat_nodup (c_order c) = true -> has_retry (c_order c) = true ->
  m_state (w_m w m) <> d ->
  first_cand (c_trans c) e0 (m_state (w_m w m)) = Some t0 -> ft_dst t0 = Some d ->
  first_cand (c_trans c) e d = Some t -> ft_dst t = Some d ->
  forall j : nat,
    obs_trace (fstep c (after c w m e0 e j) m e) =
      exit_items c m d ++
      (if Nat.ltb 0 (fs_retries (sdef c d)) && Nat.leb (fs_retries (sdef c d)) j
       then fail_items c m d else enter_items c m d).
Proof. exact retry_exact. Qed.
Print Assumptions C19_retry_exact.

(* Volatile: under the guard "no mixin that can cut the enter chain precedes Volatile"
   (Retry only if no state has retries > 0, Error only if no state is an error state), after
   every history every model holds, under the hook name of its current state, exactly the
   object created at its latest entry (a fresh one: numbered by the count of entries so
   far), and nothing under any other hook name (removed on exit); nothing at all if it never
   entered a state or Volatile is not among the mixins. *)
Theorem C19_volatile :
  forall (c : fcfg) (h : list (fmodel * fevent)) (s0 : fstate_id) (m : fmodel) (hk : fhook),
  wf_cfg c = true -> vol_guard c = true ->
  m_hooks (w_m (frun_world c (init_world s0) h) m) hk =
  spec_hooks c (sw_m (spec_run_world c (spec_init s0) h) m) hk.
Proof. exact volatile_final. Qed.
Print Assumptions C19_volatile.

(* the guard and wf are satisfiable by a machine using every mixin with retries and an error state *)
Definition ex_cfg : fcfg :=
  mkCfg [FVolatile; FError; FRetry]
        [(0, mkFS [1] [2] [3] false 1 2 (Some 9)); (1, mkFS [3] [] [] false 0 0 None)]
        [mkFT 0 0 (Some 0); mkFT 1 0 (Some 1)] false.
Example C19_volatile_nonvacuous :
  wf_cfg ex_cfg = true /\ vol_guard ex_cfg = true /\
  map (obs_core 0) (frun ex_cfg (init_world 0) [(0, 0); (0, 0); (0, 0); (0, 0); (0, 1)]) =
    [([IExit 2 0 0; IEnter 1 0 0], RTrue, 0); ([IExit 2 0 0; IEnter 1 0 0], RTrue, 0);
     ([IExit 2 0 0; IEnter 1 0 0], RTrue, 0); ([IExit 2 0 0; IFail 9 0 0], RTrue, 0);
     ([IExit 2 0 0], RExn EMachine, 1)].
Proof. vm_compute. repeat split. Qed.
Print Assumptions C19_volatile_nonvacuous.

(* Without the guard the statement is false of the faithful model (known finding KF-C19-1):
   @add_state_features(Retry, Volatile), state 0 with retries=1, B(1) -go-> A(0) -go-> A(0);
   the third call exhausts the retries: Retry.enter returns before Volatile.enter, the model
   is in state 0 holding no object, where the contract promises the object of this entry. *)
Definition kf1_cfg : fcfg :=
  mkCfg [FRetry; FVolatile]
        [(0, mkFS [] [] [] false 0 1 (Some 9)); (1, fs_default)]
        [mkFT 0 1 (Some 0); mkFT 0 0 (Some 0)] false.
Theorem C19_volatile_refuted :
  exists (c : fcfg) (h : list (fmodel * fevent)) (s0 : fstate_id) (m : fmodel) (hk : fhook),
    wf_cfg c = true /\ vol_guard c = false /\
    m_state (w_m (frun_world c (init_world s0) h) m) = 0 /\
    m_hooks (w_m (frun_world c (init_world s0) h) m) hk = None /\
    spec_hooks c (sw_m (spec_run_world c (spec_init s0) h) m) hk = Some 2.
Proof. exists kf1_cfg, [(0, 0); (0, 0); (0, 0)], 1, 0, 0. vm_compute. repeat split. Qed.
Print Assumptions C19_volatile_refuted.

(* Second class outside the guard (KF-C19-2): @add_state_features(Error, Volatile), 0 -go-> 1,
   state 1 without outgoing transition and not accepted: Error.enter raises before
   Volatile.enter; the model is left in state 1 holding no object. *)
Definition kf2_cfg : fcfg :=
  mkCfg [FError; FVolatile] [(0, fs_default); (1, fs_default)] [mkFT 0 0 (Some 1)] false.
Theorem C19_volatile_refuted_error :
  exists (c : fcfg) (h : list (fmodel * fevent)) (s0 : fstate_id) (m : fmodel) (hk : fhook),
    wf_cfg c = true /\ vol_guard c = false /\
    m_state (w_m (frun_world c (init_world s0) h) m) = 1 /\
    m_hooks (w_m (frun_world c (init_world s0) h) m) hk = None /\
    spec_hooks c (sw_m (spec_run_world c (spec_init s0) h) m) hk = Some 0.
Proof. exists kf2_cfg, [(0, 0)], 0, 0, 0. vm_compute. repeat split. Qed.
Print Assumptions C19_volatile_refuted_error.

(* Per-model bookkeeping: a call of model m leaves the record (state, hooks, retry counters)
   of every other model untouched. *)
Theorem C19_per_model : forall (c : fcfg) (w : world) (m : fmodel) (e : fevent) (m' : fmodel),
  m' <> m -> w_m (obs_world (fstep c w m e)) m' = w_m w m'.
Proof. exact fstep_other. Qed.
Print Assumptions C19_per_model.

(* Frame 1: the mixins never change where a model goes — for every order and all feature
   arguments the state sequence of every model is that of the undecorated machine. *)
Theorem C19_frame_state : forall (c : fcfg) (h : list (fmodel * fevent)) (s0 : fstate_id) (m : fmodel),
  feat_nodup (c_order c) = true ->
  map (obs_state m) (frun c (init_world s0) h) = map (obs_state m) (frun (plain_cfg c) (init_world s0) h).
Proof. exact frame_state. Qed.
Print Assumptions C19_frame_state.

(* Frame 2: on feature-free configurations (no state with retries; no error state when Error
   is among the mixins — tags, hooks and accepted flags arbitrary) the decorated machine's
   callback traces, results and states equal the undecorated machine's, for every history. *)
Theorem C19_frame : forall (c : fcfg) (h : list (fmodel * fevent)) (s0 : fstate_id) (m : fmodel),
  wf_cfg c = true -> feature_free c = true ->
  map (obs_core m) (frun c (init_world s0) h) = map (obs_core m) (frun (plain_cfg c) (init_world s0) h).
Proof. exact frame_core. Qed.
Print Assumptions C19_frame.

Example C19_frame_nonvacuous :
  wf_cfg (mkCfg [FError; FVolatile; FRetry] [(0, mkFS [1] [2] [0; 3] false 1 0 None); (1, mkFS [] [] [] true 0 0 None)]
                [mkFT 0 0 (Some 1)] false) = true /\
  feature_free (mkCfg [FError; FVolatile; FRetry] [(0, mkFS [1] [2] [0; 3] false 1 0 None); (1, mkFS [] [] [] true 0 0 None)]
                [mkFT 0 0 (Some 1)] false) = true.
Proof. vm_compute. split; reflexivity. Qed.
Print Assumptions C19_frame_nonvacuous.

(* ------------------------------------------------------------------------------------
   Hook names that are ALREADY OCCUPIED when a state is entered: instance attributes the
   model carried before the machine was attached ([pre], objects 0..k-1), another volatile
   state's object, an active ancestor's object.  The contract is unchanged: a FRESH object on
   every entry, removed on exit. *)

(* One entry, for ANY prior record r of the model (whatever sits under the hook name) and
   any order in which nothing ahead of Volatile cuts the chain: the name bears the object
   numbered by the counter, the counter advances, no other name is touched. *)
Theorem C19_volatile_entry_fresh :
  forall (c : fcfg) (fs : list feature) (m : fmodel) (src d : fstate_id) (r : mrec) (f : nat)
         (it : list fitem) (r' : mrec) (f' : nat) (x : bool),
  feat_nodup fs = true -> chain_cut_free c fs = true -> fmem FVolatile fs = true ->
  (no_retries c = true -> fs_retries (sdef c d) = 0) ->
  (no_error_states c = true -> error_test c d = false) ->
  enter_chain c fs m src d r f = (it, r', f', x) ->
  m_hooks r' (fs_hook (sdef c d)) = Some f /\ f' = S f /\
  (forall h, h <> fs_hook (sdef c d) -> m_hooks r' h = m_hooks r h).
Proof. exact entry_fresh. Qed.
Print Assumptions C19_volatile_entry_fresh.

(* One exit: the instance attribute under the state's hook name is gone, the others stay. *)
Theorem C19_volatile_exit_removes : forall (c : fcfg) (m : fmodel) (s : fstate_id) (r : mrec),
  has_volatile (c_order c) = true ->
  m_hooks (snd (exit_chain c m s r)) (fs_hook (sdef c s)) = None /\
  (forall h, h <> fs_hook (sdef c s) -> m_hooks (snd (exit_chain c m s r)) h = m_hooks r h).
Proof. exact exit_removes. Qed.
Print Assumptions C19_volatile_exit_removes.

(* C19_volatile for models that start with arbitrary instance attributes under hook names:
   after every history the model holds under its state's hook name the object created at its
   latest entry (never a pre-existing one), and under every other name what it carried from
   the start minus what an exit removed. *)
Theorem C19_volatile_occupied :
  forall (c : fcfg) (h : list (fmodel * fevent)) (s0 : fstate_id)
         (pre : fmodel -> fhook -> option nat) (k : nat) (m : fmodel) (hk : fhook),
  wf_cfg c = true -> vol_guard c = true ->
  m_hooks (w_m (frun_world c (init_world_p s0 pre k) h) m) hk =
  spec_hooks c (sw_m (spec_run_world c (spec_init_p s0 pre k) h) m) hk.
Proof. exact volatile_final_p. Qed.
Print Assumptions C19_volatile_occupied.

(* ... and traces, results and states do not depend on what the models carried. *)
Theorem C19_retry_spec_occupied :
  forall (c : fcfg) (h : list (fmodel * fevent)) (s0 : fstate_id)
         (pre : fmodel -> fhook -> option nat) (k : nat) (m : fmodel),
  feat_nodup (c_order c) = true ->
  map (obs_core m) (frun c (init_world_p s0 pre k) h) =
  map (sobs_core m) (spec_run c (spec_init_p s0 pre k) h).
Proof. exact contracts_run_p. Qed.
Print Assumptions C19_retry_spec_occupied.

(* Hierarchical machines (M.FeaturesH: any non-parallel state tree, several states exited and
   entered per transition).  On flat configurations the hierarchical engine IS the flat one,
   so every theorem above holds for it. *)
Theorem C19_hier_flat : forall (c : fcfg) (h : list (fmodel * fevent)) (w : world),
  hrun (hflat c) w h = frun c w h.
Proof. exact hrun_flat. Qed.
Print Assumptions C19_hier_flat.

(* For every state tree, every order of the mixins, all feature arguments, every history and
   any pre-existing attributes: whatever any model holds under any name is numbered below
   the counter — together with C19_volatile_entry_fresh (the installed object IS the counter's
   value) every installed object is new with respect to everything held before: never the
   previous, a stale or a pre-existing one. *)
Theorem C19_hier_fresh :
  forall (hc : hcfg) (s0 : fstate_id) (pre : fmodel -> fhook -> option nat) (k : nat)
         (h : list (fmodel * fevent)),
  (forall m hk o, pre m hk = Some o -> o < k) ->
  fresh_inv (hrun_world hc (init_world_p s0 pre k) h).
Proof. exact hier_fresh. Qed.
Print Assumptions C19_hier_fresh.

(* Known finding KF-C19-3: a volatile state and one of its ancestors use the same hook name.
   @add_state_features(Volatile); A(0); P(1, hook 1) with children C(2, hook 1) [initial] and
   D(3, hook 2); A -e0-> P, C -e1-> D.  Entering P then C installs object 0 and overwrites it
   with object 1; leaving C for D deletes the name: the model is in P_D, P is active and was
   entered, and nothing is left under P's hook name. *)
Definition kf3_cfg : hcfg :=
  mkH (mkCfg [FVolatile]
             [(0, fs_default); (1, mkFS [] [] [] false 1 0 None); (2, mkFS [] [] [] false 1 0 None);
              (3, mkFS [] [] [] false 2 0 None)]
             [mkFT 0 0 (Some 1); mkFT 1 2 (Some 3)] false)
      [(0, [0]); (1, [1]); (2, [1; 2]); (3, [1; 3])] [(1, 2)].
Theorem C19_volatile_refuted_nested :
  exists (hc : hcfg) (h1 h2 : list (fmodel * fevent)) (s0 : fstate_id) (m : fmodel),
    let w1 := hrun_world hc (init_world s0) h1 in
    let w2 := hrun_world hc w1 h2 in
    hpath hc (m_state (w_m w1 m)) = [1; 2] /\ m_hooks (w_m w1 m) 1 = Some 1 /\
    hpath hc (m_state (w_m w2 m)) = [1; 3] /\ fs_hook (sdef (h_cfg hc) 1) = 1 /\
    m_hooks (w_m w2 m) 1 = None.
Proof. exists kf3_cfg, [(0, 0)], [(0, 1)], 0, 0. vm_compute. repeat split. Qed.
Print Assumptions C19_volatile_refuted_nested.

(* ------------------------------------------------------------------------------------
   Machines whose transitions change while they run (M.FeaturesDyn: add_transition /
   remove_transition(event, source=s) between the calls).  No mixin keeps a copy of the
   table: every call is the step function over the table CURRENT at that call. *)

(* without reconfigurations the dynamic run is the run of the theorems above *)
Theorem C19_dyn_static : forall (c : fcfg) (h : list (fmodel * fevent)) (w : world),
  drun c (c_trans c) w (only_triggers h) = frun c w h.
Proof. exact drun_static. Qed.
Print Assumptions C19_dyn_static.

(* Error, per entry, against the current table ts: MachineError iff Error is among the
   mixins and NO transition of ts leaves d NOW and d is not accepted — whatever the table
   was at earlier entries of d. *)
Theorem C19_error_iff_dynamic :
  forall (c : fcfg) (ts : list ftrans) (w : world) (m : fmodel) (e : fevent) (t : ftrans) (d : fstate_id),
  feat_nodup (c_order c) = true ->
  first_cand ts e (m_state (w_m w m)) = Some t -> ft_dst t = Some d ->
  (obs_res (dstep c ts w (OTrig m e)) = RExn EMachine <->
   has_error (c_order c) && is_error_state (with_trans c ts) d = true) /\
  obs_state m (dstep c ts w (OTrig m e)) = d.
Proof. exact error_iff_dynamic. Qed.
Print Assumptions C19_error_iff_dynamic.

(* how the verdict moves with the table: add_transition from s makes s a non-dead-end,
   remove_transition(e, source=s0) leaves exactly the other transitions *)
Theorem C19_has_trigger_add : forall (c : fcfg) (ts : list ftrans) (t : ftrans) (s : fstate_id),
  has_trigger (with_trans c (apply_op ts (OAdd t))) s =
  has_trigger (with_trans c ts) s || Nat.eqb (ft_src t) s.
Proof. exact has_trigger_add. Qed.
Print Assumptions C19_has_trigger_add.

Theorem C19_has_trigger_remove :
  forall (c : fcfg) (ts : list ftrans) (e : fevent) (s0 s : fstate_id),
  has_trigger (with_trans c (apply_op ts (ORemove e s0))) s =
  existsb (fun t => negb (Nat.eqb (ft_event t) e && Nat.eqb (ft_src t) s0) && Nat.eqb (ft_src t) s) ts.
Proof. exact has_trigger_remove. Qed.
Print Assumptions C19_has_trigger_remove.

(* whole dynamic histories, every order of the mixins, any number of models, any pre-existing
   attributes: every call's result / exception and every model's state are those of the
   specification evaluated on the table current at that call. *)
Theorem C19_error_dynamic :
  forall (c : fcfg) (ts : list ftrans) (h : list fop) (s0 : fstate_id)
         (pre : fmodel -> fhook -> option nat) (k : nat) (m : fmodel),
  feat_nodup (c_order c) = true ->
  map (obs_rs m) (drun c ts (init_world_p s0 pre k) h) =
  map (sobs_rs m) (spec_drun c ts (spec_init_p s0 pre k) h).
Proof. exact drun_rs_init. Qed.
Print Assumptions C19_error_dynamic.

(* Known finding KF-C19-4: the callback traces of C19_retry_spec do NOT extend to dynamic
   histories when Error precedes Retry.  @add_state_features(Error, Retry); A(0), D(1,
   retries=1, on_enter 5, on_failure 9); go: A->D, again: D->D, back: D->A.  go, again, again
   (on_failure: the counter of D is 2), back; remove again and back from D: D is a dead end;
   go raises in Error.enter BEFORE Retry.enter resets the counter; add again: D->D; the first
   self re-entry after this entry from A runs on_failure (stale counter) where the contract
   ("starts counting afresh when entered from another state") promises the enter callbacks. *)
Definition kf4_cfg : fcfg :=
  mkCfg [FError; FRetry] [(0, fs_default); (1, mkFS [5] [] [] false 0 1 (Some 9))] [] false.
Definition kf4_ts : list ftrans := [mkFT 0 0 (Some 1); mkFT 1 1 (Some 1); mkFT 2 1 (Some 0)].
Definition kf4_hist : list fop :=
  [OTrig 0 0; OTrig 0 1; OTrig 0 1; OTrig 0 2; ORemove 1 1; ORemove 2 1; OTrig 0 0;
   OAdd (mkFT 1 1 (Some 1)); OTrig 0 1].
Theorem C19_retry_refuted_dynamic :
  exists (c : fcfg) (ts : list ftrans) (h : list fop),
    feat_nodup (c_order c) = true /\
    nth 6 (map obs_res (drun c ts (init_world 0) h)) RTrue = RExn EMachine /\
    nth 8 (map obs_trace (drun c ts (init_world 0) h)) [] = [IFail 9 0 1] /\
    nth 8 (map sobs_trace (spec_drun c ts (spec_init 0) h)) [] = [IEnter 5 0 1].
Proof. exists kf4_cfg, kf4_ts, kf4_hist. vm_compute. repeat split. Qed.
Print Assumptions C19_retry_refuted_dynamic.

(* ------------------------------------------------------------------------------------
   Re-entrant processing (M.FeaturesRe): on_enter callbacks that trigger an event on their
   own model while the machine has no queue — the classic use of Retry: the enter callback
   does the work and fires the reflexive retry event itself.  The nested event is processed
   INSIDE State.enter of the entry in progress. *)

(* For every order of the mixins, every table of re-triggering callbacks [tr] (any events,
   any budgets), every history and fuel: per top-level call the complete trace (nested
   entries included), the result / exception and every model's state are those of the
   order-independent specification spec_rstep, in which an entry is counted BEFORE its enter
   callbacks run: an entry nested in one of them already sees it, so a chain of nested self
   re-entries reaches the limit exactly like a chain of separate calls.  (None = None: the
   model runs out of fuel exactly when the specification does.) *)
Theorem C19_retry_reentrant :
  forall (c : fcfg) (tr : retrig) (fuel : nat) (h : list (fmodel * fevent)) (s0 : fstate_id)
         (pre : fmodel -> fhook -> option nat) (k : nat) (m : fmodel),
  feat_nodup (c_order c) = true ->
  map (robs m) (rrun fuel c tr (mkRW (init_world_p s0 pre k) (fun _ => 0)) h) =
  map (srobs m) (spec_rrun fuel c tr (mkSRW (spec_init_p s0 pre k) (fun _ => 0)) h).
Proof. exact rrun_spec_init. Qed.
Print Assumptions C19_retry_reentrant.

(* callbacks that do not re-trigger: one call of the re-entrant engine is fstep *)
Theorem C19_reentrant_static : forall (f : nat) (c : fcfg) (rw : rworld) (m : fmodel) (e : fevent),
  rforget (rstep (S f) c no_retrig rw m e) = Some (fstep c (rw_w rw) m e).
Proof. exact rstep_static. Qed.
Print Assumptions C19_reentrant_static.

(* the mixins' enter code ahead of State.enter is enter_chain without the callbacks *)
Theorem C19_reentrant_prefix :
  forall (c : fcfg) (fs : list feature) (m : fmodel) (src d : fstate_id) (r : mrec) (f : nat)
         (it : list fitem) (r' : mrec) (f' : nat) (v : verdict),
  enter_pre c fs m src d r f = (it, r', f', v) ->
  enter_chain c fs m src d r f =
    (it ++ (match v with VProceed => enter_items c m d | _ => [] end), r', f',
     match v with VRaised => true | _ => false end).
Proof. exact chain_pre. Qed.
Print Assumptions C19_reentrant_prefix.

(* The scenario of the classic use: @add_state_features(Volatile, Retry); idle(0), fetch(1,
   retries=2, on_enter 5, on_failure 9); start: idle->fetch, retry: fetch->fetch; callback 5
   fires retry (up to 7 times).  One call of start: the first entry and exactly 2 nested
   re-entries run the enter callback, the third nested re-entry runs on_failure instead, and
   nothing is re-triggered any more. *)
Example C19_retry_reentrant_demo :
  let c := mkCfg [FVolatile; FRetry]
                 [(0, fs_default); (1, mkFS [5] [] [] false 0 2 (Some 9))]
                 [mkFT 0 0 (Some 1); mkFT 1 1 (Some 1)] false in
  let tr := fun cb => if Nat.eqb cb 5 then Some (1, 7) else None in
  map (robs 0) (rrun 20 c tr (mkRW (init_world 0) (fun _ => 0)) [(0, 0)]) =
    [Some ([IEnter 5 0 1; IEnter 5 0 1; IEnter 5 0 1; IFail 9 0 1], RTrue, 1)].
Proof. vm_compute. reflexivity. Qed.
Print Assumptions C19_retry_reentrant_demo.

(* ------------------------------------------------------------------------------------
   State.final (M.FeaturesFinal): a configuration may mark any states final=True.  The Error
   contract depends on `accepted` (flag or tag) and on having no outgoing transition only:
   for EVERY assignment cf_final of final flags — final and accepted in all four
   combinations, dead end or not — MachineError is raised on entry iff Error is among the
   mixins, no transition leaves d and d is not accepted. *)
Theorem C19_error_final_independent :
  forall (cf : fcfgF) (w : world) (m : fmodel) (e : fevent) (t : ftrans) (d : fstate_id),
  feat_nodup (c_order (cf_cfg cf)) = true ->
  first_cand (c_trans (cf_cfg cf)) e (m_state (w_m w m)) = Some t -> ft_dst t = Some d ->
  (obs_res (fstepF cf w m e) = RExn EMachine <->
   has_error (c_order (cf_cfg cf)) && negb (has_trigger (cf_cfg cf) d) &&
   negb (fs_accepted (sdef (cf_cfg cf) d) || nat_mem 0 (fs_tags (sdef (cf_cfg cf) d))) = true).
Proof. exact error_final_independent. Qed.
Print Assumptions C19_error_final_independent.

(* ... and so does every observation of every history: two configurations that differ in
   their final flags only have the same runs. *)
Theorem C19_final_frame : forall (cf cf' : fcfgF) (w : world) (h : list (fmodel * fevent)),
  cf_cfg cf = cf_cfg cf' -> frunF cf w h = frunF cf' w h.
Proof. exact run_final_independent. Qed.
Print Assumptions C19_final_frame.

(* ------------------------------------------------------------------------------------
   Callback kinds and stacked decorators (M.FeaturesKinds).  "Leave all other behaviour of
   the machine unchanged": decorating never takes a callback kind away. *)

(* for any stack of decorators ds (outermost first) over a state class with kinds [base]:
   the decorated class has kind k iff the base class has it or some mix-in of some decorator
   of the stack brings it *)
Theorem C19_kinds_exact : forall (k : kind) (base : list kind) (ds : list (list mixin)),
  has_kind k (stack_kinds ds base) =
  existsb (fun x => has_kind k (mixin_kinds x)) (concat ds) || has_kind k base.
Proof. exact stack_kinds_exact. Qed.
Print Assumptions C19_kinds_exact.

(* in particular the machine's own kinds (on_final of the hierarchical state class) survive
   every decoration, and so do the kinds an inner decorator brought (on_timeout) *)
Theorem C19_kinds_frame : forall (k : kind) (base : list kind) (ds : list (list mixin)),
  has_kind k base = true -> has_kind k (stack_kinds ds base) = true.
Proof. exact stack_kinds_frame. Qed.
Print Assumptions C19_kinds_frame.

Theorem C19_kinds_stack : forall (k : kind) (base : list kind) (outer : list mixin) (inner : list (list mixin)),
  has_kind k (stack_kinds inner base) = true -> has_kind k (stack_kinds (outer :: inner) base) = true.
Proof. exact stack_kinds_inner. Qed.
Print Assumptions C19_kinds_stack.

(* a mix-in without enter code of its own may stand anywhere in the MRO (of one decorator or
   of a stack): the enter chain is that of the others, in their order *)
Theorem C19_stack_inert :
  forall (c : fcfg) (fs : list feature) (m : fmodel) (src d : fstate_id) (r : mrec) (f : nat),
  enter_chain c fs m src d r f =
  enter_chain c (filter (fun g => negb (feature_eqb g FTags)) fs) m src d r f.
Proof. exact chain_ignores_inert. Qed.
Print Assumptions C19_stack_inert.

Example C19_kinds_example :
  let ds := [[MFeat FTags]; [MTimeout; MFeat FVolatile]] in
  has_kind KFinal (stack_kinds ds (base_kinds true)) = true /\
  has_kind KTimeout (stack_kinds ds (base_kinds true)) = true /\
  has_kind KFinal (stack_kinds ds (base_kinds false)) = false /\
  stack_order ds = [FTags; FVolatile].
Proof. vm_compute. repeat split. Qed.
Print Assumptions C19_kinds_example.
