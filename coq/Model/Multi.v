(* Multi.v — one machine managing several models (transitions/core.py: add_model, remove_model,
   add_states, add_transition, dispatch, _add_trigger_to_model, _add_model_to_state,
   _checked_assignment; the add_model/remove_model layers of locking.py, diagrams.py,
   asyncio.py, nesting.py), and two machines bound to one model object.
   The per-event engine is Flat.trigger (imported, not changed).
   A model object = its state attribute + its HELPER TABLE (the attributes the machine has
   bound on it).  Side tables keyed by id(model) are lists of keys.
   Definitions only. *)
From Coq Require Import List Arith Bool.
From M Require Import Base Flat.
From M Require Hsm.
Import ListNotations.

(* ------------------------------------------------------------------ machine classes *)
Inductive qmode : Type := QNo | QYes | QModel.      (* queued=False / True / 'model' (async only) *)

Record mclass : Type := mkClass {
  k_locked : bool;      (* LockedMachine layer: model_context_map *)
  k_graph : bool;       (* GraphMachine layer: model_graphs, get_graph *)
  k_hsm : bool;         (* HierarchicalMachine layer: 'to' helper, add_states refuses duplicates *)
  k_async : bool;       (* AsyncMachine layer: _transition_queue_dict *)
  k_queue : qmode
}.

Definition queued (k : mclass) : bool := match k_queue k with QNo => false | _ => true end.
Definition per_model_queue (k : mclass) : bool :=
  k_async k && match k_queue k with QModel => true | _ => false end.

(* ------------------------------------------------------------------ helper names *)
Inductive helper : Type :=
| HTrig                 (* trigger *)
| HMayTrig              (* may_trigger *)
| HEv (e : event)       (* <event> *)
| HMay (e : event)      (* may_<event> *)
| HIs (s : state)       (* is_<state> *)
| HTo                   (* to (hierarchical classes) *)
| HGraph.               (* get_graph (graph classes) *)

Definition helper_eqb (a b : helper) : bool :=
  match a, b with
  | HTrig, HTrig | HMayTrig, HMayTrig | HTo, HTo | HGraph, HGraph => true
  | HEv x, HEv y | HMay x, HMay y | HIs x, HIs y => Nat.eqb x y
  | _, _ => false
  end.

Definition has_helper (h : helper) (l : list helper) : bool := existsb (helper_eqb h) l.

(* Machine._checked_assignment with model_override=False: bind only if the name is free *)
Definition add_helper (l : list helper) (h : helper) : list helper :=
  if has_helper h l then l else l ++ [h].
Definition add_helpers (hs : list helper) (l : list helper) : list helper := fold_left add_helper hs l.

(* _add_trigger_to_model: core binds <event> then may_<event>; nesting binds may_ first *)
Definition ev_helpers (k : mclass) (e : event) : list helper :=
  if k_hsm k then [HMay e; HEv e] else [HEv e; HMay e].

(* ------------------------------------------------------------------ the world *)
Record mobj : Type := mkObj {
  o_state : option state;            (* None: the object has no state attribute yet *)
  o_helpers : list helper
}.

Record mworld : Type := mkMW {
  w_mc : machine;                    (* states, events, callbacks, options *)
  w_initial : state;                 (* Machine.initial *)
  w_models : list model;             (* Machine.models, registration order *)
  w_obj : model -> mobj;             (* every model object of the universe *)
  w_ctx : list model;                (* keys of LockedMachine.model_context_map *)
  w_graphs : list model;             (* keys of GraphMachine.model_graphs *)
  w_queues : list model;             (* keys of AsyncMachine._transition_queue_dict (queued='model') *)
  w_pos : nat                        (* number of callback invocations so far *)
}.

Definition mem_nat (x : nat) (l : list nat) : bool := existsb (Nat.eqb x) l.
(* dict[key] = ... : insert the key unless present *)
Definition add_key (l : list nat) (x : nat) : list nat := if mem_nat x l then l else l ++ [x].
(* del dict[key] *)
Definition del_key (x : nat) (l : list nat) : list nat := filter (fun y => negb (Nat.eqb y x)) l.
(* list.remove(x): the first occurrence *)
Fixpoint remove_first (x : nat) (l : list nat) : list nat :=
  match l with
  | [] => []
  | y :: r => if Nat.eqb y x then r else y :: remove_first x r
  end.

Definition upd_obj (f : model -> mobj) (m : model) (o : mobj) : model -> mobj :=
  fun x => if Nat.eqb x m then o else f x.

(* "for model in self.models: bind hs" *)
Definition bind_all (ms : list model) (hs : list helper) (f : model -> mobj) : model -> mobj :=
  fun x => if mem_nat x ms then mkObj (o_state (f x)) (add_helpers hs (o_helpers (f x))) else f x.

Definition set_mc (w : mworld) (mc : machine) : mworld :=
  mkMW mc (w_initial w) (w_models w) (w_obj w) (w_ctx w) (w_graphs w) (w_queues w) (w_pos w).
Definition set_objs (w : mworld) (f : model -> mobj) : mworld :=
  mkMW (w_mc w) (w_initial w) (w_models w) f (w_ctx w) (w_graphs w) (w_queues w) (w_pos w).
Definition set_models (w : mworld) (ms : list model) : mworld :=
  mkMW (w_mc w) (w_initial w) ms (w_obj w) (w_ctx w) (w_graphs w) (w_queues w) (w_pos w).
Definition set_ctx (w : mworld) (l : list model) : mworld :=
  mkMW (w_mc w) (w_initial w) (w_models w) (w_obj w) l (w_graphs w) (w_queues w) (w_pos w).
Definition set_graphs (w : mworld) (l : list model) : mworld :=
  mkMW (w_mc w) (w_initial w) (w_models w) (w_obj w) (w_ctx w) l (w_queues w) (w_pos w).
Definition set_queues (w : mworld) (l : list model) : mworld :=
  mkMW (w_mc w) (w_initial w) (w_models w) (w_obj w) (w_ctx w) (w_graphs w) l (w_pos w).
Definition set_pos (w : mworld) (p : nat) : mworld :=
  mkMW (w_mc w) (w_initial w) (w_models w) (w_obj w) (w_ctx w) (w_graphs w) (w_queues w) p.

(* every helper the machine binds on a model it registers (core part) *)
Definition machine_helpers (k : mclass) (mc : machine) : list helper :=
  [HTrig; HMayTrig] ++ flat_map (ev_helpers k) (map fst (m_events mc)) ++ map HIs (map fst (m_states mc)).

(* ------------------------------------------------------------------ configuration *)
Fixpoint set_assoc {A} (l : list (nat * A)) (k : nat) (v : A) : list (nat * A) :=
  match l with
  | [] => [(k, v)]
  | (k', v') :: r => if Nat.eqb k k' then (k, v) :: r else (k', v') :: set_assoc r k v
  end.

Definition mc_set_states (mc : machine) (sts : list (state * sdef)) : machine :=
  mkMachine sts (m_events mc) (m_prepare_event mc) (m_before_sc mc) (m_after_sc mc) (m_finalize mc)
            (m_on_exception mc) (m_on_final mc) (m_ignore mc) (m_send_event mc).
Definition mc_set_events (mc : machine) (evs : list (event * list trans)) : machine :=
  mkMachine (m_states mc) evs (m_prepare_event mc) (m_before_sc mc) (m_after_sc mc) (m_finalize mc)
            (m_on_exception mc) (m_on_final mc) (m_ignore mc) (m_send_event mc).

(* Event.add_transition: append in definition order *)
Definition add_trans_to (evs : list (event * list trans)) (e : event) (t : trans) : list (event * list trans) :=
  match lookup evs e with
  | Some ts => set_assoc evs e (ts ++ [t])
  | None => evs ++ [(e, [t])]
  end.

(* ------------------------------------------------------------------ operations *)
Inductive op : Type :=
| OAddModel (m : model) (init : option state)
| OAddModels (ms : list model) (init : option state)    (* add_model([m1; m2; ...]): ONE call with a list *)
| ORemoveModel (m : model)
| OAddState (s : state) (sd : sdef)
| OAddTransition (e : event) (t : trans)
| ORemoveTransition (e : event) (src dst : option state)     (* remove_transition(trigger, source|'*', dest|'*') *)
| OTrigger (m : model) (byname : bool) (e : event) (payload : nat)
| ODispatch (e : event) (payload : nat)
| OCopy.      (* the machine and all model objects are replaced by pickle.loads(pickle.dumps(..)) / copy.deepcopy(..):
                 the copy has the same models, states, helpers and tables — re-keyed by the new ids (C15) — and
                 no further table *)

Record block : Type := mkBlk { b_model : model; b_items : list item; b_res : exn + bool }.

(* result of a configuration call: None = returned None *)
Definition cres := (exn + option bool)%type.

Section Step.
  Variable k : mclass.
  Variable ev : env.

  (* Machine.add_model for one model (plus nesting.add_model: set_state again, bind 'to') *)
  Definition add_core (w : mworld) (m : model) (init : option state) : option exn * mworld :=
    let mc := w_mc w in
    let ini := match init with Some s => s | None => w_initial w end in
    let o := w_obj w m in
    if mem_nat m (w_models w) then (None, w)
    else
      let hs := add_helpers (machine_helpers k mc) (o_helpers o) in
      match get_state mc ini with
      | None => (Some ValueError, set_objs w (upd_obj (w_obj w) m (mkObj (o_state o) hs)))
      | Some _ =>
          let hs' := if k_hsm k then add_helper hs HTo else hs in
          (None, set_models (set_objs w (upd_obj (w_obj w) m (mkObj (Some ini) hs'))) (w_models w ++ [m]))
      end.

  (* LockedMachine.add_model: model_context_map[id(mod)] gets the contexts unless it has some *)
  Definition lay_locked (w : mworld) (m : model) : mworld :=
    if k_locked k then set_ctx w (add_key (w_ctx w) m) else w.
  (* AsyncMachine.add_model with queued='model': _transition_queue_dict[id(mod)] = deque() *)
  Definition lay_queue (w : mworld) (m : model) : mworld :=
    if per_model_queue k then set_queues w (add_key (w_queues w) m) else w.
  (* GraphMachine.add_model: `known = list(self.models)` is taken BEFORE the base add_model; a model that was
     registered then is skipped (no effect).  Any other model — registered by the base call just now — is
     refused if the object already has a get_graph attribute (a model removed earlier keeps the attribute: the
     graph classes have no remove_model; or it is shared with another graph machine): AttributeError AFTER the
     base add_model registered it; otherwise get_graph is bound and the graph built. *)
  Definition lay_graph (was_registered : bool) (w : mworld) (m : model) : cres * mworld :=
    if was_registered then (inr None, w)
    else if k_graph k then
      let o := w_obj w m in
      if has_helper HGraph (o_helpers o) then (inl AttributeError, w)
      else (inr None,
            set_graphs (set_objs w (upd_obj (w_obj w) m (mkObj (o_state o) (o_helpers o ++ [HGraph]))))
                       (add_key (w_graphs w) m))
    else (inr None, w).

  (* the layers of the class in MRO order: Graph -> Locked | Async -> (Hierarchical) -> Machine *)
  Definition add_model (w : mworld) (m : model) (init : option state) : cres * mworld :=
    match add_core w m init with
    | (Some e, w1) => (inl e, w1)
    | (None, w1) => lay_graph (mem_nat m (w_models w)) (lay_queue (lay_locked w1 m) m) m
    end.

  (* ---- add_model with a LIST of models (also Machine(model=[...])): every layer loops over the list AFTER its
     super() call looped over the whole list.  The same object may occur several times in the list. *)
  (* core.py only: one element of the loop of Machine.add_model (`if mod not in self.models:` is evaluated
     against the CURRENT list, so an in-call repetition is skipped) *)
  Definition add_core1 (w : mworld) (m : model) (init : option state) : option exn * mworld :=
    let mc := w_mc w in
    let ini := match init with Some s => s | None => w_initial w end in
    let o := w_obj w m in
    if mem_nat m (w_models w) then (None, w)
    else
      let hs := add_helpers (machine_helpers k mc) (o_helpers o) in
      match get_state mc ini with
      | None => (Some ValueError, set_objs w (upd_obj (w_obj w) m (mkObj (o_state o) hs)))
      | Some _ => (None, set_models (set_objs w (upd_obj (w_obj w) m (mkObj (Some ini) hs))) (w_models w ++ [m]))
      end.

  Fixpoint core_list (w : mworld) (ms : list model) (init : option state) : option exn * mworld :=
    match ms with
    | [] => (None, w)
    | m :: r => match add_core1 w m init with
                | (Some e, w1) => (Some e, w1)
                | (None, w1) => core_list w1 r init
                end
    end.

  (* nesting.add_model: the models of the list that were not registered before the call get set_state(<own
     state>) — nothing changes on a flat configuration — and the 'to' helper unless present; registered
     models are left alone *)
  Definition hsm1 (known : list model) (w : mworld) (x : model) : mworld :=
    if mem_nat x known then w
    else set_objs w (upd_obj (w_obj w) x (mkObj (o_state (w_obj w x)) (add_helper (o_helpers (w_obj w x)) HTo))).
  Definition hsm_list (known : list model) (w : mworld) (ms : list model) : mworld :=
    if k_hsm k then fold_left (hsm1 known) ms w else w.

  (* GraphMachine.add_model: `known` = the models registered BEFORE the call plus those handled so far (an
     in-call repetition is skipped); stops at the first refusal: the models after it stay registered
     without graph *)
  Fixpoint graph_list (known : list model) (w : mworld) (ms : list model) : cres * mworld :=
    match ms with
    | [] => (inr None, w)
    | m :: r => match lay_graph (mem_nat m known) w m with
                | (inl e, w1) => (inl e, w1)
                | (inr _, w1) => graph_list (add_key known m) w1 r
                end
    end.

  Definition add_models (w : mworld) (ms : list model) (init : option state) : cres * mworld :=
    match core_list w ms init with
    | (Some e, w1) => (inl e, w1)
    | (None, w1) =>
        graph_list (w_models w) (fold_left lay_queue ms (fold_left lay_locked ms (hsm_list (w_models w) w1 ms))) ms
    end.

  (* remove_model of a registered model (an unregistered one: list.remove raises ValueError;
     the locked / per-model-queue classes raise KeyError instead — not generated) *)
  Definition remove_model (w : mworld) (m : model) : cres * mworld :=
    if negb (mem_nat m (w_models w)) then (inl ValueError, w)
    else
      let w1 := if k_locked k then set_ctx w (del_key m (w_ctx w)) else w in
      let w2 := if per_model_queue k then set_queues w1 (del_key m (w_queues w1)) else w1 in
      (* GraphMachine has no remove_model: model_graphs keeps the entry *)
      (inr None, set_models w2 (remove_first m (w_models w2))).

  (* GraphMachine.add_states / add_transition: model.get_graph(force_new=True) for every model *)
  Definition regen_graphs (w : mworld) : mworld :=
    if k_graph k then set_graphs w (fold_left add_key (w_models w) (w_graphs w)) else w.

  Definition add_state (w : mworld) (s : state) (sd : sdef) : cres * mworld :=
    let mc := w_mc w in
    if k_hsm k && match get_state mc s with Some _ => true | None => false end
    then (inl ValueError, w)
    else
      let w1 := set_mc w (mc_set_states mc (set_assoc (m_states mc) s sd)) in
      (inr None, regen_graphs (set_objs w1 (bind_all (w_models w) [HIs s] (w_obj w)))).

  Definition add_transition (w : mworld) (e : event) (t : trans) : cres * mworld :=
    let mc := w_mc w in
    let w1 := match lookup (m_events mc) e with
              | Some _ => w
              | None => set_objs w (bind_all (w_models w) (ev_helpers k e) (w_obj w))
              end in
    (inr None, regen_graphs (set_mc w1 (mc_set_events mc (add_trans_to (m_events mc) e t)))).

  (* Machine.remove_transition / HierarchicalMachine.remove_transition (flat configuration): a transition is KEPT
     if a source filter is given and it has another source, or a destination filter is given and it has
     another destination (an internal transition has none).  When nothing is left the event is deleted and
     `delattr(model, trigger)` runs for every REGISTERED model (may_<trigger> stays bound; it works by name);
     graph classes rebuild the graphs.  (An unknown trigger: KeyError in core.py — written AttributeError here, not
     generated; the hierarchical classes fail in delattr of the first model, or do nothing without models.) *)
  Definition keep_trans (src dst : option state) (t : trans) : bool :=
    (match src with Some s => negb (Nat.eqb (t_src t) s) | None => false end) ||
    (match dst with
     | Some d => negb (match t_dst t with Some x => Nat.eqb x d | None => false end)
     | None => false
     end).

  Definition del_helper (h : helper) (l : list helper) : list helper :=
    filter (fun x => negb (helper_eqb h x)) l.
  Definition unbind_all (ms : list model) (h : helper) (f : model -> mobj) : model -> mobj :=
    fun x => if mem_nat x ms then mkObj (o_state (f x)) (del_helper h (o_helpers (f x))) else f x.
  Definition remove_key {A} (e : nat) (l : list (nat * A)) : list (nat * A) :=
    filter (fun p => negb (Nat.eqb (fst p) e)) l.

  Definition remove_transition (w : mworld) (e : event) (src dst : option state) : cres * mworld :=
    let mc := w_mc w in
    match lookup (m_events mc) e with
    | None => (match w_models w with
               | [] => if k_hsm k then inr None else inl AttributeError
               | _ => inl AttributeError
               end, w)
    | Some ts =>
        match filter (keep_trans src dst) ts with
        | [] =>
            (inr None,
             regen_graphs (set_objs (set_mc w (mc_set_events mc (remove_key e (m_events mc))))
                                    (unbind_all (w_models w) (HEv e) (w_obj w))))
        | ts' => (inr None, regen_graphs (set_mc w (mc_set_events mc (set_assoc (m_events mc) e ts'))))
        end
    end.

  (* Machine._process at top level with a queue: the call returns True *)
  Definition qmap (r : exn + bool) : exn + bool :=
    match r with inr b => inr (if queued k then true else b) | inl e => inl e end.

  (* LockedEvent.trigger reads machine.model_context_map[id(model)] — a defaultdict, so the key
     exists afterwards (LockedHierarchicalMachine uses NestedEvent: no access) *)
  Definition touch_ctx (w : mworld) (m : model) : mworld :=
    if k_locked k && negb (k_hsm k) then set_ctx w (add_key (w_ctx w) m) else w.

  (* calling model.<event>(...) (byname=false) or model.trigger('<event>', ...) (byname=true) *)
  Definition trigger_on (w : mworld) (m : model) (byname : bool) (e : event) (a : nat) : block * mworld :=
    let o := w_obj w m in
    let mc := w_mc w in
    if negb (has_helper (if byname then HTrig else HEv e) (o_helpers o))
    then (mkBlk m [] (inl AttributeError), w)                 (* no such attribute on the object *)
    else
      match lookup (m_events mc) e with
      | Some ts =>
          let w0 := touch_ctx w m in
          match o_state o with
          | None => (mkBlk m [] (inl AttributeError), w0)     (* getattr(model, 'state') *)
          | Some s =>
              match trigger_event mc ev (mkCtx m a (m_send_event mc)) ts (w_pos w) s with
              | (tr, s', r) =>
                  (mkBlk m tr (qmap r),
                   set_pos (set_objs w0 (upd_obj (w_obj w) m (mkObj (Some s') (o_helpers o)))) (w_pos w + length tr))
              end
          end
      | None =>
          if byname then
            match o_state o with
            | None => (mkBlk m [] (inl AttributeError), w)
            | Some s =>
                (* Machine._get_trigger with an unknown name *)
                match trigger mc ev (mkCtx m a (m_send_event mc)) e (w_pos w) s with
                | (tr, s', r) =>
                    (mkBlk m tr r,
                     set_pos (set_objs w (upd_obj (w_obj w) m (mkObj (Some s') (o_helpers o)))) (w_pos w + length tr))
                end
            end
          else (mkBlk m [] (inl AttributeError), w)
      end.

  (* Machine.dispatch: all([getattr(model, trigger)(...) for model in self.models]) *)
  Fixpoint dispatch_loop (ms : list model) (w : mworld) (e : event) (a : nat)
    : list block * (exn + bool) * mworld :=
    match ms with
    | [] => ([], inr true, w)
    | m :: rest =>
        match trigger_on w m false e a with
        | (b, w1) =>
            match b_res b with
            | inl x => ([b], inl x, w1)                       (* propagates: later models untouched *)
            | inr r =>
                match dispatch_loop rest w1 e a with
                | (bs, inl x, w2) => (b :: bs, inl x, w2)
                | (bs, inr r2, w2) => (b :: bs, inr (r && r2), w2)
                end
            end
        end
    end.

  (* the copy: LockedMachine.__getstate__ stores the contexts of the REGISTERED models only (a stale entry left by
     a removed model's helper is gone), __setstate__ re-keys them by the new ids; model_graphs is not pickled,
     GraphMachine.__setstate__ builds a fresh graph for every registered model; the other tables are carried over *)
  Definition copy_world (w : mworld) : mworld :=
    let w1 := if k_locked k then set_ctx w (w_models w) else w in
    if k_graph k then set_graphs w1 (w_models w1) else w1.

  Definition cres_of (r : exn + bool) : cres :=
    match r with inl e => inl e | inr b => inr (Some b) end.

  Definition step (w : mworld) (o : op) : list block * cres * mworld :=
    match o with
    | OAddModel m init => let '(r, w') := add_model w m init in ([], r, w')
    | OAddModels ms init => let '(r, w') := add_models w ms init in ([], r, w')
    | ORemoveModel m => let '(r, w') := remove_model w m in ([], r, w')
    | OAddState s sd => let '(r, w') := add_state w s sd in ([], r, w')
    | OAddTransition e t => let '(r, w') := add_transition w e t in ([], r, w')
    | ORemoveTransition e src dst => let '(r, w') := remove_transition w e src dst in ([], r, w')
    | OTrigger m bn e a => let '(b, w') := trigger_on w m bn e a in ([b], cres_of (b_res b), w')
    | ODispatch e a => let '(bs, r, w') := dispatch_loop (w_models w) w e a in (bs, cres_of r, w')
    | OCopy => ([], inr None, copy_world w)
    end.

  Definition step_w (w : mworld) (o : op) : mworld := snd (step w o).
  Definition run (w : mworld) (hs : list op) : mworld := fold_left step_w hs w.
End Step.

(* the world right after Machine.__init__ ran its add_states part: no model registered, every
   object of the universe has no state attribute and no helper *)
Definition init_world (mc : machine) (initial : state) : mworld :=
  mkMW mc initial [] (fun _ => mkObj None []) [] [] [] 0.

(* ------------------------------------------------------------------ dispatch, declaratively:
   the event on each registered model from that model's own state, positions consecutive *)
Section DispatchSpec.
  Variable k : mclass.
  Variable ev : env.
  Variable mc : machine.
  Variable ts : list trans.
  Variable a : nat.

  Fixpoint dispatch_spec (ms : list (model * state)) (p : nat) : list block :=
    match ms with
    | [] => []
    | (m, s) :: rest =>
        match trigger_event mc ev (mkCtx m a (m_send_event mc)) ts p s with
        | (tr, _, r) => mkBlk m tr (qmap k r) :: dispatch_spec rest (p + length tr)
        end
    end.
End DispatchSpec.

Definition block_ok (b : block) : bool := match b_res b with inr r => r | inl _ => false end.
Definition block_raised (b : block) : bool := match b_res b with inr _ => false | inl _ => true end.

(* ------------------------------------------------------------------ two machines, one model object
   What matters is which machine OWNS each attribute name on the shared object.  Flat classes
   put model_attribute into is_/to_ names (unless it is 'state'); the hierarchical classes do
   not (nesting._add_model_to_state, _add_trigger_to_model).                                      *)
Definition attr := nat.                      (* 0 = 'state' *)

Inductive hname : Type :=
| NTrig | NMayTrig
| NEv (e : event) | NMay (e : event)
| NIs (a : option attr) (s : state)          (* is_<s> / is_<attr>_<s> *)
| NTo (a : option attr) (s : state)          (* to_<s> / to_<attr>_<s>  (auto transition) *)
| NMayTo (a : option attr) (s : state).

Definition oattr_eqb (a b : option attr) : bool :=
  match a, b with Some x, Some y => Nat.eqb x y | None, None => true | _, _ => false end.
Definition hname_eqb (x y : hname) : bool :=
  match x, y with
  | NTrig, NTrig | NMayTrig, NMayTrig => true
  | NEv a, NEv b | NMay a, NMay b => Nat.eqb a b
  | NIs a s, NIs b t | NTo a s, NTo b t | NMayTo a s, NMayTo b t => oattr_eqb a b && Nat.eqb s t
  | _, _ => false
  end.

Record mdesc : Type := mkDesc {
  d_attr : attr;
  d_states : list state;
  d_events : list event;
  d_auto : bool;            (* auto_transitions *)
  d_init : state
}.

(* the qualifier that ends up in the name *)
Definition qual (hsm : bool) (a : attr) : option attr :=
  if hsm then None else if Nat.eqb a 0 then None else Some a.

Definition desc_names (hsm : bool) (d : mdesc) : list hname :=
  [NTrig; NMayTrig]
  ++ flat_map (fun e => [NEv e; NMay e]) (d_events d)
  ++ (if d_auto d then flat_map (fun s => [NTo (qual hsm (d_attr d)) s; NMayTo (qual hsm (d_attr d)) s]) (d_states d)
      else [])
  ++ map (NIs (qual hsm (d_attr d))) (d_states d).

Definition owner_of (tbl : list (hname * nat)) (n : hname) : option nat :=
  match find (fun p => hname_eqb n (fst p)) tbl with Some p => Some (snd p) | None => None end.

(* _checked_assignment: the first machine to bind a name keeps it *)
Definition bind_name (who : nat) (tbl : list (hname * nat)) (n : hname) : list (hname * nat) :=
  match owner_of tbl n with Some _ => tbl | None => tbl ++ [(n, who)] end.
Definition bind_machine (hsm : bool) (who : nat) (d : mdesc) (tbl : list (hname * nat)) : list (hname * nat) :=
  fold_left (bind_name who) (desc_names hsm d) tbl.

(* the shared object: attribute values + name table *)
Record sobj : Type := mkSobj { so_attrs : list (attr * state); so_tbl : list (hname * nat) }.

Definition attr_of (o : sobj) (a : attr) : option state := lookup (so_attrs o) a.

(* machine 0 then machine 1 are constructed on the fresh object *)
Definition bind_two (hsm : bool) (d0 d1 : mdesc) : sobj :=
  mkSobj (set_assoc (set_assoc [] (d_attr d0) (d_init d0)) (d_attr d1) (d_init d1))
         (bind_machine hsm 1 d1 (bind_machine hsm 0 d0 [])).

(* calling the attribute [n] of the object: the owning machine acts on ITS attribute; [act who n s]
   is whatever that machine does to its model state (any function: every configuration) *)
Definition call_name (d0 d1 : mdesc) (act : nat -> hname -> state -> state) (o : sobj) (n : hname) : option sobj :=
  match owner_of (so_tbl o) n with
  | None => None                                                (* AttributeError *)
  | Some who =>
      let a := d_attr (if Nat.eqb who 0 then d0 else d1) in
      match attr_of o a with
      | None => None
      | Some s => Some (mkSobj (set_assoc (so_attrs o) a (act who n s)) (so_tbl o))
      end
  end.

(* ------------------------------------------------------------------ a model's OWN initial state on a hierarchical
   machine: add_model(model, initial=<any state, nested or not, Enum member or path string>) puts the model into
   that state and its initial substates (HierarchicalMachine._resolve_initial; no callbacks); None = the
   machine's initial state; a registered model is left alone. *)
Definition own_config (states : list Hsm.sdefn) (ini : Hsm.path) : Hsm.forest :=
  match Hsm.find_def states ini with
  | Some d => Hsm.chain_tree ini (Hsm.initial_tree Hsm.def_depth_bound d)
  | None => []
  end.

Definition own_add (states : list Hsm.sdefn) (dflt : Hsm.path) (w : list (model * Hsm.forest))
           (a : model * option Hsm.path) : list (model * Hsm.forest) :=
  if existsb (fun p => Nat.eqb (fst p) (fst a)) w then w
  else w ++ [(fst a, own_config states (match snd a with Some p => p | None => dflt end))].

Definition own_run (states : list Hsm.sdefn) (dflt : Hsm.path) (adds : list (model * option Hsm.path))
           (w : list (model * Hsm.forest)) : list (model * Hsm.forest) := fold_left (own_add states dflt) adds w.
