(* FeaturesRe.v — re-entrant processing: an on_enter callback that triggers an event on its
   own model while the machine has no queue.  Machine._process runs the nested trigger
   immediately, inside the callback, i.e. INSIDE State.enter of the state being entered:
   every mixin's enter code that precedes super().enter has already run (Retry has already
   incremented the model's counter, Volatile has installed the object), the rest of the
   callback list runs after the nested event has been processed completely.  An exception
   of the nested trigger propagates through the callback and the outer trigger.

   [tr cb = Some (e, b)]: callback cb triggers event e on the model it is called for, the
   first b times it is invoked (the per-callback invocation counter lives in the world), so
   every program terminates; the recursion is on explicit fuel, None = out of fuel.
   Flat configurations.  Definitions only. *)
From Coq Require Import List Arith Bool.
From M Require Import Features FeaturesSpec.
Import ListNotations.

Inductive verdict : Type := VProceed | VCut | VRaised.

(* the mixins' enter code ahead of State.enter (cf. enter_chain of Features.v, which appends
   the callbacks of a non re-triggering state): VProceed = State.enter is reached *)
Fixpoint enter_pre (c : fcfg) (fs : list feature) (m : fmodel) (src d : fstate_id)
                   (r : mrec) (fresh : nat) : list fitem * mrec * nat * verdict :=
  match fs with
  | [] => ([], r, fresh, VProceed)
  | FTags :: k => enter_pre c k m src d r fresh
  | FError :: k =>
      if error_test c d then ([], r, fresh, VRaised)
      else enter_pre c k m src d r fresh
  | FVolatile :: k =>
      enter_pre c k m src d (set_hook r (fs_hook (sdef c d)) (Some fresh)) (S fresh)
  | FRetry :: k =>
      let n0 := if Nat.eqb src d then m_counts r d else 0 in
      let r0 := set_count r d n0 in
      if Nat.ltb (fs_retries (sdef c d)) n0 && Nat.ltb 0 (fs_retries (sdef c d))
      then (fail_items c m d, r0, fresh, VCut)
      else enter_pre c k m src d (set_count r0 d (S n0)) fresh     (* counted BEFORE super().enter *)
  end.

Definition retrig := fcb -> option (fevent * nat).

Section Callbacks.
  Variable W : Type.
  Variable st : W -> fstate_id.            (* the calling model's state attribute *)
  Variable calls : W -> fcb -> nat.        (* invocations of a callback so far *)
  Variable bump : W -> fcb -> W.
  Variable step : W -> fevent -> option (list fitem * W * fres).   (* a nested trigger *)
  Variable tr : retrig.
  Variable m : fmodel.

  (* Machine.callbacks(state.on_enter): each callback in order; a re-triggering one processes
     its event to completion before the next callback runs *)
  Fixpoint run_cbs (l : list fcb) (w : W) : option (list fitem * W * option fexn) :=
    match l with
    | [] => Some ([], w, None)
    | cb :: rest =>
        let it := IEnter cb m (st w) in
        let w1 := bump w cb in
        let nested :=
          match tr cb with
          | Some (e, b) => if Nat.ltb (calls w cb) b then step w1 e else Some ([], w1, RTrue)
          | None => Some ([], w1, RTrue)
          end in
        match nested with
        | None => None
        | Some (it1, w2, RExn x) => Some (it :: it1, w2, Some x)
        | Some (it1, w2, _) =>
            match run_cbs rest w2 with
            | None => None
            | Some (it2, w3, x) => Some (it :: it1 ++ it2, w3, x)
            end
        end
    end.
End Callbacks.

Record rworld : Type := mkRW { rw_w : world; rw_calls : fcb -> nat }.
Definition rbump (rw : rworld) (cb : fcb) : rworld :=
  mkRW (rw_w rw) (upd (rw_calls rw) cb (S (rw_calls rw cb))).

Fixpoint rstep (fuel : nat) (c : fcfg) (tr : retrig) (rw : rworld) (m : fmodel) (e : fevent)
  : option (list fitem * rworld * fres) :=
  match fuel with
  | 0 => None
  | S f =>
      let w := rw_w rw in
      if negb (event_known c e)
      then Some ([], rw, if c_ignore c then RFalse else RExn EAttribute)
      else
        let r := w_m w m in
        let s := m_state r in
        match first_cand (c_trans c) e s with
        | None => Some ([], rw, if c_ignore c then RFalse else RExn EMachine)
        | Some t =>
            match ft_dst t with
            | None => Some ([], rw, RTrue)
            | Some d =>
                match exit_chain c m s r with
                | (ex, r1) =>
                    match enter_pre c (c_order c) m s d (set_state r1 d) (w_fresh w) with
                    | (pre, r3, fr, v) =>
                        let rw1 := mkRW (mkW (upd (w_m w) m r3) fr) (rw_calls rw) in
                        match v with
                        | VRaised => Some (ex ++ pre, rw1, RExn EMachine)
                        | VCut => Some (ex ++ pre, rw1, RTrue)
                        | VProceed =>
                            match run_cbs rworld (fun x => m_state (w_m (rw_w x) m)) rw_calls rbump
                                          (fun x e' => rstep f c tr x m e') tr m
                                          (fs_enter (sdef c d)) rw1 with
                            | None => None
                            | Some (it, rw2, None) => Some (ex ++ pre ++ it, rw2, RTrue)
                            | Some (it, rw2, Some x) => Some (ex ++ pre ++ it, rw2, RExn x)
                            end
                        end
                    end
                end
            end
        end
  end.

Fixpoint rrun (fuel : nat) (c : fcfg) (tr : retrig) (rw : rworld) (h : list (fmodel * fevent))
  : list (option (list fitem * rworld * fres)) :=
  match h with
  | [] => []
  | (m, e) :: rest =>
      match rstep fuel c tr rw m e with
      | None => [None]
      | Some o => Some o :: rrun fuel c tr (snd (fst o)) rest
      end
  end.

(* ----------------------------------------------------------------- the specification *)
Record srworld : Type := mkSRW { srw_w : sworld; srw_calls : fcb -> nat }.
Definition srbump (rw : srworld) (cb : fcb) : srworld :=
  mkSRW (srw_w rw) (upd (srw_calls rw) cb (S (srw_calls rw cb))).

(* as spec_step: the entry is counted (streak) before the enter callbacks run, so an entry
   nested in one of them already sees it *)
Fixpoint spec_rstep (fuel : nat) (c : fcfg) (tr : retrig) (rw : srworld) (m : fmodel) (e : fevent)
  : option (list fitem * srworld * fres) :=
  match fuel with
  | 0 => None
  | S f =>
      let sw := srw_w rw in
      let x := sw_m sw m in
      let s := sp_state x in
      match first_cand (c_trans c) e s with
      | None => Some ([], rw, if c_ignore c then RFalse
                              else RExn (if event_known c e then EMachine else EAttribute))
      | Some t =>
          match ft_dst t with
          | None => Some ([], rw, RTrue)
          | Some d =>
              let o := c_order c in
              let err := has_error o && is_error_state c d in
              let k := if Nat.eqb s d then sp_streak x else 0 in
              let retries := fs_retries (sdef c d) in
              let exhausted := has_retry o && Nat.ltb 0 retries && Nat.ltb retries k in
              let sw1 := mkSW (upd (sw_m sw) m
                                   (mkSM d (if exhausted then k else S k)
                                         (if has_volatile o then Some (sw_n sw) else None)
                                         (if has_volatile o then upd (sp_pre x) (fs_hook (sdef c s)) None
                                          else sp_pre x)))
                              (if has_volatile o then S (sw_n sw) else sw_n sw) in
              let rw1 := mkSRW sw1 (srw_calls rw) in
              if err then Some (exit_items c m s, rw1, RExn EMachine)
              else if exhausted then Some (exit_items c m s ++ fail_items c m d, rw1, RTrue)
              else
                match run_cbs srworld (fun y => sp_state (sw_m (srw_w y) m)) srw_calls srbump
                              (fun y e' => spec_rstep f c tr y m e') tr m
                              (fs_enter (sdef c d)) rw1 with
                | None => None
                | Some (it, rw2, None) => Some (exit_items c m s ++ it, rw2, RTrue)
                | Some (it, rw2, Some x) => Some (exit_items c m s ++ it, rw2, RExn x)
                end
          end
      end
  end.

Fixpoint spec_rrun (fuel : nat) (c : fcfg) (tr : retrig) (rw : srworld) (h : list (fmodel * fevent))
  : list (option (list fitem * srworld * fres)) :=
  match h with
  | [] => []
  | (m, e) :: rest =>
      match spec_rstep fuel c tr rw m e with
      | None => [None]
      | Some o => Some o :: spec_rrun fuel c tr (snd (fst o)) rest
      end
  end.

Definition no_retrig : retrig := fun _ => None.
