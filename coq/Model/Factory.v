(* Factory.v — the predefined classes of transitions/extensions/factory.py seen from the base
   Machine: the factory table lookup (MachineFactory.get_predefined over _CLASS_MAP), the
   EMBEDDING of a flat configuration into a hierarchical one (every state a top-level leaf
   without children, every transition declared globally with one-element paths — what
   HierarchicalMachine.add_states/add_transition build from flat names), and the two mixin
   wrappers that do not belong to an engine of their own: the graph mixin's _change_state
   (TransitionGraphSupport, diagrams.py / the inlined copy in asyncio.py) and the lock wrapper of
   LockedEvent.trigger / LockedMachine._locked_method (locking.py) for ONE thread.
   Definitions only. *)
From Coq Require Import List Arith Bool.
From M Require Import Base Flat Hsm.
Import ListNotations.

(* ------------------------------------------------------------------ the factory *)
(* (graph, nested, locked, asyncio) *)
Definition flags := (bool * bool * bool * bool)%type.

Definition flags_eqb (a b : flags) : bool :=
  match a, b with
  | (g, n, l, y), (g', n', l', y') => Bool.eqb g g' && Bool.eqb n n' && Bool.eqb l l' && Bool.eqb y y'
  end.

(* the reflected table: for a key either the feature set of the class stored there (membership
   of GraphMachine, HierarchicalMachine, LockedMachine, AsyncMachine in its MRO) or None when
   _CLASS_MAP has no such key *)
Definition class_table := list (flags * option flags).

Fixpoint table_get (tbl : class_table) (k : flags) : option flags :=
  match tbl with
  | [] => None
  | (k', v) :: r => if flags_eqb k k' then v else table_get r k
  end.

(* MachineFactory.get_predefined: _CLASS_MAP[key], KeyError -> ValueError; the observation of
   the returned class is its feature set *)
Definition get_predefined (tbl : class_table) (k : flags) : exn + flags :=
  match table_get tbl k with
  | Some f => inr f
  | None => inl ValueError
  end.

(* what the property demands: exactly the requested features, ValueError exactly for
   locked /\ asyncio *)
Definition factory_spec (k : flags) : exn + flags :=
  match k with
  | (_, _, l, y) => if l && y then inl ValueError else inr k
  end.

Definition all_flags : list flags :=
  flat_map (fun g => flat_map (fun n => flat_map (fun l => map (fun y => (g, n, l, y)) [false; true])
                                                   [false; true]) [false; true]) [false; true].

(* ------------------------------------------------------------------ the embedding *)
Definition embed_trans (t : trans) : htrans :=
  mkHT [t_src t] (match t_dst t with Some d => Some [d] | None => None end)
       (t_prepare t) (t_conds t) (t_before t) (t_after t).

Definition embed_sd (n : state) (sd : sdef) : sdefn :=
  SDef n (s_enter sd) (s_exit sd) [] (s_final sd) (s_ignore sd) [] [] [].

Definition embed_events (evs : list (event * list trans)) : list (event * list htrans) :=
  map (fun et => (fst et, map embed_trans (snd et))) evs.

Definition embed (mc : machine) : hmachine :=
  mkHM (map (fun p => embed_sd (fst p) (snd p)) (m_states mc))
       (embed_events (m_events mc))
       (m_prepare_event mc) (m_before_sc mc) (m_after_sc mc) (m_finalize mc)
       (m_on_exception mc) (m_on_final mc) (m_ignore mc) (m_send_event mc).

(* the model's state value 's' is the configuration {s: {}} *)
Definition embed_state (s : state) : forest := [Node s []].
(* back: one-node forests are state ids (anything else is not the image of a flat state) *)
Definition unembed_state (f : forest) : state :=
  match f with
  | [Node s []] => s
  | _ => 999
  end.

Definition map_item {V W : Type} (f : V -> W) (it : gitem V) : gitem W :=
  mkGItem (it_slot it) (it_cb it) (it_model it) (f (it_state it)) (it_arg it) (it_err it)
          (it_ret it) (it_acts it).

Definition embed_item : item -> gitem forest := map_item embed_state.
Definition unembed_item : gitem forest -> item := map_item unembed_state.

(* a flat run result seen through the embedding / a hierarchical one mapped back *)
Definition embed_result {A} (x : list item * state * (exn + A)) : list (gitem forest) * forest * (exn + A) :=
  match x with (t, s, r) => (map embed_item t, embed_state s, r) end.
Definition unembed_result {A} (x : list (gitem forest) * forest * (exn + A)) : list item * state * (exn + A) :=
  match x with (t, f, r) => (map unembed_item t, unembed_state f, r) end.

(* the envelope of C09_hsm_flat: known event names *)
Definition known_event (mc : machine) (e : event) : bool :=
  match lookup (m_events mc) e with Some _ => true | None => false end.

(* the hierarchical engine on the embedding, mapped back to flat observations *)
Definition hsm_trigger (mc : machine) (ev : env) (c : ctx) (e : event) : M (V:=state) (S:=state) bool :=
  fun p s => unembed_result (Hsm.trigger_event (embed mc) ev c e p (embed_state s)).
Definition hsm_can_trigger (mc : machine) (ev : env) (c : ctx) (e : event) : M (V:=state) (S:=state) bool :=
  fun p s => unembed_result (Hsm.can_trigger (embed mc) ev c e p (embed_state s)).

(* ------------------------------------------------------------------ mixin wrappers *)
Section Wrappers.
  Context {V St X : Type}.

  (* a step of the machine proper run in a world that also contains extension state X
     (diagram styling, locks): it neither reads nor writes X *)
  Definition lift {A} (m : M (V:=V) (S:=St) A) : M (V:=V) (S:=St * X) A :=
    fun p sx => match m p (fst sx) with (t, s', r) => (t, (s', snd sx), r) end.

  (* an update of the extension state that may read the machine state (no callback runs) *)
  Definition modify_ext (f : St -> X -> X) : M (V:=V) (S:=St * X) unit :=
    fun _ sx => ([], (fst sx, f (fst sx) (snd sx)), inr tt).

  Definition forget {A} (x : list (gitem V) * (St * X) * (exn + A)) : list (gitem V) * St * (exn + A) :=
    match x with (t, sx, r) => (t, fst sx, r) end.
End Wrappers.

(* diagram styling of one model's graph: which edge is marked 'previous', which node 'active',
   and how often the styling was reset *)
Record gstyle (V : Type) : Type := mkStyle {
  gs_previous : option (state * state);
  gs_active : option V;
  gs_resets : nat
}.
Arguments mkStyle {V}. Arguments gs_previous {V}. Arguments gs_active {V}. Arguments gs_resets {V}.

Section Graph.
  Context {V St : Type}.
  Variable seen : St -> V.
  Definition reset_styling (g : gstyle V) : gstyle V := mkStyle None None (S (gs_resets g)).
  Definition set_previous (src dst : state) (g : gstyle V) : gstyle V :=
    mkStyle (Some (src, dst)) (gs_active g) (gs_resets g).
  Definition set_active (v : V) (g : gstyle V) : gstyle V :=
    mkStyle (gs_previous g) (Some v) (gs_resets g).

  (* TransitionGraphSupport._change_state:
       graph.reset_styling(); graph.set_previous_transition(source, dest)
       super()._change_state(event_data)
       graph.set_node_style(model.state, 'active')          (skipped when the inner call raised) *)
  Definition graph_change_state {A} (src dst : state) (inner : M (V:=V) (S:=St) A)
    : M (V:=V) (S:=St * gstyle V) A :=
    modify_ext (fun _ g => reset_styling g) ;;;
    modify_ext (fun _ g => set_previous src dst g) ;;;
    (a <- lift inner ;;
     modify_ext (fun s g => set_active (seen s) g) ;;;
     ret a).
End Graph.

(* locks of one model: acquisition count of every context manager in
   machine.model_context_map[id(model)] (PicklableLock, user contexts) and IdentManager.current *)
Record lockst : Type := mkLock { lk_counts : list nat; lk_ident : nat }.
Definition lock_free (l : lockst) : bool :=
  forallb (fun n => Nat.eqb n 0) (lk_counts l) && Nat.eqb (lk_ident l) 0.

Section Locked.
  Context {V St : Type}.
  (* with nested(contexts...): __enter__ of every context, in order; the IdentManager records the
     thread *)
  Definition enter_all (me : nat) (l : lockst) : lockst := mkLock (map S (lk_counts l)) me.
  (* ExitStack unwinding: __exit__ of every context; IdentManager.current := 0 *)
  Definition exit_all (l : lockst) : lockst := mkLock (map pred (lk_counts l)) 0.

  (* LockedEvent.trigger / LockedMachine._locked_method by thread [me]:
       if machine._ident.current != get_ident():  with nested(contexts...): return inner()
       else: return inner()
     the with-statement releases on normal return and on exception alike *)
  Definition locked_call {A} (me : nat) (inner : M (V:=V) (S:=St) A) : M (V:=V) (S:=St * lockst) A :=
    fun p sx =>
      if Nat.eqb (lk_ident (snd sx)) me then lift inner p sx
      else
        finally_
          (modify_ext (fun _ l => enter_all me l) ;;; lift inner)
          (modify_ext (fun _ l => exit_all l)) p sx.
End Locked.

(* ------------------------------------------------------------------ histories *)
(* a history of calls model.trigger(event, payload) on one model, positions running on *)
Section History.
  Context {V St : Type}.
  Variable step : ctx -> event -> M (V:=V) (S:=St) bool.
  Fixpoint run_events (h : list (ctx * event)) (p : nat) (s : St)
    : list (list (gitem V) * (exn + bool)) * St :=
    match h with
    | [] => ([], s)
    | (c, e) :: rest =>
        match step c e p s with
        | (t, s', r) =>
            match run_events rest (p + length t) s' with
            | (l, s'') => ((t, r) :: l, s'')
            end
        end
    end.
End History.
