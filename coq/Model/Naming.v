(* Naming.v — the helpers a machine puts on its models (C11).
   Names are Coq [string]s because prefixes (is_, to_, may_), the model_attribute infix,
   separators and clashes with attributes the model already has are the subject matter.

   Part 1 (flat, transitions/core.py): Machine.add_model, _add_model_to_state,
   _add_trigger_to_model, _checked_assignment, add_states (+ auto transitions),
   add_transition (+ check against model_attribute), remove_transition (+ delattr),
   get_triggers, get_transitions, is_state, Event.trigger, _get_trigger, _can_trigger.
   Conditions are constants (the flag [t_ok]); callbacks are not part of this property.
   A model object is (class attributes, instance dict); getattr looks in the instance
   first.  Mirrors the code as it is, including: [getattr(model, name, None) is None]
   treating a None-valued attribute as missing; remove_transition deleting the attribute
   named like the trigger from every model (AttributeError when it is not in the
   instance dict, leaving earlier models without the helper and the event in place).

   Part 2 (nested, transitions/extensions/nesting.py): names of nested states, the
   helper names with '_' and custom separators (FunctionWrapper paths), is_state as a
   tree walk with allow_substates, get_triggers with parent delegation,
   get_transitions with nested scopes and delegate. *)
From Coq Require Import List Arith Bool String Ascii.
Import ListNotations.
Open Scope string_scope.
Open Scope list_scope.   (* [++] is list append; strings use [append] *)

(* ------------------------------------------------------------------ dictionaries *)
Fixpoint alookup {A} (k : string) (l : list (string * A)) : option A :=
  match l with
  | [] => None
  | (k', v) :: r => if String.eqb k k' then Some v else alookup k r
  end.
(* d[k] = v : replace in place, else append (Python dict order) *)
Fixpoint aset {A} (k : string) (v : A) (l : list (string * A)) : list (string * A) :=
  match l with
  | [] => [(k, v)]
  | (k', v') :: r => if String.eqb k k' then (k, v) :: r else (k', v') :: aset k v r
  end.
Fixpoint adel {A} (k : string) (l : list (string * A)) : list (string * A) :=
  match l with
  | [] => []
  | (k', v') :: r => if String.eqb k k' then adel k r else (k', v') :: adel k r
  end.
Fixpoint smem (k : string) (l : list string) : bool :=
  match l with [] => false | x :: r => String.eqb k x || smem k r end.

(* ------------------------------------------------------------------ configuration, names *)
Record cfg := mkCfg { c_attr : string; c_auto : bool; c_over : bool; c_ignore : bool }.

(* 'is_%s' % name when model_attribute == 'state', else 'is_%s_%s' % (model_attribute, name) *)
Definition infix_name (c : cfg) (s : string) : string :=
  if String.eqb (c_attr c) "state" then s else append (c_attr c) (append "_" s).
Definition is_name (c : cfg) (s : string) : string := append "is_" (infix_name c s).
Definition to_name (c : cfg) (s : string) : string := append "to_" (infix_name c s).
Definition may_name (e : string) : string := append "may_" e.

Inductive exn := MachineError | AttributeError | ValueError | KeyError | TypeError.

(* ------------------------------------------------------------------ model objects *)
Inductive aval :=
| VPre (k : nat)        (* a callable the model defined itself; returns k *)
| VOwn (k : nat)        (* a value the model defined itself that is not callable and not None —
                           possibly falsy (False, 0, '', [], {}): defined all the same *)
| VNone                 (* attribute bound to None *)
| VTrigger              (* partial(machine._get_trigger, model) *)
| VMayTrigger           (* partial(machine._can_trigger, model) *)
| VEvent (e : string)   (* partial(machine.events[e].trigger, model) *)
| VMay (e : string)     (* partial(machine._can_trigger, model, e) *)
| VIs (s : string)      (* partial(machine.is_state, <state s>, model) *)
| VState (s : string).  (* value of the state attribute *)

(* o_pre: the instance dict the object had when the user created it (never changed by the
   machine; only used to state that pre-existing attributes survive) *)
Record mobj := mkObj { o_id : nat; o_cls : list (string * aval); o_inst : list (string * aval);
                       o_pre : list (string * aval) }.
Definition new_obj (i : nat) (cls inst : list (string * aval)) : mobj := mkObj i cls inst inst.
Definition orig (o : mobj) : mobj := mkObj (o_id o) (o_cls o) (o_pre o) (o_pre o).

Definition getattr (o : mobj) (n : string) : option aval :=
  match alookup n (o_inst o) with Some v => Some v | None => alookup n (o_cls o) end.
Definition setattr (o : mobj) (n : string) (v : aval) : mobj :=
  mkObj (o_id o) (o_cls o) (aset n v (o_inst o)) (o_pre o).
(* delattr(model, n): AttributeError unless n is in the instance dict *)
Definition delattr (o : mobj) (n : string) : option mobj :=
  match alookup n (o_inst o) with
  | Some _ => Some (mkObj (o_id o) (o_cls o) (adel n (o_inst o)) (o_pre o))
  | None => None
  end.
(* getattr(model, name, None) is None *)
Definition missing (x : option aval) : bool :=
  match x with None | Some VNone => true | _ => false end.
(* _checked_assignment: (bound_func is None) ^ model_override *)
Definition checked (c : cfg) (o : mobj) (n : string) (v : aval) : mobj :=
  if xorb (missing (getattr o n)) (c_over c) then setattr o n v else o.

Definition add_trigger_to_model (c : cfg) (e : string) (o : mobj) : mobj :=
  checked c (checked c o e (VEvent e)) (may_name e) (VMay e).
Definition add_model_to_state (c : cfg) (s : string) (o : mobj) : mobj :=
  checked c o (is_name c s) (VIs s).

Definition cur_state (c : cfg) (o : mobj) : option string :=
  match getattr o (c_attr c) with Some (VState s) => Some s | _ => None end.

(* ------------------------------------------------------------------ the machine *)
Record trans := mkT { t_src : string; t_dst : option string; t_ok : bool }.
Definition tmap := list (string * list trans).   (* Event.transitions: source -> list *)
Record mach := mkM { m_states : list string; m_events : list (string * tmap);
                     m_initial : option string; m_models : list mobj }.
Definition empty_mach : mach := mkM [] [] None [].

Inductive srcspec := SAll | SList (l : list string).
Inductive dstspec := DName (d : string) | DSame | DNone.

Definition tm_append (tm : tmap) (t : trans) : tmap :=
  match alookup (t_src t) tm with
  | Some l => aset (t_src t) (l ++ [t]) tm
  | None => tm ++ [(t_src t, [t])]
  end.
Definition mk_trans (d : dstspec) (ok : bool) (s : string) : trans :=
  mkT s (match d with DName x => Some x | DSame => Some s | DNone => None end) ok.

Definition add_transition (c : cfg) (m : mach) (trig : string) (src : srcspec) (d : dstspec)
  (ok : bool) : mach * option exn :=
  if String.eqb trig (c_attr c) then (m, Some ValueError) else
  let fresh := match alookup trig (m_events m) with None => true | Some _ => false end in
  let evs := if fresh then m_events m ++ [(trig, [])] else m_events m in
  let mods := if fresh then map (add_trigger_to_model c trig) (m_models m) else m_models m in
  let sources := match src with SAll => m_states m | SList l => l end in
  let tm0 := match alookup trig evs with Some tm => tm | None => [] end in
  let tm1 := fold_left (fun tm s => tm_append tm (mk_trans d ok s)) sources tm0 in
  (mkM (m_states m) (aset trig tm1 evs) (m_initial m) mods, None).

(* remove_transition(trigger, source, dest); None = "*" *)
Definition rm_keep (src dst : option string) (t : trans) : bool :=
  (match src with Some s => negb (String.eqb (t_src t) s) | None => false end)
  || (match dst with
      | Some d => match t_dst t with Some d' => negb (String.eqb d' d) | None => true end
      | None => false end).
Definition rm_tmap (src dst : option string) (tm : tmap) : tmap :=
  filter (fun kv => match snd kv with [] => false | _ => true end)
         (map (fun kv => (fst kv, filter (rm_keep src dst) (snd kv))) tm).
(* for model in self.models: delattr(model, trigger) — stops at the first failure *)
Fixpoint delattr_all (n : string) (l : list mobj) : list mobj * bool :=
  match l with
  | [] => ([], true)
  | o :: r => match delattr o n with
              | Some o' => let (r', b) := delattr_all n r in (o' :: r', b)
              | None => (o :: r, false)
              end
  end.
Definition remove_transition (c : cfg) (m : mach) (trig : string) (src dst : option string)
  : mach * option exn :=
  match alookup trig (m_events m) with
  | None => (m, Some KeyError)
  | Some tm =>
      match rm_tmap src dst tm with
      | [] => let (mods, ok) := delattr_all trig (m_models m) in
              if ok then (mkM (m_states m) (adel trig (m_events m)) (m_initial m) mods, None)
              else (mkM (m_states m) (m_events m) (m_initial m) mods, Some AttributeError)
      | tm' => (mkM (m_states m) (aset trig tm' (m_events m)) (m_initial m) (m_models m), None)
      end
  end.

(* add_states for one plain name: register, is_ helper on every model, auto transitions *)
Definition add_state (c : cfg) (m : mach) (n : string) : mach :=
  let sts := if smem n (m_states m) then m_states m else m_states m ++ [n] in
  let m1 := mkM sts (m_events m) (m_initial m) (map (add_model_to_state c n) (m_models m)) in
  if c_auto c then
    fold_left (fun acc a =>
                 fst (add_transition c acc (to_name c a)
                        (if String.eqb a n then SAll else SList [n]) (DName a) true))
              sts m1
  else m1.
Definition add_states (c : cfg) (m : mach) (ns : list string) : mach := fold_left (add_state c) ns m.

(* the setter of Machine.initial *)
Definition set_initial (c : cfg) (m : mach) (s : string) : mach :=
  let m' := if smem s (m_states m) then m else add_state c m s in
  mkM (m_states m') (m_events m') (Some s) (m_models m').

Definition decorate (c : cfg) (m : mach) (o : mobj) : mobj :=
  let o1 := checked c o "trigger" VTrigger in
  let o2 := checked c o1 "may_trigger" VMayTrigger in
  let o3 := fold_left (fun o e => add_trigger_to_model c e o) (map fst (m_events m)) o2 in
  fold_left (fun o s => add_model_to_state c s o) (m_states m) o3.

Definition add_model (c : cfg) (m : mach) (o : mobj) (init : option string) : mach * option exn :=
  match (match init with Some i => Some i | None => m_initial m end) with
  | None => (m, Some ValueError)
  | Some i =>
      if existsb (fun o' => Nat.eqb (o_id o') (o_id o)) (m_models m) then (m, None)
      else if smem i (m_states m)
           then (mkM (m_states m) (m_events m) (m_initial m)
                     (m_models m ++ [setattr (decorate c m o) (c_attr c) (VState i)]), None)
           else (m, Some ValueError)
  end.

(* ------------------------------------------------------------------ queries *)
(* [t for (t, ev) in events.items() if any(name in ev.transitions for name in names)] *)
Definition has_key (tm : tmap) (s : string) : bool :=
  match alookup s tm with Some _ => true | None => false end.
Definition get_triggers (m : mach) (names : list string) : list string :=
  map fst (filter (fun ev => existsb (has_key (snd ev)) names) (m_events m)).

(* get_transitions(trigger, source, dest): "" trigger = all events; "*" or "" = any *)
Definition wild (x : string) : bool := String.eqb x "*" || String.eqb x "".
Definition tr_match (src dst : string) (t : trans) : bool :=
  (wild src || String.eqb (t_src t) src)
  && (wild dst || match t_dst t with Some d => String.eqb d dst | None => false end).
Definition tm_all (tm : tmap) : list trans := flat_map snd tm.
Definition get_transitions (m : mach) (trig src dst : string) : list trans :=
  let evs := if String.eqb trig "" then m_events m
             else match alookup trig (m_events m) with Some tm => [(trig, tm)] | None => [] end in
  filter (tr_match src dst) (flat_map (fun ev => tm_all (snd ev)) evs).

(* ------------------------------------------------------------------ calling helpers *)
Inductive res := RBool (b : bool) | RExn (e : exn) | RUser (k : nat).

(* the first candidate whose condition passes is executed *)
Fixpoint exec_first (c : cfg) (m : mach) (o : mobj) (l : list trans) : mobj * res :=
  match l with
  | [] => (o, RBool false)
  | t :: r =>
      if t_ok t then
        match t_dst t with
        | None => (o, RBool true)
        | Some d => if String.eqb d "" then (o, RBool true)      (* `if self.dest:` *)
                    else if smem d (m_states m) then (setattr o (c_attr c) (VState d), RBool true)
                    else (o, RExn ValueError)
        end
      else exec_first c m o r
  end.

(* Event.trigger(model) *)
Definition fire (c : cfg) (m : mach) (o : mobj) (tm : tmap) : mobj * res :=
  match cur_state c o with
  | None => (o, RExn AttributeError)
  | Some cur =>
      if smem cur (m_states m) then
        match alookup cur tm with
        | None => if c_ignore c then (o, RBool false) else (o, RExn MachineError)
        | Some l => exec_first c m o l
        end
      else (o, RExn ValueError)
  end.

(* Machine._get_trigger(model, name) *)
Definition call_trigger (c : cfg) (m : mach) (o : mobj) (name : string) : mobj * res :=
  match alookup name (m_events m) with
  | Some tm => fire c m o tm
  | None =>
      match cur_state c o with
      | None => (o, RExn AttributeError)
      | Some cur => if smem cur (m_states m)
                    then if c_ignore c then (o, RBool false) else (o, RExn AttributeError)
                    else (o, RExn ValueError)
      end
  end.

(* Machine._can_trigger(model, name) *)
Definition can_trigger (c : cfg) (m : mach) (o : mobj) (name : string) : res :=
  match cur_state c o with
  | None => RExn AttributeError
  | Some cur =>
      if smem cur (m_states m) then
        match alookup name (m_events m) with
        | None => RBool false
        | Some tm =>
            match alookup cur tm with
            | None => RBool false
            | Some l => RBool (existsb (fun t => t_ok t &&
                                  match t_dst t with None => true | Some d => smem d (m_states m) end) l)
            end
        end
      else RExn ValueError
  end.

(* getattr(model, n)(arg): arg = None for a call without arguments *)
Definition call_attr (c : cfg) (m : mach) (o : mobj) (n : string) (arg : option string) : mobj * res :=
  match getattr o n with
  | None => (o, RExn AttributeError)
  | Some (VPre k) => (o, RUser k)
  | Some (VOwn _) => (o, RExn TypeError)
  | Some VNone => (o, RExn TypeError)
  | Some (VState _) => (o, RExn TypeError)
  | Some VTrigger => match arg with Some e => call_trigger c m o e | None => (o, RExn TypeError) end
  | Some VMayTrigger => match arg with Some e => (o, can_trigger c m o e) | None => (o, RExn TypeError) end
  | Some (VEvent e) =>
      match alookup e (m_events m) with
      | Some tm => fire c m o tm
      | None => (o, RExn AttributeError)    (* unreachable: helper and event are removed together *)
      end
  | Some (VMay e) => (o, can_trigger c m o e)
  | Some (VIs s) => (o, match cur_state c o with
                        | Some cur => RBool (String.eqb cur s)
                        | None => RExn AttributeError end)
  end.

(* ------------------------------------------------------------------ histories *)
Inductive op :=
| OAddStates (ns : list string)
| OSetInitial (s : string)
| OAddTransition (trig : string) (src : srcspec) (d : dstspec) (ok : bool)
| ORemoveTransition (trig : string) (src dst : option string)
| OAddModel (o : mobj) (init : option string)
| OCall (mid : nat) (n : string) (arg : option string).   (* getattr(model mid, n)(arg) *)

Fixpoint replace_obj (o : mobj) (l : list mobj) : list mobj :=
  match l with
  | [] => []
  | x :: r => if Nat.eqb (o_id x) (o_id o) then o :: r else x :: replace_obj o r
  end.
Definition find_obj (mid : nat) (l : list mobj) : option mobj :=
  find (fun o => Nat.eqb (o_id o) mid) l.

Inductive outcome := Done | Raised (e : exn) | Returned (r : res).

Definition step (c : cfg) (m : mach) (x : op) : mach * outcome :=
  match x with
  | OAddStates ns => (add_states c m ns, Done)
  | OSetInitial s => (set_initial c m s, Done)
  | OAddTransition trig src d ok =>
      let (m', e) := add_transition c m trig src d ok in
      (m', match e with Some e => Raised e | None => Done end)
  | ORemoveTransition trig src dst =>
      let (m', e) := remove_transition c m trig src dst in
      (m', match e with Some e => Raised e | None => Done end)
  | OAddModel o init =>
      (* the object as the user created it: its instance dict is remembered in o_pre *)
      let (m', e) := add_model c m (new_obj (o_id o) (o_cls o) (o_inst o)) init in
      (m', match e with Some e => Raised e | None => Done end)
  | OCall mid n arg =>
      match find_obj mid (m_models m) with
      | None => (m, Raised KeyError)
      | Some o => let (o', r) := call_attr c m o n arg in
                  (mkM (m_states m) (m_events m) (m_initial m) (replace_obj o' (m_models m)), Returned r)
      end
  end.

Definition run (c : cfg) (ops : list op) : mach := fold_left (fun m x => fst (step c m x)) ops empty_mach.

(* ------------------------------------------------------------------ readable specifications *)
(* the machine as a plain relation: (event, transition) in definition order *)
Definition flatten (m : mach) : list (string * trans) :=
  flat_map (fun ev => map (fun t => (fst ev, t)) (tm_all (snd ev))) (m_events m).

(* the is_ helpers of a model that the machine bound, and those of them that answer True *)
Definition is_bound (c : cfg) (o : mobj) (s : string) : bool :=
  match getattr o (is_name c s) with Some (VIs _) => true | _ => false end.
Definition is_true (c : cfg) (m : mach) (o : mobj) (s : string) : bool :=
  match getattr o (is_name c s) with
  | Some (VIs _) => match snd (call_attr c m o (is_name c s) None) with RBool b => b | _ => false end
  | _ => false
  end.

(* ------------------------------------------------------------------ well-formedness (envelope of the theorems) *)
Fixpoint starts (p s : string) : bool :=
  match p with
  | EmptyString => true
  | String a p' => match s with
                   | EmptyString => false
                   | String b s' => Ascii.eqb a b && starts p' s'
                   end
  end.
(* a name a user may give to an event (or to the state attribute): not shaped like a helper *)
Definition user_event (e : string) : bool :=
  negb (starts "is_" e) && negb (starts "to_" e) && negb (starts "may_" e) && negb (String.eqb e "trigger").
Definition wf_cfg (c : cfg) : bool := user_event (c_attr c).
Definition pre_val (v : aval) : bool := match v with VPre _ | VOwn _ | VNone => true | _ => false end.
(* a value the model defined (anything but None, whatever its truth value) *)
Definition own_val (v : aval) : bool := match v with VPre _ | VOwn _ => true | _ => false end.
Definition fresh_obj (c : cfg) (o : mobj) : bool :=
  forallb (fun nv => pre_val (snd nv)) (o_cls o) && forallb (fun nv => pre_val (snd nv)) (o_inst o)
  && match getattr o (c_attr c) with None => true | Some _ => false end.
(* every registered model carries the machine's own helper for the event in its instance dict *)
Definition own_helper (m : mach) (trig : string) : bool :=
  forallb (fun o => match alookup trig (o_inst o) with Some (VEvent _) => true | _ => false end) (m_models m).
Definition wf_op (c : cfg) (m : mach) (x : op) : bool :=
  match x with
  | OAddStates ns => forallb (fun n => negb (String.eqb n "")) ns
  | OSetInitial s => negb (String.eqb s "")
  | OAddTransition trig _ _ _ => String.eqb trig (c_attr c) || user_event trig
  | ORemoveTransition trig _ _ => user_event trig && own_helper m trig
  | OAddModel o _ => fresh_obj c o
  | OCall _ _ _ => true
  end.
(* the same without the clause on remove_transition (used by the refuted statement) *)
Definition wf_op_weak (c : cfg) (m : mach) (x : op) : bool :=
  match x with
  | ORemoveTransition trig _ _ => user_event trig
  | _ => wf_op c m x
  end.
Fixpoint wf_run (wf : cfg -> mach -> op -> bool) (c : cfg) (m : mach) (ops : list op) : bool :=
  match ops with
  | [] => true
  | x :: r => wf c m x && wf_run wf c (fst (step c m x)) r
  end.
Definition run_from (c : cfg) (m : mach) (ops : list op) : mach := fold_left (fun m x => fst (step c m x)) ops m.

(* ================================================================== Part 2: nested names *)
(* A state tree; names of nested states are the separator-joined paths (pre-order, as
   get_nested_state_names).  Segment names do not contain the separator. *)
Inductive stree := SN (name : string) (kids : list stree).

Fixpoint st_paths (pre : list string) (t : stree) : list (list string) :=
  match t with
  | SN n ks => (pre ++ [n]) ::
               (fix go (l : list stree) : list (list string) :=
                  match l with [] => [] | k :: r => st_paths (pre ++ [n]) k ++ go r end) ks
  end.
Definition forest_paths (f : list stree) : list (list string) := flat_map (st_paths []) f.
Definition join_path (sep : string) (p : list string) : string := String.concat sep p.

Fixpoint prefix_of (p q : list string) : bool :=
  match p with
  | [] => true
  | a :: p' => match q with [] => false | b :: q' => String.eqb a b && prefix_of p' q' end
  end.
(* HierarchicalMachine.is_state: walk the tree built from the active leaves along the path;
   every element must be present; at the end the subtree must be empty unless allow_substates.
   Over the list of active leaf paths: the path is a prefix of an active one, and no active
   path extends it strictly unless allow_substates. *)
Definition is_state_nested (active : list (list string)) (p : list string) (allow : bool) : bool :=
  existsb (prefix_of p) active
  && (allow || negb (existsb (fun q => prefix_of p q && negb (Nat.eqb (List.length q) (List.length p))) active)).

(* the helper under [name] of a model with the given own attributes, as _checked_assignment leaves it:
   0 = the model's own (k), 1 = None, 2 = the machine's helper, 9 = absent *)
Inductive hkind := KPre (k : nat) | KOwn (k : nat) | KNone | KHelper | KAbsent.
Definition checked_kind (over : bool) (own : option aval) : hkind :=
  match own with
  | Some (VPre k) => if over then KHelper else KPre k
  | Some (VOwn k) => if over then KHelper else KOwn k
  | Some VNone => if over then KNone else KHelper
  | _ => if over then KAbsent else KHelper
  end.
Definition own_kind (own : option aval) : hkind :=
  match own with Some (VPre k) => KPre k | Some (VOwn k) => KOwn k | Some VNone => KNone | _ => KAbsent end.

Record hcfg := mkH { h_sep : string; h_auto : bool; h_over : bool }.

(* with a custom separator the top-level is_/to_ attribute must be the machine's FunctionWrapper:
   an attribute of that name defined by the model makes add_model raise AttributeError *)
Definition wrapper_clash (h : hcfg) (f : list stree) (o : mobj) : bool :=
  negb (String.eqb (h_sep h) "_") &&
  existsb (fun t => match t with SN n _ =>
             (match getattr o (append "is_" n) with Some _ => true | None => false end)
             || (h_auto h && match getattr o (append "to_" n) with Some _ => true | None => false end)
           end) f.

Definition nested_is_kind (h : hcfg) (o : mobj) (p : list string) : hkind :=
  if String.eqb (h_sep h) "_" then checked_kind (h_over h) (getattr o (append "is_" (join_path "_" p)))
  else KHelper.
Definition nested_to_kind (h : hcfg) (o : mobj) (p : list string) : hkind :=
  if String.eqb (h_sep h) "_" then
    (if h_auto h then checked_kind (h_over h) (getattr o (append "to_" (join_path "_" p)))
     else own_kind (getattr o (append "to_" (join_path "_" p))))
  else if h_auto h then KHelper
  else match p with
       | [n] => own_kind (getattr o (append "to_" n))
       | _ => KAbsent
       end.
