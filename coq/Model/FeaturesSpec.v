(* FeaturesSpec.v — the contracts of the state features written down independently of
   the decorator's argument order: what a decorated machine is *documented* to do.
   Definitions only.  Proofs/FeaturesP.v proves the model of Features.v equal to this
   specification (traces, results, states: for every order; volatile objects: under the
   guard [vol_guard]). *)
From Coq Require Import List Arith Bool.
From M Require Import Features.
Import ListNotations.

(* ----------------------------------------------------------------- well-formedness *)
Definition registered (c : fcfg) (s : fstate_id) : bool :=
  existsb (fun sd => Nat.eqb (fst sd) s) (c_states c).
(* every destination is a registered state; the decorator's arguments build a class *)
Definition wf_cfg (c : fcfg) : bool :=
  decorate_ok (c_order c) &&
  forallb (fun t => match ft_dst t with Some d => registered c d | None => true end) (c_trans c).

(* ----------------------------------------------------------------- the specification
   Per model: its state, the number of consecutive entries into that state (the
   first one, from elsewhere, included), and the object created at its latest entry. *)
Record smodel : Type := mkSM {
  sp_state : fstate_id; sp_streak : nat; sp_obj : option nat;
  sp_pre : fhook -> option nat     (* instance attributes set before the machine was attached, still there *)
}.
Record sworld : Type := mkSW { sw_m : fmodel -> smodel; sw_n : nat (* objects created so far *) }.

Definition spec_init (s0 : fstate_id) : sworld := mkSW (fun _ => mkSM s0 0 None (fun _ => None)) 0.
Definition spec_init_p (s0 : fstate_id) (pre : fmodel -> fhook -> option nat) (k : nat) : sworld :=
  mkSW (fun m => mkSM s0 0 None (pre m)) k.

(* Error: the state has no outgoing transition and is not accepted
   (accepted=True or the tag 'accepted') *)
Definition is_error_state (c : fcfg) (d : fstate_id) : bool :=
  negb (has_trigger c d) && negb (fs_accepted (sdef c d) || nat_mem 0 (fs_tags (sdef c d))).

Definition spec_step (c : fcfg) (sw : sworld) (m : fmodel) (e : fevent)
  : list fitem * sworld * fres :=
  let x := sw_m sw m in
  let s := sp_state x in
  match first_cand (c_trans c) e s with
  | None =>
      ([], sw, if c_ignore c then RFalse
               else RExn (if event_known c e then EMachine else EAttribute))
  | Some t =>
      match ft_dst t with
      | None => ([], sw, RTrue)
      | Some d =>
          let o := c_order c in
          let err := has_error o && is_error_state c d in
          (* consecutive entries into d so far; an entry from another state starts afresh *)
          let k := if Nat.eqb s d then sp_streak x else 0 in
          let retries := fs_retries (sdef c d) in
          let exhausted := has_retry o && Nat.ltb 0 retries && Nat.ltb retries k in
          (exit_items c m s ++
             (if err then [] else if exhausted then fail_items c m d else enter_items c m d),
           mkSW (upd (sw_m sw) m
                     (mkSM d (if exhausted then k else S k)
                           (if has_volatile o then Some (sw_n sw) else None)
                           (* leaving s deletes whatever instance attribute bears its hook name *)
                           (if has_volatile o then upd (sp_pre x) (fs_hook (sdef c s)) None else sp_pre x)))
                (if has_volatile o then S (sw_n sw) else sw_n sw),
           if err then RExn EMachine else RTrue)
      end
  end.

Fixpoint spec_run (c : fcfg) (sw : sworld) (h : list (fmodel * fevent))
  : list (list fitem * sworld * fres) :=
  match h with
  | [] => []
  | (m, e) :: rest => let o := spec_step c sw m e in o :: spec_run c (snd (fst o)) rest
  end.

(* what a model is expected to hold: under the hook name of its current state the object
   created at its latest entry — whatever was under that name before —, under any other
   name nothing but what it carried from the start and no exit has removed *)
Definition spec_hooks (c : fcfg) (x : smodel) : fhook -> option nat :=
  fun h => match sp_obj x with
           | Some o => if Nat.eqb h (fs_hook (sdef c (sp_state x))) then Some o else sp_pre x h
           | None => sp_pre x h
           end.

(* ----------------------------------------------------------------- guards *)
Definition no_retries (c : fcfg) : bool :=
  forallb (fun sd => Nat.eqb (fs_retries (sdef c (fst sd))) 0) (c_states c).
Definition no_error_states (c : fcfg) : bool :=
  forallb (fun sd => negb (error_test c (fst sd))) (c_states c).

(* no mixin that can cut the enter chain stands before Volatile in the decorator:
   Retry only if no state has retries, Error only if no state is an error state *)
Fixpoint chain_cut_free (c : fcfg) (fs : list feature) : bool :=
  match fs with
  | [] => true
  | FVolatile :: _ => true
  | FRetry :: k => no_retries c && chain_cut_free c k
  | FError :: k => no_error_states c && chain_cut_free c k
  | FTags :: k => chain_cut_free c k
  end.
Definition vol_guard (c : fcfg) : bool := chain_cut_free c (c_order c).

(* feature-free configuration: no state uses Retry, and no state is an Error state *)
Definition feature_free (c : fcfg) : bool :=
  no_retries c && (negb (has_error (c_order c)) || no_error_states c).

(* projections used by the statements *)
Definition obs_trace (o : list fitem * world * fres) : list fitem := fst (fst o).
Definition obs_res (o : list fitem * world * fres) : fres := snd o.
Definition obs_world (o : list fitem * world * fres) : world := snd (fst o).
Definition sobs_trace (o : list fitem * sworld * fres) : list fitem := fst (fst o).
Definition sobs_res (o : list fitem * sworld * fres) : fres := snd o.
Definition sobs_world (o : list fitem * sworld * fres) : sworld := snd (fst o).

(* observation of a call without the feature bookkeeping: trace, result, a model's state *)
Definition obs_core (m : fmodel) (o : list fitem * world * fres) : list fitem * fres * fstate_id :=
  (obs_trace o, obs_res o, m_state (w_m (obs_world o) m)).
Definition sobs_core (m : fmodel) (o : list fitem * sworld * fres) : list fitem * fres * fstate_id :=
  (sobs_trace o, sobs_res o, sp_state (sw_m (sobs_world o) m)).

Fixpoint spec_run_world (c : fcfg) (sw : sworld) (h : list (fmodel * fevent)) : sworld :=
  match h with
  | [] => sw
  | (m, e) :: rest => spec_run_world c (sobs_world (spec_step c sw m e)) rest
  end.
