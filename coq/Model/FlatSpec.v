(* FlatSpec.v — the documented execution order of one flat event, written as one
   expression over lists (no monad, no exceptions).  It is the right-hand side of
   C01 and the oracle applied to implementation traces. *)
From Coq Require Import List Arith Bool.
From M Require Import Base Flat.
Import ListNotations.

Section Spec.
  Variable mc : machine.
  Variable ev : env.
  Variable c : ctx.

  Definition mk (sl : slot) (err : option exn) (st : state) (cb : cbid) (p : nat) : item :=
    let r := ev cb p in
    mkItem sl cb (c_model c) st (ctx_arg c) (if c_send c then err else None) (r_ret r) (r_acts r).

  (* every callback of a list, in order, at consecutive positions, all seeing [st] *)
  Fixpoint items (sl : slot) (err : option exn) (st : state) (cbs : list cbid) (p : nat) : list item :=
    match cbs with
    | [] => []
    | cb :: r => mk sl err st cb p :: items sl err st r (S p)
    end.

  (* conditions then unless-checks, up to and including the first that fails *)
  Fixpoint cond_items (st : state) (conds : list (cbid * bool)) (p : nat) : list item * bool :=
    match conds with
    | [] => ([], true)
    | (cb, tg) :: r =>
        let it := mk (if tg then SCond else SUnless) None st cb p in
        if Bool.eqb (r_ret (ev cb p)) tg
        then let (l, b) := cond_items st r (S p) in (it :: l, b)
        else ([it], false)
    end.

  (* candidates in definition order: prepare callbacks, then checks; stop after the
     first candidate whose checks all pass *)
  Fixpoint scan (st : state) (cands : list trans) (p : nat) : list item * option trans :=
    match cands with
    | [] => ([], None)
    | t :: r =>
        let pr := items SPrepare None st (t_prepare t) p in
        let (ci, ok) := cond_items st (t_conds t) (p + length pr) in
        if ok then (pr ++ ci, Some t)
        else let (rest, ch) := scan st r (p + length pr + length ci) in
             (pr ++ ci ++ rest, ch)
    end.

  (* may_<event>: for each candidate in order prepare_event, its prepare callbacks and its
     checks; stops after the first candidate whose checks all pass; nothing else runs *)
  Fixpoint may_scan (st : state) (cands : list trans) (p : nat) : list item * bool :=
    match cands with
    | [] => ([], false)
    | t :: r =>
        let pe := items SPrepareEvent None st (m_prepare_event mc) p in
        let pr := items SPrepare None st (t_prepare t) (p + length pe) in
        let (ci, ok) := cond_items st (t_conds t) (p + length pe + length pr) in
        if ok then (pe ++ pr ++ ci, true)
        else let (rest, b) := may_scan st r (p + length pe + length pr + length ci) in
             (pe ++ pr ++ ci ++ rest, b)
    end.

  Definition sdef_of (s : state) : sdef :=
    match get_state mc s with Some d => d | None => mkSdef [] [] false None end.

  (* what the chosen transition does: before_state_change, before, exit(source),
     [state change], enter(dest), on_final if dest is final, after, after_state_change *)
  Definition body (src : state) (t : trans) (p : nat) : list item * state :=
    let b1 := items SBeforeSC None src (m_before_sc mc) p in
    let b2 := items SBefore None src (t_before t) (p + length b1) in
    let p2 := p + length b1 + length b2 in
    let '(mid, st') :=
      match t_dst t with
      | None => ([], src)
      | Some d =>
          let ex := items SExit None src (s_exit (sdef_of src)) p2 in
          let en := items SEnter None d (s_enter (sdef_of d)) (p2 + length ex) in
          let fi := if s_final (sdef_of d)
                    then items SOnFinal None d (m_on_final mc) (p2 + length ex + length en)
                    else [] in
          (ex ++ en ++ fi, d)
      end in
    let a1 := items SAfter None st' (t_after t) (p2 + length mid) in
    let a2 := items SAfterSC None st' (m_after_sc mc) (p2 + length mid + length a1) in
    (b1 ++ b2 ++ mid ++ a1 ++ a2, st').

  (* everything up to (excluding) the finalize stage *)
  Definition spec_body (ts : list trans) (cur : state) (p : nat) : list item * state * bool :=
    let pe := items SPrepareEvent None cur (m_prepare_event mc) p in
    let (sc, ch) := scan cur (candidates ts cur) (p + length pe) in
    let '(bd, st', res) :=
      match ch with
      | None => ([], cur, false)
      | Some t => let (b, s') := body cur t (p + length pe + length sc) in (b, s', true)
      end in
    (pe ++ sc ++ bd, st', res).

  Definition spec_step (ts : list trans) (cur : state) (p : nat) : list item * state * bool :=
    let '(b, st', res) := spec_body ts cur p in
    (b ++ items SFinalize None st' (m_finalize mc) (p + length b), st', res).

  (* the current state is not a source of the event *)
  Definition spec_invalid (cur : state) (p : nat) : list item * state * outcome :=
    if ignores mc (sdef_of cur) then
      (items SFinalize None cur (m_finalize mc) p, cur, ORet false)
    else
      match m_on_exception mc with
      | [] => (items SFinalize (Some MachineError) cur (m_finalize mc) p, cur, OExn MachineError)
      | hs =>
          let h := items SOnException (Some MachineError) cur hs p in
          (h ++ items SFinalize (Some MachineError) cur (m_finalize mc) (p + length h), cur, ORet false)
      end.
End Spec.

(* well-formedness: the envelope of C01 *)
Definition dst_registered (mc : machine) (t : trans) : bool :=
  match t_dst t with None => true | Some d => match get_state mc d with Some _ => true | None => false end end.
Definition wf_trans (mc : machine) (ts : list trans) : bool := forallb (dst_registered mc) ts.
Definition registered (mc : machine) (s : state) : bool :=
  match get_state mc s with Some _ => true | None => false end.
Definition wf_machine (mc : machine) : bool :=
  forallb (fun et => wf_trans mc (snd et)) (m_events mc).
