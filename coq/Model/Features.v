(* Features.v — state feature mixins of transitions/extensions/states.py
   (Tags, Error, Volatile, Retry; Timeout is C17) composed by add_state_features.

   A decorated machine's state class is  CustomState(type('CustomState', args, {}), cls.state_cls):
   State.enter / State.exit of every state are wrapped, in the order of the decorator's
   arguments (the MRO), by the enter/exit methods of the mixins.  The model is a dedicated
   step function  (configuration, world, model, event) -> (trace items, world, result)
   mirroring Event.trigger/_trigger/_process, Transition.execute/_change_state (core.py)
   for condition-free transitions, with the mixins' code written out:

     Error.enter    : if not machine.get_triggers(self.name) and not self.is_accepted: raise MachineError
     Volatile.enter : setattr(model, hook, volatile_cls()); super().enter
     Volatile.exit  : super().exit; delattr(model, hook) (AttributeError swallowed)
     Retry.enter    : k = id(model); if transition.source != self.name: counts[k] = 0
                      if counts[k] > retries > 0: machine.callback(on_failure); return
                      counts[k] += 1; super().enter

   Definitions only; the world is total (functions from model / hook / state ids) so that
   "per-model bookkeeping" is literally a per-model record.  *)
From Coq Require Import List Arith Bool.
Import ListNotations.

Definition fstate_id := nat.
Definition fevent := nat.
Definition fcb := nat.
Definition fmodel := nat.
Definition fhook := nat.       (* name of the model attribute used by Volatile *)
Definition ftag := nat.        (* tag 0 stands for the string 'accepted' *)

Inductive feature : Type := FTags | FError | FVolatile | FRetry.
Definition feature_code (f : feature) : nat :=
  match f with FTags => 0 | FError => 1 | FVolatile => 2 | FRetry => 3 end.
Definition feature_eqb (a b : feature) : bool := Nat.eqb (feature_code a) (feature_code b).

Fixpoint fmem (f : feature) (l : list feature) : bool :=
  match l with [] => false | g :: r => feature_eqb f g || fmem f r end.
Fixpoint nat_mem (n : nat) (l : list nat) : bool :=
  match l with [] => false | k :: r => Nat.eqb n k || nat_mem n r end.

(* Keyword arguments of one state definition (those of absent mixins are not passed). *)
Record fsdef : Type := mkFS {
  fs_enter : list fcb;            (* on_enter *)
  fs_exit : list fcb;             (* on_exit *)
  fs_tags : list ftag;            (* tags=[...] *)
  fs_accepted : bool;             (* accepted=True *)
  fs_hook : fhook;                (* hook='...' (default 'scope') *)
  fs_retries : nat;               (* retries=n *)
  fs_on_failure : option fcb      (* on_failure=callable *)
}.
Definition fs_default : fsdef := mkFS [] [] [] false 0 0 None.

Record ftrans : Type := mkFT { ft_event : fevent; ft_src : fstate_id; ft_dst : option fstate_id }.

Record fcfg : Type := mkCfg {
  c_order : list feature;                 (* arguments of @add_state_features, in order *)
  c_states : list (fstate_id * fsdef);
  c_trans : list ftrans;                  (* in order of add_transition *)
  c_ignore : bool                         (* ignore_invalid_triggers of the machine *)
}.

Fixpoint sdef_in (l : list (fstate_id * fsdef)) (s : fstate_id) : fsdef :=
  match l with
  | [] => fs_default
  | (k, d) :: r => if Nat.eqb s k then d else sdef_in r s
  end.
Definition sdef (c : fcfg) (s : fstate_id) : fsdef := sdef_in (c_states c) s.

(* ----------------------------------------------------------------- decoration
   type('CustomState', args, {}) raises TypeError for a duplicate base and when no
   consistent MRO exists: Error derives from Tags, so Tags may not precede Error. *)
Fixpoint feat_nodup (l : list feature) : bool :=
  match l with [] => true | f :: r => negb (fmem f r) && feat_nodup r end.
Fixpoint tags_before_error (l : list feature) : bool :=
  match l with
  | [] => false
  | FTags :: r => fmem FError r || tags_before_error r
  | _ :: r => tags_before_error r
  end.
Definition decorate_ok (o : list feature) : bool := feat_nodup o && negb (tags_before_error o).

Definition has_tags (o : list feature) : bool := fmem FTags o || fmem FError o.   (* Error(Tags) *)
Definition has_error (o : list feature) : bool := fmem FError o.
Definition has_volatile (o : list feature) : bool := fmem FVolatile o.
Definition has_retry (o : list feature) : bool := fmem FRetry o.

(* ----------------------------------------------------------------- Tags / Error.__init__
   Error.__init__ appends 'accepted' to the tag list when accepted=True. *)
Definition eff_tags (c : fcfg) (s : fstate_id) : list ftag :=
  if has_error (c_order c) && fs_accepted (sdef c s) then fs_tags (sdef c s) ++ [0]
  else fs_tags (sdef c s).

(* state.is_<tag>: Tags.__getattr__ answers membership; without Tags in the MRO the
   attribute does not exist (None = AttributeError). *)
Definition tag_answer (c : fcfg) (s : fstate_id) (t : ftag) : option bool :=
  if has_tags (c_order c) then Some (nat_mem t (eff_tags c s)) else None.

(* machine.get_triggers(state) non-empty *)
Definition has_trigger (c : fcfg) (s : fstate_id) : bool :=
  existsb (fun t => Nat.eqb (ft_src t) s) (c_trans c).
(* the test of Error.enter *)
Definition error_test (c : fcfg) (s : fstate_id) : bool :=
  negb (has_trigger c s) && negb (nat_mem 0 (eff_tags c s)).

(* ----------------------------------------------------------------- world *)
Record mrec : Type := mkM {
  m_state : fstate_id;                  (* model.state *)
  m_hooks : fhook -> option nat;        (* model.<hook> : identity of the object, if set *)
  m_counts : fstate_id -> nat           (* state.retry_counts[id(model)] *)
}.
Record world : Type := mkW {
  w_m : fmodel -> mrec;
  w_fresh : nat                         (* identity of the next object to be created *)
}.

Definition upd {A} (f : nat -> A) (k : nat) (v : A) : nat -> A :=
  fun x => if Nat.eqb x k then v else f x.

Definition set_state (r : mrec) (s : fstate_id) : mrec := mkM s (m_hooks r) (m_counts r).
Definition set_hook (r : mrec) (h : fhook) (o : option nat) : mrec :=
  mkM (m_state r) (upd (m_hooks r) h o) (m_counts r).
Definition set_count (r : mrec) (s : fstate_id) (n : nat) : mrec :=
  mkM (m_state r) (m_hooks r) (upd (m_counts r) s n).

Definition init_mrec (s0 : fstate_id) : mrec := mkM s0 (fun _ => None) (fun _ => 0).
Definition init_world (s0 : fstate_id) : world := mkW (fun _ => init_mrec s0) 0.

(* Models that already carry instance attributes under hook names when the machine is
   attached: [pre m h] = identity of the object model m holds under name h; the [k] objects
   that exist before the first event are numbered 0..k-1, created ones from k on. *)
Definition init_world_p (s0 : fstate_id) (pre : fmodel -> fhook -> option nat) (k : nat) : world :=
  mkW (fun m => mkM s0 (pre m) (fun _ => 0)) k.

(* What getattr(model, hook) shows: the instance attribute, else the attribute of the
   model's class ([cls m h], never touched by the machine). *)
Definition visible (cls : fmodel -> fhook -> option nat) (w : world) (m : fmodel) (h : fhook) : option nat :=
  match m_hooks (w_m w m) h with Some o => Some o | None => cls m h end.

(* ----------------------------------------------------------------- observations *)
Inductive fitem : Type :=
| IExit (cb : fcb) (m : fmodel) (seen : fstate_id)
| IEnter (cb : fcb) (m : fmodel) (seen : fstate_id)
| IFail (cb : fcb) (m : fmodel) (seen : fstate_id).     (* on_failure *)

Inductive fexn : Type := EMachine | EAttribute | EType.
Inductive fres : Type := RTrue | RFalse | RExn (e : fexn).

Definition enter_items (c : fcfg) (m : fmodel) (d : fstate_id) : list fitem :=
  map (fun cb => IEnter cb m d) (fs_enter (sdef c d)).
Definition exit_items (c : fcfg) (m : fmodel) (s : fstate_id) : list fitem :=
  map (fun cb => IExit cb m s) (fs_exit (sdef c s)).
Definition fail_items (c : fcfg) (m : fmodel) (d : fstate_id) : list fitem :=
  match fs_on_failure (sdef c d) with Some cb => [IFail cb m d] | None => [] end.

(* ----------------------------------------------------------------- the enter chain
   [fs] = the mixins still ahead in the MRO; [src] = event_data.transition.source;
   the model's state attribute is already [d] (set_state precedes enter).
   Result: items, the model's record, the fresh counter, raised MachineError? *)
Fixpoint enter_chain (c : fcfg) (fs : list feature) (m : fmodel) (src d : fstate_id)
                     (r : mrec) (fresh : nat) : list fitem * mrec * nat * bool :=
  match fs with
  | [] => (enter_items c m d, r, fresh, false)                        (* State.enter *)
  | FTags :: k => enter_chain c k m src d r fresh                     (* no enter of its own *)
  | FError :: k =>
      if error_test c d then ([], r, fresh, true)
      else enter_chain c k m src d r fresh
  | FVolatile :: k =>
      enter_chain c k m src d (set_hook r (fs_hook (sdef c d)) (Some fresh)) (S fresh)
  | FRetry :: k =>
      let n0 := if Nat.eqb src d then m_counts r d else 0 in
      let r0 := set_count r d n0 in
      if Nat.ltb (fs_retries (sdef c d)) n0 && Nat.ltb 0 (fs_retries (sdef c d))
      then (fail_items c m d, r0, fresh, false)
      else enter_chain c k m src d (set_count r0 d (S n0)) fresh
  end.

(* the exit chain: only Volatile overrides exit (callbacks first, then delattr) *)
Definition exit_chain (c : fcfg) (m : fmodel) (s : fstate_id) (r : mrec) : list fitem * mrec :=
  (exit_items c m s,
   if has_volatile (c_order c) then set_hook r (fs_hook (sdef c s)) None else r).

(* ----------------------------------------------------------------- one trigger *)
Definition event_known (c : fcfg) (e : fevent) : bool :=
  existsb (fun t => Nat.eqb (ft_event t) e) (c_trans c).
Fixpoint first_cand (ts : list ftrans) (e : fevent) (s : fstate_id) : option ftrans :=
  match ts with
  | [] => None
  | t :: r => if Nat.eqb (ft_event t) e && Nat.eqb (ft_src t) s then Some t else first_cand r e s
  end.

Definition fstep (c : fcfg) (w : world) (m : fmodel) (e : fevent) : list fitem * world * fres :=
  if negb (event_known c e)                                           (* Machine._get_trigger: unknown event *)
  then ([], w, if c_ignore c then RFalse else RExn EAttribute)
  else
    let r := w_m w m in
    let s := m_state r in
    match first_cand (c_trans c) e s with
    | None => ([], w, if c_ignore c then RFalse else RExn EMachine)   (* _is_valid_source *)
    | Some t =>
        match ft_dst t with
        | None => ([], w, RTrue)                                      (* internal transition *)
        | Some d =>
            let '(ex, r1) := exit_chain c m s r in
            let r2 := set_state r1 d in
            let '(en, r3, fr, raised) := enter_chain c (c_order c) m s d r2 (w_fresh w) in
            (ex ++ en, mkW (upd (w_m w) m r3) fr, if raised then RExn EMachine else RTrue)
        end
    end.

(* a history is a list of (model, event); run collects the per-call observations *)
Fixpoint frun (c : fcfg) (w : world) (h : list (fmodel * fevent))
  : list (list fitem * world * fres) :=
  match h with
  | [] => []
  | (m, e) :: rest =>
      let o := fstep c w m e in o :: frun c (snd (fst o)) rest
  end.
Fixpoint frun_world (c : fcfg) (w : world) (h : list (fmodel * fevent)) : world :=
  match h with
  | [] => w
  | (m, e) :: rest => frun_world c (snd (fst (fstep c w m e))) rest
  end.

(* ----------------------------------------------------------------- construction
   State.__init__ receives the keyword arguments no mixin popped: TypeError.
   Retry.__init__ raises AttributeError for retries > 0 without on_failure (it runs
   before State.__init__).  [given] says which arguments the caller passes. *)
Record fgiven : Type := mkGiven { g_tags : bool; g_accepted : bool; g_hook : bool; g_retry : bool }.

Definition build_state (o : list feature) (g : fgiven) (d : fsdef) : option fexn :=
  if has_retry o && g_retry g && Nat.ltb 0 (fs_retries d) &&
     match fs_on_failure d with None => true | Some _ => false end
  then Some EAttribute
  else if (g_tags g && negb (has_tags o)) || (g_accepted g && negb (has_error o)) ||
          (g_hook g && negb (has_volatile o)) || (g_retry g && negb (has_retry o))
  then Some EType
  else None.

Fixpoint build_states (o : list feature) (l : list (fgiven * fsdef)) : option fexn :=
  match l with
  | [] => None
  | (g, d) :: r => match build_state o g d with Some e => Some e | None => build_states o r end
  end.

Definition build (o : list feature) (l : list (fgiven * fsdef)) : option fexn :=
  if decorate_ok o then build_states o l else Some EType.

(* ----------------------------------------------------------------- the undecorated machine *)
Definition plain_cfg (c : fcfg) : fcfg := mkCfg [] (c_states c) (c_trans c) (c_ignore c).
