(* FeaturesH.v — the state features on hierarchical machines (non-parallel state trees).
   A transition of HierarchicalMachine exits several states and enters several states
   (NestedTransition._resolve_transition / _enter_nested / _change_state, nesting.py); each
   of them runs the same mixin-wrapped exit / enter as in Features.v, with the same
   event_data (transition.source = the state the transition was declared on).  Inside
   scoped_enter / scoped_exit a nested state's [name] is its full name, so Error's
   get_triggers(self.name) and Retry's comparison with transition.source work on full
   names: states are identified here by one id per full name.

   [hstep] mirrors: HierarchicalMachine._trigger_event_nested (deepest active state first,
   then its ancestors), _resolve_transition (root = longest active prefix of the destination
   path; a destination that is itself active is re-entered below its parent), exits
   deepest first, model state set to the new leaf, enters outermost first followed by the
   chain of [initial] children; a MachineError raised by an enter aborts the remaining
   enters.  Definitions only. *)
From Coq Require Import List Arith Bool.
From M Require Import Features.
Import ListNotations.

Record hcfg : Type := mkH {
  h_cfg : fcfg;
  h_paths : list (fstate_id * list fstate_id);   (* state -> ids from its root ancestor down to itself *)
  h_init : list (fstate_id * fstate_id)          (* compound state -> its initial child *)
}.

Fixpoint lookup_path (l : list (fstate_id * list fstate_id)) (s : fstate_id) : list fstate_id :=
  match l with
  | [] => [s]
  | (k, p) :: r => if Nat.eqb s k then p else lookup_path r s
  end.
Definition hpath (hc : hcfg) (s : fstate_id) : list fstate_id := lookup_path (h_paths hc) s.

Fixpoint lookup_init (l : list (fstate_id * fstate_id)) (s : fstate_id) : option fstate_id :=
  match l with
  | [] => None
  | (k, ch) :: r => if Nat.eqb s k then Some ch else lookup_init r s
  end.
Fixpoint init_chain (hc : hcfg) (fuel : nat) (s : fstate_id) : list fstate_id :=
  match fuel with
  | 0 => []
  | S f => match lookup_init (h_init hc) s with
           | Some ch => ch :: init_chain hc f ch
           | None => []
           end
  end.

(* HierarchicalMachine.get_triggers(state) also lists the triggers of the state's ancestors
   ("no outgoing transition" of Error.enter means: none on the whole branch).  The enter /
   exit chains therefore run against a configuration in which every state also carries the
   transitions declared on its ancestors; event dispatch uses the declared ones. *)
Definition inherited (hc : hcfg) : list ftrans :=
  flat_map (fun sp => let s := fst sp in
                      flat_map (fun t => if nat_mem (ft_src t) (snd sp) && negb (Nat.eqb (ft_src t) s)
                                         then [mkFT (ft_event t) s (ft_dst t)] else [])
                               (c_trans (h_cfg hc)))
           (h_paths hc).
Definition chain_cfg (hc : hcfg) : fcfg :=
  let c := h_cfg hc in mkCfg (c_order c) (c_states c) (c_trans c ++ inherited hc) (c_ignore c).

(* (common prefix, rest of a, rest of d) *)
Fixpoint split_common (a d : list fstate_id) : list fstate_id * list fstate_id * list fstate_id :=
  match a, d with
  | x :: a', y :: d' =>
      if Nat.eqb x y
      then match split_common a' d' with (r, ra, rd) => (x :: r, ra, rd) end
      else ([], a, d)
  | _, _ => ([], a, d)
  end.

(* states exited (deepest first) and entered (outermost first) by a transition to [d]
   while the active path is [p] *)
Definition resolve (hc : hcfg) (p : list fstate_id) (d : fstate_id) : list fstate_id * list fstate_id :=
  let fuel := length (c_states (h_cfg hc)) in
  match split_common p (hpath hc d) with
  | (_, ra, []) => (rev (d :: ra), d :: init_chain hc fuel d)        (* d is active: re-entered *)
  | (_, ra, rd) => (rev ra, rd ++ init_chain hc fuel d)
  end.

Fixpoint cand_on_path (ts : list ftrans) (e : fevent) (ps : list fstate_id) : option ftrans :=
  match ps with
  | [] => None
  | a :: r => match first_cand ts e a with Some t => Some t | None => cand_on_path ts e r end
  end.

(* callbacks read the model's state attribute: the (old / new) leaf *)
Definition set_seen (leaf : fstate_id) (i : fitem) : fitem :=
  match i with
  | IExit cb m _ => IExit cb m leaf
  | IEnter cb m _ => IEnter cb m leaf
  | IFail cb m _ => IFail cb m leaf
  end.

Fixpoint run_exits (c : fcfg) (m : fmodel) (seen : fstate_id) (xs : list fstate_id) (r : mrec)
  : list fitem * mrec :=
  match xs with
  | [] => ([], r)
  | a :: rest =>
      match exit_chain c m a r with
      | (it, r1) => match run_exits c m seen rest r1 with
                    | (it2, r2) => (map (set_seen seen) it ++ it2, r2)
                    end
      end
  end.

Fixpoint run_enters (c : fcfg) (m : fmodel) (src seen : fstate_id) (es : list fstate_id)
                    (r : mrec) (fresh : nat) : list fitem * mrec * nat * bool :=
  match es with
  | [] => ([], r, fresh, false)
  | a :: rest =>
      match enter_chain c (c_order c) m src a r fresh with
      | (it, r1, f1, true) => (map (set_seen seen) it, r1, f1, true)
      | (it, r1, f1, false) =>
          match run_enters c m src seen rest r1 f1 with
          | (it2, r2, f2, x) => (map (set_seen seen) it ++ it2, r2, f2, x)
          end
      end
  end.

Definition hstep (hc : hcfg) (w : world) (m : fmodel) (e : fevent) : list fitem * world * fres :=
  let c := h_cfg hc in
  if negb (event_known c e)
  then ([], w, if c_ignore c then RFalse else RExn EAttribute)
  else
    let r := w_m w m in
    let leaf := m_state r in
    match cand_on_path (c_trans c) e (rev (hpath hc leaf)) with
    | None => ([], w, if c_ignore c then RFalse else RExn EMachine)
    | Some t =>
        match ft_dst t with
        | None => ([], w, RTrue)
        | Some d =>
            match resolve hc (hpath hc leaf) d with
            | (exits, enters) =>
                let leaf' := last enters d in
                match run_exits (chain_cfg hc) m leaf exits r with
                | (ex, r1) =>
                    match run_enters (chain_cfg hc) m (ft_src t) leaf' enters (set_state r1 leaf') (w_fresh w) with
                    | (en, r3, fr, raised) =>
                        (ex ++ en, mkW (upd (w_m w) m r3) fr, if raised then RExn EMachine else RTrue)
                    end
                end
            end
        end
    end.

Fixpoint hrun (hc : hcfg) (w : world) (h : list (fmodel * fevent)) : list (list fitem * world * fres) :=
  match h with
  | [] => []
  | (m, e) :: rest => let o := hstep hc w m e in o :: hrun hc (snd (fst o)) rest
  end.
Fixpoint hrun_world (hc : hcfg) (w : world) (h : list (fmodel * fevent)) : world :=
  match h with
  | [] => w
  | (m, e) :: rest => hrun_world hc (snd (fst (hstep hc w m e))) rest
  end.

(* every object a model holds was numbered by the counter (or existed from the start) *)
Definition held_below (r : mrec) (n : nat) : Prop := forall h o, m_hooks r h = Some o -> o < n.
Definition fresh_inv (w : world) : Prop := forall m, held_below (w_m w m) (w_fresh w).

Definition hplain (hc : hcfg) : hcfg := mkH (plain_cfg (h_cfg hc)) (h_paths hc) (h_init hc).
Definition hflat (c : fcfg) : hcfg := mkH c [] [].
