(* Timer.v — the Timeout / AsyncTimeout state feature (transitions/extensions/states.py,
   transitions/extensions/asyncio.py) on a flat machine, under an integer virtual clock.

   What is mirrored, as the code is:
     Timeout.__init__        : timeout > 0 without the keyword on_timeout -> AttributeError
     Timeout.enter           : if timeout > 0: timer = Timer(timeout, _process_timeout, ...); timer.start();
                               runner[id(model)] = timer          (the slot of that model is OVERWRITTEN);
                               then State.enter (on_enter callbacks)
     Timeout.exit            : timer = runner.get(id(model)); if timer is not None and timer.is_alive():
                               timer.cancel(); then State.exit (on_exit callbacks)
     Timeout._process_timeout: the on_timeout callbacks in order (threads: an exception of a callback leaves
                               the timer thread and the remaining callbacks are skipped; asyncio: the
                               callbacks are gathered — every one is started before any transition one of
                               them triggers proceeds —, the handler is shielded from the cancellation its
                               own transition issues, and the first exception is handed to the machine's
                               on_exception callbacks)
     core                    : Event.trigger / _trigger / _process, Transition.execute / _change_state for
                               transitions whose condition outcome is a constant; reflexive transitions exit
                               and enter, internal transitions (dest None) do neither; the initial state is
                               assigned, not entered (no timer); queued machines answer True.
     re-entrancy             : on_enter / on_exit callbacks may trigger an event on their model.  Unqueued
                               machines process it at once, INSIDE the running transition (explicit fuel: Python
                               would end in RecursionError); queued machines append it to the queue, answer True
                               and process it when the running trigger (and everything queued before) is done; an
                               exception while draining clears the queue and reaches the outermost caller.
                               asyncio gathers every callback list: all callbacks of a list are started (logged)
                               before the event one of them triggers proceeds.
   Markers: TExited / TEntered are emitted where the model's state ATTRIBUTE changes (Machine.set_state,
   between the exit and the enter callbacks) — the harness observes them through a property, without adding
   callbacks (so callback lists can be empty and the asyncio loop is not given extra turns).
   A timer object is an entry of [w_timers] (identity = position, creation order); [w_runner] is the
   dictionary  state -> id(model) -> timer.  What is ASSUMED (not modelled): threading.Timer / asyncio.sleep
   call their function at the deadline — here: [tick] advances the clock by one and runs the pending timers
   whose deadline is the new instant, in creation order; a user event issued at an instant comes after the
   timers due at that instant.  Definitions only. *)
From Coq Require Import List Arith Bool.
Import ListNotations.

Definition tstate := nat.
Definition tevent := nat.
Definition tcb := nat.
Definition tmodel := nat.

(* an on_timeout callback: its id, the event it triggers (on the timed-out model: None, or on a fixed
   model), and whether it raises afterwards — ANY failure: the code catches BaseException, so the kind
   (Exception, another BaseException, asyncio.CancelledError) makes no difference; the cases of the
   correspondence check carry the kind and the harness raises it *)
Record ocb : Type := mkOcb { oc_id : tcb; oc_act : option (option tmodel * tevent); oc_raise : bool }.

(* an on_enter / on_exit callback: its id and the event it triggers on its own model *)
Record ecb : Type := mkEcb { ec_id : tcb; ec_act : option tevent }.

Record tsdef : Type := mkTS {
  ts_timeout : nat;              (* timeout= (0 = none) *)
  ts_on_timeout : list ocb;      (* on_timeout= *)
  ts_enter : list ecb;           (* on_enter= *)
  ts_exit : list ecb             (* on_exit= *)
}.
Definition ts_default : tsdef := mkTS 0 [] [] [].

Record ttrans : Type := mkTT { tt_event : tevent; tt_src : tstate; tt_dst : option tstate; tt_ok : bool }.

Record tcfg : Type := mkTC {
  tc_async : bool;                        (* AsyncTimeout on an async machine / Timeout on a threaded one *)
  tc_queued : bool;
  tc_states : list (tstate * tsdef);
  tc_trans : list ttrans;                 (* in order of add_transition *)
  tc_ignore : bool;                       (* ignore_invalid_triggers *)
  tc_onexc : list tcb                     (* machine-level on_exception callbacks *)
}.

Fixpoint sdef_in (l : list (tstate * tsdef)) (s : tstate) : tsdef :=
  match l with
  | [] => ts_default
  | (k, d) :: r => if Nat.eqb s k then d else sdef_in r s
  end.
Definition sdef (c : tcfg) (s : tstate) : tsdef := sdef_in (tc_states c) s.
Definition timeout_of (c : tcfg) (s : tstate) : nat := ts_timeout (sdef c s).

(* ----------------------------------------------------------------- construction *)
Inductive texn : Type := XAttribute.
(* [given] = the keyword on_timeout is passed *)
Definition build_state (given : bool) (d : tsdef) : option texn :=
  if Nat.ltb 0 (ts_timeout d) && negb given then Some XAttribute else None.
Fixpoint build (l : list (bool * tsdef)) : option texn :=
  match l with
  | [] => None
  | (g, d) :: r => match build_state g d with Some e => Some e | None => build r end
  end.

(* ----------------------------------------------------------------- world *)
Inductive tstatus : Type := Pending | Running | Done | Cancelled.
Record timer : Type := mkTimer { tm_state : tstate; tm_model : tmodel; tm_deadline : nat; tm_status : tstatus }.

Record world : Type := mkW {
  w_clock : nat;
  w_st : tmodel -> tstate;                       (* model.state *)
  w_timers : list timer;                         (* every Timer object created so far, in creation order *)
  w_runner : tstate -> tmodel -> option nat;     (* state.runner[id(model)] : position in w_timers *)
  w_tout : tstate -> nat;                        (* state.timeout, an attribute that can be reassigned at run time *)
  w_ot : tstate -> list ocb                      (* state.on_timeout, a list that can be changed / reassigned at run time *)
}.
Definition init_world (c : tcfg) (s0 : tstate) : world :=
  mkW 0 (fun _ => s0) [] (fun _ _ => None) (timeout_of c) (fun s => ts_on_timeout (sdef c s)).

Definition upd {A} (f : nat -> A) (k : nat) (v : A) : nat -> A :=
  fun x => if Nat.eqb x k then v else f x.
Definition upd2 {A} (f : nat -> nat -> A) (a b : nat) (v : A) : nat -> nat -> A :=
  fun x y => if Nat.eqb x a && Nat.eqb y b then v else f x y.

Fixpoint upd_nth (l : list timer) (i : nat) (f : timer -> timer) : list timer :=
  match l, i with
  | [], _ => []
  | x :: r, 0 => f x :: r
  | x :: r, S j => x :: upd_nth r j f
  end.

Definition is_pending (t : timer) : bool := match tm_status t with Pending => true | _ => false end.
Definition is_alive (t : timer) : bool :=
  match tm_status t with Pending | Running => true | _ => false end.
Definition with_status (t : timer) (s : tstatus) : timer := mkTimer (tm_state t) (tm_model t) (tm_deadline t) s.
(* Timer.cancel(): a timer whose function has not started never runs; a running function is not stopped *)
Definition cancel (t : timer) : timer :=
  match tm_status t with Pending => with_status t Cancelled | _ => t end.
Definition cancel_if_alive (t : timer) : timer := if is_alive t then cancel t else t.
Definition start_running (t : timer) : timer := with_status t Running.
Definition finish (t : timer) : timer :=
  match tm_status t with Running => with_status t Done | _ => t end.

Definition set_timers (w : world) (l : list timer) : world := mkW (w_clock w) (w_st w) l (w_runner w) (w_tout w) (w_ot w).

(* ----------------------------------------------------------------- observations *)
Inductive tres : Type := RFalse | RTrue | RMachine | RAttribute | ROut.   (* ROut: out of fuel *)

Inductive titem : Type :=
| TExited (m : tmodel) (s : tstate) (t : nat)        (* marker: the state attribute of m stops being s *)
| TEntered (m : tmodel) (s : tstate) (t : nat)       (* marker: the state attribute of m becomes s *)
| TFired (m : tmodel) (s : tstate) (t : nat)         (* marker: first on_timeout callback of s *)
| CExit (cb : tcb) (m : tmodel) (seen : tstate) (t : nat)
| CEnter (cb : tcb) (m : tmodel) (seen : tstate) (t : nat)
| CTimeout (cb : tcb) (m : tmodel) (seen : tstate) (t : nat)
| COnExc (cb : tcb) (m : tmodel) (err : nat) (t : nat)   (* on_exception; err = raising callback, 0 = MachineError *)
| CEscape (cb : tcb) (m : tmodel) (t : nat)          (* threads: the exception of cb left the timer thread *)
| CRes (m : tmodel) (e : tevent) (r : tres) (t : nat)    (* result of an event triggered by a callback *)
| TUser (m : tmodel) (e : tevent) (t : nat)          (* the caller issues model.trigger(e) *)
| TSetTimeout (s : tstate) (v : nat) (t : nat).      (* the caller assigns machine.get_state(s).timeout = v *)

(* ----------------------------------------------------------------- the timer bookkeeping of a state change *)
(* Timeout.exit, before the callbacks: cancel the timer registered for m in s if it is alive — whatever
   the state's timeout attribute says by now *)
Definition cancel_slot (w : world) (s : tstate) (m : tmodel) : world :=
  match w_runner w s m with
  | Some i => set_timers w (upd_nth (w_timers w) i cancel_if_alive)
  | None => w
  end.

(* Machine.set_state (the attribute changes: markers), then Timeout.enter before the callbacks: start a
   timer and OVERWRITE the runner entry of m *)
Definition set_and_start (c : tcfg) (w : world) (m : tmodel) (d : tstate) : list titem * world :=
  let st' := upd (w_st w) m d in
  ([TExited m (w_st w m) (w_clock w); TEntered m d (w_clock w)],
   if Nat.ltb 0 (w_tout w d)                     (* self.timeout is read NOW; the timer keeps this period *)
   then mkW (w_clock w) st'
            (w_timers w ++ [mkTimer d m (w_clock w + w_tout w d) Pending])
            (upd2 (w_runner w) d m (Some (length (w_timers w)))) (w_tout w) (w_ot w)
   else mkW (w_clock w) st' (w_timers w) (w_runner w) (w_tout w) (w_ot w)).

(* the state change without callbacks (what the local theorems speak about) *)
Definition switch (c : tcfg) (w : world) (m : tmodel) (d : tstate) : list titem * world :=
  set_and_start c (cancel_slot w (w_st w m) m) m d.

(* ----------------------------------------------------------------- triggers, re-entrant *)
Definition queue := list (tmodel * tevent).
(* model.trigger(e) as seen from a callback: items, world, queue, result *)
Definition rec_t := world -> queue -> tmodel -> tevent -> list titem * world * queue * tres.

Definition event_known (c : tcfg) (e : tevent) : bool :=
  existsb (fun t => Nat.eqb (tt_event t) e) (tc_trans c).
Definition cands (c : tcfg) (e : tevent) (s : tstate) : list ttrans :=
  filter (fun t => Nat.eqb (tt_event t) e && Nat.eqb (tt_src t) s) (tc_trans c).
Fixpoint first_ok (l : list ttrans) : option ttrans :=
  match l with [] => None | t :: r => if tt_ok t then Some t else first_ok r end.

(* Machine._process of a queued machine answers True whenever nothing was raised *)
Definition qres (c : tcfg) (r : tres) : tres :=
  if tc_queued c then match r with RFalse => RTrue | x => x end else r.

(* a trigger issued while a trigger is being processed *)
Definition cbtrig (rec : rec_t) (c : tcfg) : rec_t := fun w q m e =>
  if tc_queued c
  then if event_known c e then ([], w, q ++ [(m, e)], RTrue)
       else ([], w, q, if tc_ignore c then RFalse else RAttribute)
  else rec w q m e.

Definition ecb_act (rec : rec_t) (c : tcfg) (w : world) (q : queue) (m : tmodel) (cb : ecb)
  : list titem * world * queue :=
  match ec_act cb with
  | None => ([], w, q)
  | Some e => let '(its, w', q', r) := cbtrig rec c w q m e in (its ++ [CRes m e r (w_clock w)], w', q')
  end.

Definition mk_t := tcb -> tmodel -> tstate -> nat -> titem.     (* CExit or CEnter *)

(* threads: Machine.callbacks — one after the other *)
Fixpoint run_cbs_sync (rec : rec_t) (c : tcfg) (mk : mk_t) (w : world) (q : queue) (m : tmodel)
                      (cbs : list ecb) : list titem * world * queue :=
  match cbs with
  | [] => ([], w, q)
  | cb :: r =>
      let i0 := mk (ec_id cb) m (w_st w m) (w_clock w) in
      let '(ia, w1, q1) := ecb_act rec c w q m cb in
      let '(ir, w2, q2) := run_cbs_sync rec c mk w1 q1 m r in
      (i0 :: ia ++ ir, w2, q2)
  end.
(* asyncio: gathered — all started, then the triggered events proceed *)
Fixpoint run_acts (rec : rec_t) (c : tcfg) (w : world) (q : queue) (m : tmodel) (cbs : list ecb)
  : list titem * world * queue :=
  match cbs with
  | [] => ([], w, q)
  | cb :: r =>
      let '(ia, w1, q1) := ecb_act rec c w q m cb in
      let '(ir, w2, q2) := run_acts rec c w1 q1 m r in
      (ia ++ ir, w2, q2)
  end.
Definition run_cbs (rec : rec_t) (c : tcfg) (mk : mk_t) (w : world) (q : queue) (m : tmodel)
                   (cbs : list ecb) : list titem * world * queue :=
  if tc_async c
  then let '(ia, w1, q1) := run_acts rec c w q m cbs in
       (map (fun cb => mk (ec_id cb) m (w_st w m) (w_clock w)) cbs ++ ia, w1, q1)
  else run_cbs_sync rec c mk w q m cbs.

(* Transition._change_state: source.exit, set_state, dest.enter — with the feature's enter / exit *)
Definition change_state (rec : rec_t) (c : tcfg) (w : world) (q : queue) (m : tmodel) (d : tstate)
  : list titem * world * queue :=
  let s := w_st w m in
  let '(ix, w1, q1) := run_cbs rec c CExit (cancel_slot w s m) q m (ts_exit (sdef c s)) in
  let '(mk, w2) := set_and_start c w1 m d in
  let '(ie, w3, q3) := run_cbs rec c CEnter w2 q1 m (ts_enter (sdef c d)) in
  (ix ++ mk ++ ie, w3, q3).

Definition step (rec : rec_t) (c : tcfg) : rec_t := fun w q m e =>
  if negb (event_known c e)
  then ([], w, q, if tc_ignore c then RFalse else RAttribute)           (* Machine._get_trigger *)
  else
    match cands c e (w_st w m) with
    | [] =>                                                             (* Event._is_valid_source *)
        if tc_ignore c then ([], w, q, qres c RFalse)
        else match tc_onexc c with
             | [] => ([], w, q, RMachine)
             | hs => (map (fun h => COnExc h m 0 (w_clock w)) hs, w, q, qres c RFalse)
             end
    | l =>
        match first_ok l with
        | None => ([], w, q, qres c RFalse)                             (* every condition failed *)
        | Some t =>
            match tt_dst t with
            | None => ([], w, q, RTrue)                                 (* internal transition *)
            | Some d => let '(its, w', q') := change_state rec c w q m d in (its, w', q', RTrue)
            end
        end
    end.

(* unqueued: a callback's trigger is processed inside the running one; depth bounded by the fuel *)
Fixpoint trig (fuel : nat) (c : tcfg) : rec_t :=
  match fuel with
  | 0 => fun w q m e => ([], w, q, ROut)
  | S f => step (trig f c) c
  end.

Definition is_exn (r : tres) : bool := match r with RMachine | RAttribute | ROut => true | _ => false end.

(* queued: Machine._process drains the queue; an exception clears it and is the caller's result *)
Fixpoint drain (fuel : nat) (c : tcfg) (w : world) (q : queue) : list titem * world * option tres :=
  match fuel with
  | 0 => ([], w, Some ROut)
  | S f =>
      match q with
      | [] => ([], w, None)
      | (m, e) :: q0 =>
          let '(its, w1, q1, r) := step (trig 0 c) c w q0 m e in
          if is_exn r then (its, w1, Some r)
          else let '(its2, w2, x) := drain f c w1 q1 in (its ++ its2, w2, x)
      end
  end.

Definition FUEL := 8.
Definition DRAIN_FUEL := 40.

(* model.trigger(e) by the caller or by a timeout callback: no trigger is being processed *)
Definition top_trig (c : tcfg) (w : world) (m : tmodel) (e : tevent) : list titem * world * tres :=
  if tc_queued c
  then let '(its, w1, q1, r) := step (trig 0 c) c w [] m e in
       if is_exn r then (its, w1, r)
       else let '(its2, w2, x) := drain DRAIN_FUEL c w1 q1 in
            (its ++ its2, w2, match x with Some r' => r' | None => r end)
  else let '(its, w1, _, r) := trig FUEL c w [] m e in (its, w1, r).

(* ----------------------------------------------------------------- the timeout handler *)
Definition do_act (c : tcfg) (w : world) (m : tmodel) (cb : ocb) : list titem * world :=
  match oc_act cb with
  | None => ([], w)
  | Some (who, e) =>
      let tm := match who with None => m | Some k => k end in
      let '(its, w', r) := top_trig c w tm e in
      (its ++ [CRes tm e r (w_clock w)], w')
  end.

(* threads: Machine.callback one after the other; a raising callback ends the handler *)
Fixpoint handler_sync (c : tcfg) (w : world) (m : tmodel) (cbs : list ocb) : list titem * world :=
  match cbs with
  | [] => ([], w)
  | cb :: r =>
      let i0 := CTimeout (oc_id cb) m (w_st w m) (w_clock w) in
      let '(ia, w1) := do_act c w m cb in
      if oc_raise cb then (i0 :: ia ++ [CEscape (oc_id cb) m (w_clock w)], w1)
      else let '(ir, w2) := handler_sync c w1 m r in (i0 :: ia ++ ir, w2)
  end.

(* asyncio: asyncio.gather starts every callback before any of them proceeds past its first suspension;
   then the triggered events run; the first exception (in callback order) goes to the machine's
   on_exception callbacks *)
Fixpoint acts_async (c : tcfg) (w : world) (m : tmodel) (cbs : list ocb) : list titem * world :=
  match cbs with
  | [] => ([], w)
  | cb :: r =>
      let '(ia, w1) := do_act c w m cb in
      let '(ir, w2) := acts_async c w1 m r in (ia ++ ir, w2)
  end.
Fixpoint first_raising (cbs : list ocb) : option tcb :=
  match cbs with [] => None | cb :: r => if oc_raise cb then Some (oc_id cb) else first_raising r end.
Definition handler_async (c : tcfg) (w : world) (m : tmodel) (cbs : list ocb) : list titem * world :=
  let logs := map (fun cb => CTimeout (oc_id cb) m (w_st w m) (w_clock w)) cbs in
  let '(ia, w1) := acts_async c w m cbs in
  let exc := match first_raising cbs with
             | Some k => map (fun h => COnExc h m k (w_clock w)) (tc_onexc c)
             | None => []
             end in
  (logs ++ ia ++ exc, w1).

Definition handler (c : tcfg) (w : world) (m : tmodel) (cbs : list ocb) : list titem * world :=
  if tc_async c then handler_async c w m cbs else handler_sync c w m cbs.

(* timer number i (record tm) calls its function: Timeout._process_timeout(event_data) *)
Definition fire (c : tcfg) (w : world) (i : nat) (tm : timer) : list titem * world :=
  let w1 := set_timers w (upd_nth (w_timers w) i start_running) in
  (* the handlers registered NOW, when the timer expires — not those of the time the state was entered *)
  let '(its, w2) := handler c w1 (tm_model tm) (w_ot w (tm_state tm)) in
  (TFired (tm_model tm) (tm_state tm) (w_clock w) :: its,
   set_timers w2 (upd_nth (w_timers w2) i finish)).

Definition due (w : world) (tm : timer) : bool := is_pending tm && Nat.eqb (tm_deadline tm) (w_clock w).

Fixpoint fire_due (c : tcfg) (w : world) (idxs : list nat) : list titem * world :=
  match idxs with
  | [] => ([], w)
  | i :: r =>
      let '(a, w1) := match nth_error (w_timers w) i with
                      | Some tm => if due w tm then fire c w i tm else ([], w)
                      | None => ([], w)
                      end in
      let '(b, w2) := fire_due c w1 r in (a ++ b, w2)
  end.

(* the clock moves to the next instant; the timers that exist now and are due then run in creation order
   (timers created meanwhile have a later deadline: timeouts are positive) *)
Definition tick (c : tcfg) (w : world) : list titem * world :=
  let w1 := mkW (S (w_clock w)) (w_st w) (w_timers w) (w_runner w) (w_tout w) (w_ot w) in
  fire_due c w1 (seq 0 (length (w_timers w1))).

Fixpoint advance (c : tcfg) (w : world) (dt : nat) : list titem * world :=
  match dt with
  | 0 => ([], w)
  | S k => let '(a, w1) := tick c w in let '(b, w2) := advance c w1 k in (a ++ b, w2)
  end.

(* ----------------------------------------------------------------- histories *)
Inductive top : Type :=
| HEvent (m : tmodel) (e : tevent)
| HAdvance (dt : nat)
| HSetTimeout (s : tstate) (v : nat)      (* reconfiguration at run time: state.timeout = v (0 switches it off) *)
| HSetHandlers (s : tstate) (l : list ocb).   (* state.on_timeout = l / cleared and refilled in place: the timer of a
                                             stay was armed on entry whatever the list held then, and runs what it holds
                                             at expiry *)

(* one operation of the history: items, result of the call (events only), world *)
Definition do_op (c : tcfg) (w : world) (o : top) : list titem * option tres * world :=
  match o with
  | HEvent m e => let '(its, w', r) := top_trig c w m e in (TUser m e (w_clock w) :: its, Some r, w')
  | HAdvance dt => let '(its, w') := advance c w dt in (its, None, w')
  | HSetTimeout s v =>
      ([TSetTimeout s v (w_clock w)], None,
       mkW (w_clock w) (w_st w) (w_timers w) (w_runner w) (upd (w_tout w) s v) (w_ot w))
  | HSetHandlers s l =>
      ([], None, mkW (w_clock w) (w_st w) (w_timers w) (w_runner w) (w_tout w) (upd (w_ot w) s l))
  end.

Fixpoint run (c : tcfg) (w : world) (h : list top) : list (list titem * option tres * world) :=
  match h with
  | [] => []
  | o :: r => let x := do_op c w o in x :: run c (snd x) r
  end.
Fixpoint run_world (c : tcfg) (w : world) (h : list top) : world :=
  match h with [] => w | o :: r => run_world c (snd (do_op c w o)) r end.
Fixpoint run_trace (c : tcfg) (w : world) (h : list top) : list titem :=
  match h with [] => [] | o :: r => fst (fst (do_op c w o)) ++ run_trace c (snd (do_op c w o)) r end.
