(* Hsm.v — hierarchical machines (transitions/extensions/nesting.py): state definitions
   as a rose tree, the active configuration as an ordered forest (the OrderedDict tree
   that build_state_tree rebuilds from the model's state value), resolve_order,
   NestedTransition._resolve_transition / _enter_nested / _final_check,
   NestedEvent.trigger_nested, HierarchicalMachine._trigger_event_nested /
   _check_event_result / _trigger_event / _can_trigger.   Definitions only. *)
From Coq Require Import List Arith Bool.
From M Require Import Base Flat.
Import ListNotations.

Definition path := list nat.

(* a transition; source and destination are paths RELATIVE to the declaring scope *)
Record htrans : Type := mkHT {
  ht_src : path;
  ht_dst : option path;
  ht_prepare : list cbid;
  ht_conds : list (cbid * bool);
  ht_before : list cbid;
  ht_after : list cbid
}.

(* state definitions *)
Inductive sdefn : Type :=
  SDef (name : nat) (enter exit onfinal : list cbid) (final : bool) (ignore : option bool)
       (initial : list nat)                       (* [] none, [c] one child, several = parallel *)
       (events : list (event * list htrans))      (* transitions declared inside this state *)
       (children : list sdefn).

Definition sd_name (d : sdefn) := match d with SDef n _ _ _ _ _ _ _ _ => n end.
Definition sd_enter (d : sdefn) := match d with SDef _ x _ _ _ _ _ _ _ => x end.
Definition sd_exit (d : sdefn) := match d with SDef _ _ x _ _ _ _ _ _ => x end.
Definition sd_onfinal (d : sdefn) := match d with SDef _ _ _ x _ _ _ _ _ => x end.
Definition sd_final (d : sdefn) := match d with SDef _ _ _ _ x _ _ _ _ => x end.
Definition sd_ignore (d : sdefn) := match d with SDef _ _ _ _ _ x _ _ _ => x end.
Definition sd_initial (d : sdefn) := match d with SDef _ _ _ _ _ _ x _ _ => x end.
Definition sd_events (d : sdefn) := match d with SDef _ _ _ _ _ _ _ x _ => x end.
Definition sd_children (d : sdefn) := match d with SDef _ _ _ _ _ _ _ _ x => x end.

Record hmachine : Type := mkHM {
  hm_states : list sdefn;                        (* top-level states *)
  hm_events : list (event * list htrans);        (* globally declared transitions (full paths) *)
  hm_prepare_event : list cbid;
  hm_before_sc : list cbid;
  hm_after_sc : list cbid;
  hm_finalize : list cbid;
  hm_on_exception : list cbid;
  hm_on_final : list cbid;
  hm_ignore : bool;
  hm_send_event : bool
}.

Fixpoint find_child (ds : list sdefn) (n : nat) : option sdefn :=
  match ds with
  | [] => None
  | d :: r => if Nat.eqb (sd_name d) n then Some d else find_child r n
  end.

(* the definition at a path below a list of sibling definitions *)
Fixpoint find_def (ds : list sdefn) (p : path) : option sdefn :=
  match p with
  | [] => None
  | [n] => find_child ds n
  | n :: r => match find_child ds n with Some d => find_def (sd_children d) r | None => None end
  end.

(* children definitions / events of a scope (a path; [] = the machine itself) *)
Definition scope_children (hm : hmachine) (sc : path) : list sdefn :=
  match sc with
  | [] => hm_states hm
  | _ => match find_def (hm_states hm) sc with Some d => sd_children d | None => [] end
  end.
Definition scope_events (hm : hmachine) (sc : path) : list (event * list htrans) :=
  match sc with
  | [] => hm_events hm
  | _ => match find_def (hm_states hm) sc with Some d => sd_events d | None => [] end
  end.

(* ------------------------------------------------------------------ configurations *)
Inductive tree : Type := Node (n : nat) (ch : list tree).
Definition forest := list tree.
Definition t_name (t : tree) := match t with Node n _ => n end.
Definition t_children (t : tree) := match t with Node _ c => c end.

Fixpoint f_get (f : forest) (n : nat) : option forest :=
  match f with
  | [] => None
  | Node m ch :: r => if Nat.eqb m n then Some ch else f_get r n
  end.

(* reduce(dict.get, path, tree): the active children below an active path *)
Fixpoint sub (f : forest) (p : path) : option forest :=
  match p with
  | [] => Some f
  | n :: r => match f_get f n with Some ch => sub ch r | None => None end
  end.

(* is_state(path, allow_substates=True) *)
Definition active (f : forest) (p : path) : bool :=
  match sub f p with Some _ => true | None => false end.

(* nodes of depth k (k >= 1) in document order, as paths *)
Fixpoint level (k : nat) (f : forest) : list path :=
  match k with
  | 0 => []
  | S k' =>
      flat_map (fun t => match k' with
                         | 0 => [[t_name t]]
                         | _ => map (cons (t_name t)) (level k' (t_children t))
                         end) f
  end.

Fixpoint depth_t (t : tree) : nat :=
  match t with Node _ ch => S (fold_right Nat.max 0 (map depth_t ch)) end.
Definition depth (f : forest) : nat := fold_right Nat.max 0 (map depth_t f).

(* resolve_order: deepest level first, document order within a level *)
Definition resolve_order (f : forest) : list path :=
  flat_map (fun k => level k f) (rev (seq 1 (depth f))).

(* the leaves, in document order (the model's state value, flattened) *)
Fixpoint leaves_t (t : tree) : list path :=
  match t with
  | Node n [] => [[n]]
  | Node n ch => map (cons n) (flat_map leaves_t ch)
  end.
Definition leaves (f : forest) : list path := flat_map leaves_t f.

(* replace the children of the node at path p by g's result *)
Fixpoint update_at (f : forest) (p : path) (g : forest -> forest) : forest :=
  match p with
  | [] => g f
  | n :: r => map (fun t => if Nat.eqb (t_name t) n then Node n (update_at (t_children t) r g) else t) f
  end.

(* dict assignment scoped_tree[k] = v : replace in place, or append *)
Fixpoint f_set (f : forest) (k : nat) (v : forest) : forest :=
  match f with
  | [] => [Node k v]
  | Node m ch :: r => if Nat.eqb m k then Node k v :: r else Node m ch :: f_set r k v
  end.

(* ------------------------------------------------------------------ entering *)
(* the initial descendants of a state definition, breadth first (the while loop of
   _enter_nested): returns the entered paths (relative to the definition's own path, in
   enter order) and the new subtree.  fuel bounds the depth of the definition tree. *)
Fixpoint initial_tree (fuel : nat) (d : sdefn) : forest :=
  match fuel with
  | 0 => []
  | S f =>
      flat_map (fun n => match find_child (sd_children d) n with
                         | Some c => [Node n (initial_tree f c)]
                         | None => []
                         end) (sd_initial d)
  end.

(* breadth-first order of a forest: level 1, then level 2, ... (parents before children) *)
Definition bfs (f : forest) : list path := flat_map (fun k => level k f) (seq 1 (depth f)).

(* enter order of _enter_nested for destination path d below scope: the path top-down,
   then the initial descendants breadth first.  Paths are absolute. *)
Fixpoint prefixes_from (base : path) (d : path) : list path :=
  match d with
  | [] => []
  | n :: r => (base ++ [n]) :: prefixes_from (base ++ [n]) r
  end.

Fixpoint chain_tree (d : path) (bottom : forest) : forest :=
  match d with
  | [] => bottom
  | n :: r => [Node n (chain_tree r bottom)]
  end.

Definition def_depth_bound : nat := 64.

(* ------------------------------------------------------------------ transition resolution *)
(* longest prefix of dst that is active below sc; if all of dst is active its last element is
   moved back to the remaining part (re-entry) *)
Fixpoint split_go (cur : forest) (root : path) (d : path) : path * path :=
  match d with
  | [] => (root, [])
  | n :: r => match f_get cur n with
              | Some ch => split_go ch (root ++ [n]) r
              | None => (root, d)
              end
  end.

Definition split_active (f : forest) (sc : path) (dst : path) : path * path :=
  match sub f sc with
  | None => ([], dst)
  | Some cur =>
      let '(root, rest) := split_go cur [] dst in
      match rest with
      | [] => (removelast root, [last root 0])
      | _ => (root, rest)
      end
  end.

Record resolution : Type := mkRes {
  r_exits : list path;      (* absolute paths whose exit callbacks run, in order *)
  r_new : forest;           (* the new configuration *)
  r_enters : list path      (* absolute paths whose enter callbacks run, in order *)
}.

(* NestedTransition._resolve_transition for a transition declared in scope sc with
   destination dst (relative to sc) whose definition is dd *)
Definition resolve (f : forest) (sc dst : path) (dd : sdefn) : option resolution :=
  let '(root, rest) := split_active f sc dst in
  let base := sc ++ root in
  match sub f base with
  | None => None
  | Some scoped =>
      let d0 := hd 0 rest in
      let narrowed := Nat.ltb 1 (length scoped) in
      let exit_scope : forest :=
        if narrowed then match f_get scoped d0 with Some ch => [Node d0 ch] | None => [Node d0 []] end
        else scoped in
      let bottom := initial_tree def_depth_bound dd in
      let newscoped := if narrowed then f_set scoped d0 (chain_tree (tl rest) bottom)
                       else chain_tree rest bottom in
      Some (mkRes (map (fun p => base ++ p) (resolve_order exit_scope))
                  (update_at f base (fun _ => newscoped))
                  (prefixes_from base rest ++ map (fun p => base ++ rest ++ p) (bfs bottom)))
  end.

(* ------------------------------------------------------------------ the engine *)
Section HEngine.
  Variable hm : hmachine.
  Variable ev : env.
  Variable c : ctx.

  Notation callh := (call (V:=forest) (S:=forest) (fun s => s) ev c).
  Notation run_cbs := (run_cbs (V:=forest) (S:=forest) (fun s => s) ev c).
  Notation eval_conds := (eval_conds (V:=forest) (S:=forest) (fun s => s) ev c).
  Notation HM := (M (V:=forest) (S:=forest)).

  Definition defs_at (p : path) : option sdefn := find_def (hm_states hm) p.

  (* run the exit callbacks of the given absolute paths in order *)
  Fixpoint run_exits (ps : list path) : HM unit :=
    match ps with
    | [] => ret tt
    | p :: r =>
        match defs_at p with
        | Some d => run_cbs SExit None (sd_exit d) ;;; run_exits r
        | None => raise ValueError
        end
    end.
  Fixpoint run_enters (ps : list path) : HM unit :=
    match ps with
    | [] => ret tt
    | p :: r =>
        match defs_at p with
        | Some d => run_cbs SEnter None (sd_enter d) ;;; run_enters r
        | None => raise ValueError
        end
    end.

  (* _final_check: returns the on_final callback lists to run (children before parents)
     and whether the node counts as final.  [entered] = absolute paths entered by this
     transition; abs = absolute path of the node. *)
  Fixpoint final_check_t (abs : path) (t : tree) (entered : list path) : list (list cbid) * bool :=
    match t with
    | Node n ch =>
        let me := abs ++ [n] in
        let d := defs_at me in
        let just := existsb (fun q => if list_eq_dec Nat.eq_dec q me then true else false) entered in
        let onf := match d with Some d => sd_onfinal d | None => [] end in
        match ch with
        | [] =>
            if match d with Some d => sd_final d | None => false end
            then ((if just then [onf] else []), true)
            else ([], false)
        | _ =>
            let rs := map (fun t' => final_check_t me t' entered) ch in
            let cbs := flat_map fst rs in
            let allf := forallb snd rs in
            if allf then
              ((if orb (negb (match cbs with [] => true | _ => false end)) just then cbs ++ [onf] else cbs), true)
            else (cbs, false)
        end
    end.

  Definition final_check_root (f : forest) (entered : list path) : list (list cbid) :=
    let rs := map (fun t => final_check_t [] t entered) f in
    let cbs := flat_map fst rs in
    if forallb snd rs then
      match cbs with [] => cbs (* would be D17; unreachable *) | _ => cbs ++ [hm_on_final hm] end
    else cbs.

  Fixpoint run_onfinal (l : list (list cbid)) : HM unit :=
    match l with
    | [] => ret tt
    | cbs :: r => run_cbs SOnFinal None cbs ;;; run_onfinal r
    end.

  (* NestedTransition._resolve_transition + _change_state, in scope sc, dest relative dst *)
  Definition change_state (sc : path) (dst : path) : HM unit :=
    match find_def (scope_children hm sc) dst with
    | None => raise ValueError                       (* get_state(dest) *)
    | Some dd =>
        f <- get ;;
        match resolve f sc dst dd with
        | None => raise ValueError
        | Some r =>
            run_exits (r_exits r) ;;;
            put (r_new r) ;;;
            run_enters (r_enters r) ;;;
            run_onfinal (final_check_root (r_new r) (r_enters r))
        end
    end.

  (* Transition.execute (unchanged in nesting.py) with the nested _change_state *)
  Definition execute (sc : path) (t : htrans) : HM bool :=
    run_cbs SPrepare None (ht_prepare t) ;;;
    ok <- eval_conds (ht_conds t) ;;
    if ok then
      run_cbs SBeforeSC None (hm_before_sc hm) ;;;
      run_cbs SBefore None (ht_before t) ;;;
      match ht_dst t with Some d => change_state sc d | None => ret tt end ;;;
      run_cbs SAfter None (ht_after t) ;;;
      run_cbs SAfterSC None (hm_after_sc hm) ;;;
      ret true
    else ret false.

  Fixpoint try_transitions (sc : path) (ts : list htrans) : HM bool :=
    match ts with
    | [] => ret false
    | t :: r => ok <- execute sc t ;; if ok then ret true else try_transitions sc r
    end.

  Definition path_eqb (a b : path) : bool := if list_eq_dec Nat.eq_dec a b then true else false.
  Definition cands (ts : list htrans) (src : path) : list htrans :=
    filter (fun t => path_eqb (ht_src t) src) ts.

  Fixpoint nonempty_prefixes (p : path) : list path :=
    match p with
    | [] => []
    | n :: r => [n] :: map (cons n) (nonempty_prefixes r)
    end.

  (* NestedEvent.trigger_nested in scope sc restricted to branch key: the loop over the
     resolve order computed ONCE from the configuration at entry; [done] = paths (relative
     to sc) that must be skipped; result None/Some false/Some true.  The loop is written over
     an arbitrary [attempt] (offer the event to one source state) and additionally returns
     the log of offers (source, configuration when offered, executed?) — a ghost output. *)
  Definition offer : Type := (path * forest * bool)%type.

  Fixpoint offer_loop_gen (attempt : path -> HM bool) (has_cands : path -> bool) (sc : path)
           (order : list path) (done : list path) (result : option bool) : HM (option bool * list offer) :=
    match order with
    | [] => ret (result, [])
    | p :: rest =>
        if orb (existsb (path_eqb p) done) (negb (has_cands p))
        then offer_loop_gen attempt has_cands sc rest done result
        else
          f <- get ;;
          if negb (active f (sc ++ p)) then offer_loop_gen attempt has_cands sc rest done result
          else
            ok <- attempt p ;;
            r <- (if ok then offer_loop_gen attempt has_cands sc rest (nonempty_prefixes p ++ done) (Some true)
                  else offer_loop_gen attempt has_cands sc rest done (match result with None => Some false | r => r end)) ;;
            ret (fst r, (p, f, ok) :: snd r)
    end.

  Definition offer_loop (sc : path) (ts : list htrans) (order : list path) (done : list path)
             (result : option bool) : HM (option bool * list offer) :=
    offer_loop_gen
      (fun p => run_cbs SPrepareEvent None (hm_prepare_event hm) ;;; try_transitions sc (cands ts p))
      (fun p => match cands ts p with [] => false | _ => true end)
      sc order done result.

  Definition trigger_nested (sc : path) (ts : list htrans) (key : nat) : HM (option bool) :=
    f <- get ;;
    match sub f sc with
    | None => raise ValueError
    | Some cur =>
        let branch := match f_get cur key with Some ch => [Node key ch] | None => [] end in
        r <- offer_loop sc ts (resolve_order branch) [] None ;; ret (fst r)
    end.

  (* HierarchicalMachine._trigger_event_nested: recursion over the (stale) active tree *)
  Fixpoint dispatch_t (e : event) (sc : path) (t : tree) : HM (option bool) :=
    match t with
    | Node key ch =>
        f <- get ;;
        if negb (active f (sc ++ [key])) then ret None
        else
          r1 <- (match ch with
                 | [] => ret None
                 | _ =>
                     (fix go (l : list tree) (acc : option bool) : HM (option bool) :=
                        match l with
                        | [] => ret acc
                        | t' :: l' =>
                            r <- dispatch_t e (sc ++ [key]) t' ;;
                            go l' (match r with
                                   | None => acc
                                   | Some b => Some (orb b (match acc with Some a => a | None => false end))
                                   end)
                        end) ch None
                 end) ;;
          match r1 with
          | Some true => ret r1
          | _ =>
              match lookup (scope_events hm sc) e with
              | None => ret r1
              | Some ts =>
                  r2 <- trigger_nested sc ts key ;;
                  ret (match r2 with None => r1 | Some b => Some b end)
              end
          end
    end.

  Fixpoint dispatch_f (e : event) (sc : path) (l : list tree) (acc : option bool) : HM (option bool) :=
    match l with
    | [] => ret acc
    | t :: l' =>
        r <- dispatch_t e sc t ;;
        dispatch_f e sc l' (match r with
                            | None => acc
                            | Some b => Some (orb b (match acc with Some a => a | None => false end))
                            end)
    end.

  (* has_trigger: some scope of the machine declares the event *)
  Fixpoint has_trigger_d (fuel : nat) (e : event) (d : sdefn) : bool :=
    match fuel with
    | 0 => false
    | S f => orb (match lookup (sd_events d) e with Some _ => true | None => false end)
                 (existsb (has_trigger_d f e) (sd_children d))
    end.
  Definition has_trigger (e : event) : bool :=
    orb (match lookup (hm_events hm) e with Some _ => true | None => false end)
        (existsb (has_trigger_d def_depth_bound e) (hm_states hm)).

  (* _check_event_result *)
  Fixpoint check_leaves (e : event) (ls : list path) : HM bool :=
    match ls with
    | [] => ret false
    | p :: r =>
        match defs_at p with
        | None => raise ValueError
        | Some d =>
            let ign := match sd_ignore d with Some b => b | None => hm_ignore hm end in
            if ign then check_leaves e r
            else if has_trigger e then raise MachineError else raise AttributeError
        end
    end.

  (* HierarchicalMachine._trigger_event *)
  Definition trigger_event (e : event) : HM bool :=
    try_except_finally
      (f <- get ;;
       r <- dispatch_f e [] f None ;;
       match r with
       | Some b => ret b
       | None => f' <- get ;; check_leaves e (leaves f')
       end)
      (fun x =>
         match hm_on_exception hm with
         | [] => raise x
         | hs => run_cbs SOnException (Some x) hs ;;; ret false
         end)
      (fun err => run_cbs SFinalize err (hm_finalize hm)).

  (* ---------------- HierarchicalMachine._can_trigger / _can_trigger_nested ---------------- *)
  Definition hdest_ok (sc : path) (t : htrans) : bool :=
    match ht_dst t with
    | None => true
    | Some d => match find_def (scope_children hm sc) d with Some _ => true | None => false end
    end.

  Definition can_one (t : htrans) : HM bool :=
    try_catch
      (run_cbs SPrepareEvent None (hm_prepare_event hm) ;;;
       run_cbs SPrepare None (ht_prepare t) ;;;
       eval_conds (ht_conds t))
      (fun x =>
         match hm_on_exception hm with
         | [] => raise x
         | hs => run_cbs SOnException (Some x) hs ;;; ret false
         end).

  Fixpoint can_cands (sc : path) (ts : list htrans) : HM bool :=
    match ts with
    | [] => ret false
    | t :: r =>
        if hdest_ok sc t then (ok <- can_one t ;; if ok then ret true else can_cands sc r)
        else can_cands sc r
    end.

  (* the while loop: the path itself, then its ancestors within the scope *)
  Fixpoint can_sources (sc : path) (ts : list htrans) (srcs : list path) : HM bool :=
    match srcs with
    | [] => ret false
    | p :: r => ok <- can_cands sc (cands ts p) ;; if ok then ret true else can_sources sc ts r
    end.

  Fixpoint can_nested (e : event) (sc : path) (p : path) : HM bool :=
    ok <- (match lookup (scope_events hm sc) e with
           | Some ts => can_sources sc ts (rev (nonempty_prefixes p))
           | None => ret false
           end) ;;
    if ok then ret true
    else match p with
         | [] => ret false
         | n :: r => can_nested e (sc ++ [n]) r
         end.

  Fixpoint can_any (e : event) (ps : list path) : HM bool :=
    match ps with
    | [] => ret false
    | p :: r => ok <- can_nested e [] p ;; if ok then ret true else can_any e r
    end.

  Definition can_trigger (e : event) : HM bool :=
    f <- get ;; can_any e (resolve_order f).
End HEngine.
