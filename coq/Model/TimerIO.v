(* TimerIO.v — decoding of generated cases and encoding of observations for the timeout model
   (dispatch kind 9).
   request := [0; async; queued; states; transitions; ignore; onexc; nmodels; init; history]     run the model
            | [1; states; nmodels; init; items; clock]                 evaluate spec_C17 on an observed trace
     states      : list of [id; timeout; given; on_timeout; enter; exit]
                   on_timeout : list of [id; act; raises], act = [] | [[who; event]], who = [] | [model]
                   enter, exit : list of [id; [] | [event]]
     transitions : list of [event; src; dst option; condition outcome]
     history     : list of [0; model; event] | [1; dt] | [2; state; timeout] | [3; state; on_timeout]
   answer  := [1; [1; 1]]                          construction raised AttributeError
            | [1; [0; steps; verdict]]             steps of the run, spec_C17 on the model's own trace
            | [1; [2; verdict]]                    answer to request 1
     step : [items; [] or [result]; state of every model; clock]
     item : [kind; ...] with kinds 0 TExited 1 TEntered 2 TFired 3 CExit 4 CEnter 5 CTimeout 6 COnExc
            7 CEscape 8 CRes 9 TUser 10 TSetTimeout;  result : 0 False 1 True 2 MachineError 3 AttributeError 4 out of fuel *)
From Coq Require Import List Arith Bool.
From M Require Import Sx Timer TimerSpec.
Import ListNotations.

Definition d_act (x : sx) : option (option (option tmodel * tevent)) :=
  d_option (d_pair (d_option d_nat) d_nat) x.

Definition d_ocb (x : sx) : option ocb :=
  match x with
  | L [N i; a; r] => do a' <- d_act a; do r' <- d_bool r; Some (mkOcb i a' r')
  | _ => None
  end.

Definition d_ecb (x : sx) : option ecb :=
  match x with
  | L [N i; a] => do a' <- d_option d_nat a; Some (mkEcb i a')
  | _ => None
  end.

Definition d_tstate (x : sx) : option (tstate * (bool * tsdef)) :=
  match x with
  | L [N s; N t; g; ot; en; ex] =>
      do g' <- d_bool g; do ot' <- d_list d_ocb ot; do en' <- d_list d_ecb en; do ex' <- d_list d_ecb ex;
      Some (s, (g', mkTS t ot' en' ex'))
  | _ => None
  end.

Definition d_ttrans (x : sx) : option ttrans :=
  match x with
  | L [N e; N s; d; ok] => do d' <- d_option d_nat d; do ok' <- d_bool ok; Some (mkTT e s d' ok')
  | _ => None
  end.

Definition d_top (x : sx) : option top :=
  match x with
  | L [N 0; N m; N e] => Some (HEvent m e)
  | L [N 1; N dt] => Some (HAdvance dt)
  | L [N 2; N s; N v] => Some (HSetTimeout s v)
  | L [N 3; N s; l] => do l' <- d_list d_ocb l; Some (HSetHandlers s l')
  | _ => None
  end.

Definition e_tres (r : tres) : sx :=
  match r with RFalse => N 0 | RTrue => N 1 | RMachine => N 2 | RAttribute => N 3 | ROut => N 4 end.
Definition d_tres (x : sx) : option tres :=
  match x with
  | N 0 => Some RFalse | N 1 => Some RTrue | N 2 => Some RMachine | N 3 => Some RAttribute | N 4 => Some ROut
  | _ => None
  end.

Definition e_titem (i : titem) : sx :=
  match i with
  | TExited m s t => L [N 0; N m; N s; N t]
  | TEntered m s t => L [N 1; N m; N s; N t]
  | TFired m s t => L [N 2; N m; N s; N t]
  | CExit cb m sn t => L [N 3; N cb; N m; N sn; N t]
  | CEnter cb m sn t => L [N 4; N cb; N m; N sn; N t]
  | CTimeout cb m sn t => L [N 5; N cb; N m; N sn; N t]
  | COnExc cb m err t => L [N 6; N cb; N m; N err; N t]
  | CEscape cb m t => L [N 7; N cb; N m; N t]
  | CRes m e r t => L [N 8; N m; N e; e_tres r; N t]
  | TUser m e t => L [N 9; N m; N e; N t]
  | TSetTimeout s v t => L [N 10; N s; N v; N t]
  end.

Definition d_titem (x : sx) : option titem :=
  match x with
  | L [N 0; N m; N s; N t] => Some (TExited m s t)
  | L [N 1; N m; N s; N t] => Some (TEntered m s t)
  | L [N 2; N m; N s; N t] => Some (TFired m s t)
  | L [N 3; N cb; N m; N sn; N t] => Some (CExit cb m sn t)
  | L [N 4; N cb; N m; N sn; N t] => Some (CEnter cb m sn t)
  | L [N 5; N cb; N m; N sn; N t] => Some (CTimeout cb m sn t)
  | L [N 6; N cb; N m; N err; N t] => Some (COnExc cb m err t)
  | L [N 7; N cb; N m; N t] => Some (CEscape cb m t)
  | L [N 8; N m; N e; r; N t] => do r' <- d_tres r; Some (CRes m e r' t)
  | L [N 9; N m; N e; N t] => Some (TUser m e t)
  | L [N 10; N s; N v; N t] => Some (TSetTimeout s v t)
  | _ => None
  end.

Definition e_tstep (nm : nat) (o : list titem * option tres * world) : sx :=
  match o with
  | (its, r, w) =>
      L [e_list e_titem its; e_option e_tres r; L (map (fun m => N (w_st w m)) (seq 0 nm)); N (w_clock w)]
  end.

Definition states_cfg (sts : list (tstate * (bool * tsdef))) : list (tstate * tsdef) :=
  map (fun p => (fst p, snd (snd p))) sts.

Definition run_timer_case (x : sx) : sx :=
  match x with
  | L [N 0; asy; qd; sx_; tx; ign; oex; N nm; N s0; hx] =>
      match d_bool asy, d_bool qd, d_list d_tstate sx_, d_list d_ttrans tx, d_bool ign, d_list d_nat oex,
            d_list d_top hx with
      | Some a, Some q, Some sts, Some ts, Some ig, Some oe, Some h =>
          match build (map snd sts) with
          | Some XAttribute => L [N 1; L [N 1; N 1]]
          | None =>
              let c := mkTC a q (states_cfg sts) ts ig oe in
              let w0 := init_world c s0 in
              L [N 1; L [N 0; L (map (e_tstep nm) (run c w0 h));
                         e_bool (spec_C17 c nm s0 (run_trace c w0 h) (w_clock (run_world c w0 h)))]]
          end
      | _, _, _, _, _, _, _ => L [N 0]
      end
  | L [N 1; sx_; N nm; N s0; ix; N clock] =>
      match d_list d_tstate sx_, d_list d_titem ix with
      | Some sts, Some its =>
          let c := mkTC false false (states_cfg sts) [] false [] in
          L [N 1; L [N 2; e_bool (spec_C17 c nm s0 its clock)]]
      | _, _ => L [N 0]
      end
  | _ => L [N 0]
  end.
