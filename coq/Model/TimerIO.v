(* TimerIO.v — stub: replaced by the real decoder/runner when the property is built. *)
From Coq Require Import List.
From M Require Import Sx.
Import ListNotations.
Definition run_timer_case (x : sx) : sx := L [N 0].
