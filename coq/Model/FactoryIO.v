(* FactoryIO.v — cases of C09: one flat case (sub-kind 0: a history on one model; sub-kind 1: a
   queued machine with several models and callbacks that trigger / remove / raise) is run by the
   flat engine AND by the hierarchical engine on its embedding (mapped back); sub-kind 2 asks
   the factory specification for one flag tuple; sub-kind 3: machine.dispatch on several models (per-model views). *)
From Coq Require Import List Arith Bool.
From M Require Import Sx Base Flat FlatSpec FlatIO Queue QueueIO Hsm Factory.
Import ListNotations.

(* ---------------- sub-kind 0: a history on one model ---------------- *)
Definition frun_one (nested : bool) (mc : machine) (ev : env) (m : model) (h : hcall)
  : M (S:=state) bool :=
  let c := mkCtx m (h_payload h) (m_send_event mc) in
  if nested then
    match h_kind h with
    | KTrigger => hsm_trigger mc ev c (h_event h)
    | KMay => hsm_can_trigger mc ev c (h_event h)
    | KMethod => if known_event mc (h_event h) then hsm_trigger mc ev c (h_event h)
                 else raise AttributeError
    end
  else run_one mc ev m h.

Fixpoint frun_history (nested : bool) (mc : machine) (ev : env) (m : model) (hs : list hcall)
                      (p : nat) (s : state) : list sx :=
  match hs with
  | [] => []
  | h :: rest =>
      match frun_one nested mc ev m h p s with
      | (tr, s', r) =>
          L [e_list e_item tr; e_result r; N s'] :: frun_history nested mc ev m rest (p + length tr) s'
      end
  end.

(* ---------------- sub-kind 4: unqueued calls on several models, positions running on ---------------- *)
Definition mstate_of (w : list (model * state)) (m : model) : state :=
  match lookup w m with Some s => s | None => 0 end.

Fixpoint frun_mhistory (nested : bool) (mc : machine) (ev : env) (hs : list (model * hcall))
                       (p : nat) (w : list (model * state)) : list sx :=
  match hs with
  | [] => []
  | (m, h) :: rest =>
      match frun_one nested mc ev m h p (mstate_of w m) with
      | (tr, s', r) =>
          let w' := set_state w m s' in
          L [e_list e_item tr; e_result r; e_list (e_pair e_nat e_nat) w']
          :: frun_mhistory nested mc ev rest (p + length tr) w'
      end
  end.

(* ---------------- sub-kind 1: queued, several models ---------------- *)
Section QInst.
  Variable nested : bool.
  Variable mc : machine.
  Variable ev : env.

  Definition fqstep (w : world) (q : qentry) : (list item * list action * option exn * world) :=
    let c := mkCtx (q_model q) (q_payload q) (m_send_event mc) in
    match (if nested then hsm_trigger mc ev c (q_event q) else trigger mc ev c (q_event q))
            (w_pos w) (state_of w (q_model q)) with
    | (tr, st', r) =>
        (tr, acts_of tr, match r with inl e => Some e | inr _ => None end,
         mkWorld (set_state (w_states w) (q_model q) st') (w_pos w + length tr))
    end.

  Fixpoint frun_qhistory (fuel : nat) (hs : list (model * event * nat)) (w : world)
           (s : qstate) : list sx :=
    match hs with
    | [] => []
    | (m, e, a) :: rest =>
        match top_trigger fqstep nested_payload fuel w s m e a with
        | None => [L [N 9]]
        | Some (bs, r, w', s') =>
            L [e_list e_block bs;
               match r with Some e => L [N 1; e_exn e] | None => L [N 0; N 1] end;
               e_list (e_pair e_nat e_nat) (w_states w');
               e_list e_nat (qs_models s');
               N (length (qs_queue s'));
               e_list (fun d => L [N (q_id (fst d)); e_reason (snd d)]) (qs_dropped s')]
            :: frun_qhistory fuel rest w' s'
        end
    end.
End QInst.

(* ---------------- sub-kind 2: the factory ---------------- *)
Definition e_flags (f : flags) : sx :=
  match f with (g, n, l, y) => L [e_bool g; e_bool n; e_bool l; e_bool y] end.
Definition e_factory (r : exn + flags) : sx :=
  match r with inl e => L [N 1; e_exn e] | inr f => L [N 0; e_flags f] end.

Definition run_factory_case (x : sx) : sx :=
  match x with
  | L [N 0; L [mcx; evx; N m; N s0; hx]] =>
      match d_machine mcx, d_env evx, d_list d_call hx with
      | Some mc, Some ev, Some hs =>
          L [N 1; L [L (frun_history false mc ev m hs 0 s0); L (frun_history true mc ev m hs 0 s0)]]
      | _, _, _ => L [N 0]
      end
  | L [N 1; L [mcx; evx; msx; hx]] =>
      match d_machine mcx, d_env evx, d_list (d_pair d_nat d_nat) msx,
            d_list (fun y => match y with L [N m; N e; N a] => Some (m, e, a) | _ => None end) hx with
      | Some mc, Some ev, Some ms, Some hs =>
          let w0 := mkWorld ms 0 in
          let q0 := mkQS [] (map fst ms) 0 [] in
          L [N 1; L [L (frun_qhistory false mc ev 200 hs w0 q0); L (frun_qhistory true mc ev 200 hs w0 q0)]]
      | _, _, _, _ => L [N 0]
      end
  | L [N 3; L [mcx; evx; msx; hx]] =>
      (* machine.dispatch(event) on several models whose callbacks do not call back into the machine: every
         model receives every event, so each model's view is a history of triggers on it (the result of a
         dispatch is the conjunction of the per-model results, computed by the harness) *)
      match d_machine mcx, d_env evx, d_list (d_pair d_nat d_nat) msx, d_list d_call hx with
      | Some mc, Some ev, Some ms, Some hs =>
          L [N 1; L [L (map (fun ms0 => L (frun_history false mc ev (fst ms0) hs 0 (snd ms0))) ms);
                     L (map (fun ms0 => L (frun_history true mc ev (fst ms0) hs 0 (snd ms0))) ms)]]
      | _, _, _, _ => L [N 0]
      end
  | L [N 4; L [mcx; evx; msx; hx]] =>
      (* calls model.trigger(..) / model.<event>(..) on several models of one unqueued machine; registering or
         removing models in between is invisible here — that it is invisible on every class is what is checked *)
      match d_machine mcx, d_env evx, d_list (d_pair d_nat d_nat) msx, d_list (d_pair d_nat d_call) hx with
      | Some mc, Some ev, Some ms, Some hs =>
          L [N 1; L [L (frun_mhistory false mc ev hs 0 ms); L (frun_mhistory true mc ev hs 0 ms)]]
      | _, _, _, _ => L [N 0]
      end
  | L [N 2; L [g; n; l; y]] =>
      match d_bool g, d_bool n, d_bool l, d_bool y with
      | Some g', Some n', Some l', Some y' => L [N 1; e_factory (factory_spec (g', n', l', y'))]
      | _, _, _, _ => L [N 0]
      end
  | _ => L [N 0]
  end.
