(* Lock.v — the locking protocol of transitions/extensions/locking.py as a small-step
   interleaving semantics over an ABSTRACT machine (so everything proved about it holds for
   every machine configuration, flat or hierarchical).

   Mirrored code:
     LockedEvent.trigger / LockedMachine._locked_method:
         if self._ident.current != get_ident():        (* UNLOCKED read *)
             with nested(contexts...): return call()     (* ExitStack: enter in order, exit reversed,
                                                          also when the call raises *)
         else: return call()                           (* re-entrant path: no lock at all *)
     contexts of a machine method  = machine_context = [user contexts or PicklableLock] ++ [ident]
     contexts of an event on model m (LockedMachine, event_cls = LockedEvent)
                                   = model_context_map[id m] = machine_context ++ model_context(m)
     contexts of an event on a LockedHierarchicalMachine (event_cls = NestedEvent: the only lock
       comes from the wrapped public method trigger_event)     = machine_context      (KF-C06-1)
     IdentManager.__enter__: current = get_ident();  __exit__: current = 0.

   A thread is a list of calls; a call in progress is an *activation* (phase + contexts held).
   Processing a call is cut into atomic *segments* (at callback boundaries) by the abstract
   [resume]; a segment may ask for a nested call (a callback calling the machine again).
   A schedule is a list of thread ids; the step of a blocked / finished / unknown thread is a
   no-op.  Threads are numbered from 1 (0 is the value of ident.current when nobody is inside).

   model_context_map is part of the machine's state: [reg ms m] is the model_context registered for model m
   in machine state ms (None: no entry / empty entry, as after remove_model or before add_model), so
   add_model / remove_model are ordinary machine methods whose effect on the map is part of [resume].
   The map is read UNLOCKED together with ident.current (as in the code).  The ghost flag g_bad records
   that a call left the envelope: it entered (not re-entrantly) with an empty context list (an event sent
   to an unregistered model of a LockedMachine) or with a context object configured twice.

   Context managers are user code: for any (call, context) the __enter__ may refuse (raise instead of acquiring:
   ExitStack then unwinds what was entered so far, the call raises, nothing is processed) and the __exit__ may
   raise after releasing (the remaining contexts are still left); [cfail]/[xfail] range over all such patterns.

   Assumed, not modelled (the property is PARTIAL): threading.Lock behaves as the mutex below,
   get_ident() is constant per thread and never 0, attribute reads/writes are atomic (GIL).
   Definitions only. *)
From Coq Require Import List Arith Bool.
Import ListNotations.

Inductive ctx : Type := CLock (l : nat) | CIdent.

Definition ctx_eqb (a b : ctx) : bool :=
  match a, b with
  | CLock x, CLock y => Nat.eqb x y
  | CIdent, CIdent => true
  | _, _ => false
  end.

Inductive ckind : Type := KEvent (m : nat) | KMethod.
Record call : Type := mkCall { c_kind : ckind; c_id : nat }.

Record lcfg : Type := mkCfg {
  cfg_machine : list nat;                 (* machine_context: lock ids in configured order *)
  cfg_hier : bool                         (* LockedHierarchicalMachine / ...GraphMachine *)
}.

(* machine_context after __init__ appended the IdentManager *)
Definition mctx (cfg : lcfg) : list ctx := map CLock (cfg_machine cfg) ++ [CIdent].

Fixpoint nodupb (l : list nat) : bool :=
  match l with
  | [] => true
  | x :: r => negb (existsb (Nat.eqb x) r) && nodupb r
  end.

Fixpoint ctx_nodupb (l : list ctx) : bool :=
  match l with
  | [] => true
  | x :: r => negb (existsb (ctx_eqb x) r) && ctx_nodupb r
  end.

(* envelope of the static configuration: at least one machine context (always true of the code: the
   default is one PicklableLock), none configured twice *)
Definition wf_cfg (cfg : lcfg) : bool :=
  negb (match cfg_machine cfg with [] => true | _ => false end) && nodupb (cfg_machine cfg).

Section Lock.
  Context {MS K R I : Type}.

  Inductive status : Type :=
  | SMore (k : K)                 (* next segment *)
  | SCall (c : call) (k : K)      (* the callback calls the machine; k continues afterwards *)
  | SDone (r : R).                (* the call returns / raises r *)

  Variable start : call -> K.
  Variable resume : K -> MS -> MS * list I * status.   (* one atomic segment *)
  Variable ret : K -> R -> K.                          (* hand a nested call's result to the caller *)
  Variable reg : MS -> nat -> option (list nat).       (* model_context_map: model -> its model contexts *)
  (* context managers are user code too: __enter__ may refuse (raise) instead of acquiring, __exit__ may raise
     after releasing.  A call enters each of its contexts at most once, so (call, context) names the occurrence. *)
  Variable cfail : call -> ctx -> bool.                (* __enter__ of this context raises for this call *)
  Variable xfail : call -> ctx -> bool.                (* __exit__ of this context raises for this call *)
  Variable r_refused : call -> ctx -> R.               (* what the call then raises *)
  Variable r_exit : call -> ctx -> R -> R.             (* ExitStack: the exception raised by __exit__ replaces r *)

  (* what the code enters for a call, given the machine state it reads the map from *)
  Definition ctxs_of (cfg : lcfg) (ms : MS) (c : call) : list ctx :=
    match c_kind c with
    | KMethod => mctx cfg
    | KEvent m =>
        if cfg_hier cfg then mctx cfg
        else match reg ms m with
             | Some mc => mctx cfg ++ map CLock mc
             | None => []                       (* defaultdict(list): no contexts at all *)
             end
    end.

  (* what the property demands to be held while the call is processed *)
  Definition ctxs_spec (cfg : lcfg) (ms : MS) (c : call) : list ctx :=
    match c_kind c with
    | KMethod => mctx cfg
    | KEvent m => match reg ms m with Some mc => mctx cfg ++ map CLock mc | None => mctx cfg end
    end.

  (* ------------------------------------------------------------------ sequential reference *)
  Inductive sres : Type :=
  | Running (ks : list K) (ms : MS) (its : list I)
  | Finished (ms : MS) (its : list I) (r : R).

  (* one segment of a purely sequential execution with a stack of continuations *)
  Definition seq_step (ks : list K) (ms : MS) (its : list I) : sres :=
    match ks with
    | [] => Running [] ms its
    | k :: rest =>
        match resume k ms with
        | (ms', its', st) =>
            match st with
            | SMore k' => Running (k' :: rest) ms' (its ++ its')
            | SCall c k' => Running (start c :: k' :: rest) ms' (its ++ its')
            | SDone r =>
                match rest with
                | [] => Finished ms' (its ++ its') r
                | p :: rest' => Running (ret p r :: rest') ms' (its ++ its')
                end
            end
        end
    end.

  Fixpoint seq_iter (n : nat) (s : sres) : sres :=
    match n with
    | 0 => s
    | S n' => match s with
              | Running ks ms its => seq_iter n' (seq_step ks ms its)
              | Finished _ _ _ => s
              end
    end.

  (* calls executed one after the other: final machine state, per call result and items *)
  Inductive serial_exec : list call -> MS -> MS -> list (R * list I) -> Prop :=
  | se_nil : forall ms, serial_exec [] ms ms []
  | se_cons : forall c cs ms n ms' its r msf l,
      seq_iter n (Running [start c] ms []) = Finished ms' its r ->
      serial_exec cs ms' msf l ->
      serial_exec (c :: cs) ms msf ((r, its) :: l).

  (* executable version (fuel per call) used by the correspondence runner *)
  Fixpoint serial_run (fuel : nat) (cs : list call) (ms : MS) : option (MS * list (R * list I)) :=
    match cs with
    | [] => Some (ms, [])
    | c :: rest =>
        match seq_iter fuel (Running [start c] ms []) with
        | Finished ms' its r =>
            match serial_run fuel rest ms' with
            | Some (msf, l) => Some (msf, (r, its) :: l)
            | None => None
            end
        | Running _ _ _ => None
        end
    end.

  (* ------------------------------------------------------------------ interleaving semantics *)
  Inductive phase : Type :=
  | PAcq (todo : list ctx)        (* entering the contexts; todo <> [] *)
  | PRun (k : K)                  (* inside: processing *)
  | PRel (r : R).                 (* leaving: ExitStack unwinds; a_held <> [] *)

  Record act : Type := mkAct {
    a_call : call;
    a_phase : phase;
    a_held : list ctx;            (* contexts entered by this activation, most recent first *)
    a_ctxs : list ctx             (* ghost: the context list this activation read when it started *)
  }.

  Record thread : Type := mkThread {
    t_prog : list call;           (* calls not yet started *)
    t_cur : option act;           (* the top-level call in progress *)
    t_nest : list act;            (* calls made from callbacks, innermost first *)
    t_items : list I              (* ghost: items of the top-level call in progress *)
  }.

  Inductive lev : Type :=         (* ghost log *)
  | EvAcq (t : nat) (x : ctx)
  | EvRel (t : nat) (x : ctx)
  | EvBlocked (t : nat) (x : ctx)
  | EvRefuse (t : nat) (x : ctx)
  | EvSeg (t : nat) (c : call) (its : list I)
  | EvRet (t : nat) (c : call) (r : R).

  Record dentry : Type := mkDone { d_tid : nat; d_call : call; d_res : R; d_items : list I }.

  Record gstate : Type := mkG {
    g_ms : MS;
    g_own : nat -> nat;           (* lock -> owner thread, 0 = free *)
    g_ident : nat;                (* IdentManager.current *)
    g_th : nat -> thread;
    g_log : list lev;             (* ghost, newest last *)
    g_acq : list (nat * call);    (* ghost: top-level calls in order of their first acquisition *)
    g_done : list dentry;         (* ghost: completed top-level calls, in order of completion *)
    g_bad : bool;                 (* ghost: some call left the envelope (see header) *)
    g_fin : list (nat * call * bool)  (* ghost: finished top-level calls in order; false = refused by a context *)
  }.

  Definition upd {A} (f : nat -> A) (k : nat) (v : A) : nat -> A :=
    fun x => if Nat.eqb x k then v else f x.

  Variable cfg : lcfg.

  (* the test at the beginning of LockedEvent.trigger / _locked_method; the context list is read from
     the machine state at the same moment *)
  Definition enter_call (ms : MS) (ident tid : nat) (c : call) : act :=
    if Nat.eqb ident tid then mkAct c (PRun (start c)) [] []
    else match ctxs_of cfg ms c with
         | [] => mkAct c (PRun (start c)) [] []
         | todo => mkAct c (PAcq todo) [] todo
         end.

  (* does this entry leave the envelope? *)
  Definition entry_bad (ms : MS) (ident tid : nat) (c : call) : bool :=
    negb (Nat.eqb ident tid) &&
    (match ctxs_of cfg ms c with [] => true | _ => false end || negb (ctx_nodupb (ctxs_of cfg ms c))).

  Definition after_acq (c : call) (todo : list ctx) : phase :=
    match todo with [] => PRun (start c) | _ => PAcq todo end.

  (* what one step of an activation does to the activation itself *)
  Inductive outcome : Type :=
  | OStay (a : act)
  | OPush (a : act) (b : act) (bad : bool)
  | OComplete (r : R)
  | OBlocked.

  Record shared : Type := mkSh { sh_ms : MS; sh_own : nat -> nat; sh_ident : nat; sh_log : list lev }.

  Definition act_step (tid : nat) (a : act) (s : shared) : shared * outcome * list I :=
    let c := a_call a in
    match a_phase a with
    | PAcq [] => (s, OStay (mkAct c (PRun (start c)) (a_held a) (a_ctxs a)), [])
    | PAcq (CLock l :: todo) =>
        if cfail c (CLock l)
        then (* ExitStack unwinds what was entered so far; nothing is processed *)
             let s' := mkSh (sh_ms s) (sh_own s) (sh_ident s) (sh_log s ++ [EvRefuse tid (CLock l)]) in
             match a_held a with
             | [] => (mkSh (sh_ms s) (sh_own s) (sh_ident s)
                           (sh_log s' ++ [EvRet tid c (r_refused c (CLock l))]), OComplete (r_refused c (CLock l)), [])
             | _ => (s', OStay (mkAct c (PRel (r_refused c (CLock l))) (a_held a) (a_ctxs a)), [])
             end
        else
        if Nat.eqb (sh_own s l) 0
        then (mkSh (sh_ms s) (upd (sh_own s) l tid) (sh_ident s) (sh_log s ++ [EvAcq tid (CLock l)]),
              OStay (mkAct c (after_acq c todo) (CLock l :: a_held a) (a_ctxs a)), [])
        else (mkSh (sh_ms s) (sh_own s) (sh_ident s) (sh_log s ++ [EvBlocked tid (CLock l)]), OBlocked, [])
    | PAcq (CIdent :: todo) =>
        (mkSh (sh_ms s) (sh_own s) tid (sh_log s ++ [EvAcq tid CIdent]),
         OStay (mkAct c (after_acq c todo) (CIdent :: a_held a) (a_ctxs a)), [])
    | PRun k =>
        match resume k (sh_ms s) with
        | (ms', its, st) =>
            let s' := mkSh ms' (sh_own s) (sh_ident s) (sh_log s ++ [EvSeg tid c its]) in
            match st with
            | SMore k' => (s', OStay (mkAct c (PRun k') (a_held a) (a_ctxs a)), its)
            | SCall c' k' => (s', OPush (mkAct c (PRun k') (a_held a) (a_ctxs a)) (enter_call ms' (sh_ident s) tid c')
                                     (entry_bad ms' (sh_ident s) tid c'), its)
            | SDone r =>
                match a_held a with
                | [] => (mkSh ms' (sh_own s) (sh_ident s) (sh_log s' ++ [EvRet tid c r]), OComplete r, its)
                | _ => (s', OStay (mkAct c (PRel r) (a_held a) (a_ctxs a)), its)
                end
            end
        end
    | PRel r =>
        match a_held a with
        | [] => (mkSh (sh_ms s) (sh_own s) (sh_ident s) (sh_log s ++ [EvRet tid c r]), OComplete r, [])
        | x :: h =>
            let own' := match x with CLock l => upd (sh_own s) l 0 | CIdent => sh_own s end in
            let id' := match x with CLock _ => sh_ident s | CIdent => 0 end in
            let r' := if xfail c x then r_exit c x r else r in
            match h with
            | [] => (mkSh (sh_ms s) own' id' (sh_log s ++ [EvRel tid x; EvRet tid c r']), OComplete r', [])
            | _ => (mkSh (sh_ms s) own' id' (sh_log s ++ [EvRel tid x]), OStay (mkAct c (PRel r') h (a_ctxs a)), [])
            end
        end
    end.

  (* a nested call returned r: the caller's callback continues *)
  Definition deliver (a : act) (r : R) : act :=
    match a_phase a with
    | PRun k => mkAct (a_call a) (PRun (ret k r)) (a_held a) (a_ctxs a)
    | _ => a
    end.

  Definition first_acq (a a' : act) : bool :=
    match a_held a, a_held a' with [], _ :: _ => true | _, _ => false end.

  Definition step (tid : nat) (g : gstate) : gstate :=
    if Nat.eqb tid 0 then g else
    let th := g_th g tid in
    let s := mkSh (g_ms g) (g_own g) (g_ident g) (g_log g) in
    match t_nest th with
    | top :: restn =>
        match act_step tid top s with
        | (s', o, its) =>
            let mk := fun cur nest bad =>
              mkG (sh_ms s') (sh_own s') (sh_ident s')
                  (upd (g_th g) tid (mkThread (t_prog th) cur nest (t_items th ++ its)))
                  (sh_log s') (g_acq g) (g_done g) (g_bad g || bad) (g_fin g) in
            match o with
            | OStay a' => mk (t_cur th) (a' :: restn) false
            | OPush a' b bad => mk (t_cur th) (b :: a' :: restn) bad
            | OComplete r =>
                match restn with
                | p :: restn' => mk (t_cur th) (deliver p r :: restn') false
                | [] => mk (option_map (fun a => deliver a r) (t_cur th)) [] false
                end
            | OBlocked => mk (t_cur th) (top :: restn) false
            end
        end
    | [] =>
        match t_cur th with
        | Some a =>
            match act_step tid a s with
            | (s', o, its) =>
                let items' := t_items th ++ its in
                let mk := fun cur nest items acq done bad fin =>
                  mkG (sh_ms s') (sh_own s') (sh_ident s')
                      (upd (g_th g) tid (mkThread (t_prog th) cur nest items))
                      (sh_log s') acq done (g_bad g || bad) fin in
                match o with
                | OStay a' =>
                    mk (Some a') [] items'
                       (match a_phase a, a_phase a' with
                        | PAcq _, PRel _ => removelast (g_acq g)        (* refused after the first acquisition *)
                        | _, _ => if first_acq a a' then g_acq g ++ [(tid, a_call a)] else g_acq g
                        end)
                       (match a_phase a, a_phase a' with
                        | PRun _, PRel r => g_done g ++ [mkDone tid (a_call a) r items']
                        | _, _ => g_done g
                        end) false
                       (match a_phase a, a_phase a' with
                        | PRun _, PRel _ => g_fin g ++ [(tid, a_call a, true)]
                        | PAcq _, PRel _ => g_fin g ++ [(tid, a_call a, false)]
                        | _, _ => g_fin g
                        end)
                | OPush a' b bad => mk (Some a') [b] items' (g_acq g) (g_done g) bad (g_fin g)
                | OComplete r =>
                    mk None [] items' (g_acq g)
                       (match a_phase a with
                        | PRun _ => g_done g ++ [mkDone tid (a_call a) r items']
                        | _ => g_done g
                        end) false
                       (match a_phase a with
                        | PRun _ => g_fin g ++ [(tid, a_call a, true)]
                        | PAcq _ => g_fin g ++ [(tid, a_call a, false)]
                        | PRel _ => g_fin g
                        end)
                | OBlocked => mk (Some a) [] items' (g_acq g) (g_done g) false (g_fin g)
                end
            end
        | None =>
            match t_prog th with
            | [] => g
            | c :: rest =>
                mkG (g_ms g) (g_own g) (g_ident g)
                    (upd (g_th g) tid (mkThread rest (Some (enter_call (g_ms g) (g_ident g) tid c)) [] []))
                    (g_log g) (g_acq g) (g_done g) (g_bad g || entry_bad (g_ms g) (g_ident g) tid c) (g_fin g)
            end
        end
    end.

  Definition run (sched : list nat) (g : gstate) : gstate := fold_left (fun g t => step t g) sched g.

  Definition init (progs : nat -> list call) (ms : MS) : gstate :=
    mkG ms (fun _ => 0) 0 (fun t => mkThread (progs t) None [] []) [] [] [] false [].

  (* ------------------------------------------------------------------ observers used by the theorems *)
  Definition held (g : gstate) (t : nat) : list ctx :=
    match t_cur (g_th g t) with Some a => a_held a | None => [] end.

  Definition thread_done (th : thread) : bool :=
    match t_prog th, t_cur th, t_nest th with [], None, [] => true | _, _, _ => false end.

  (* the top activation of a thread, i.e. the one its next step works on *)
  Definition top_act (th : thread) : option act :=
    match t_nest th with top :: _ => Some top | [] => t_cur th end.

  (* would the next step of thread tid be a blocked no-op? *)
  Definition blocked (g : gstate) (tid : nat) : bool :=
    match top_act (g_th g tid) with
    | Some a => match a_phase a with
                | PAcq (CLock l :: _) => negb (cfail (a_call a) (CLock l)) && negb (Nat.eqb (g_own g l) 0)
                | _ => false
                end
    | None => false
    end.

  Definition enabled (g : gstate) (tid : nat) : bool :=
    negb (Nat.eqb tid 0) && negb (thread_done (g_th g tid)) && negb (blocked g tid).

  (* thread t is processing (executing segments of) its top-level call *)
  Definition running (g : gstate) (t : nat) : Prop :=
    exists a k, t_cur (g_th g t) = Some a /\ a_phase a = PRun k.

  Definition holds (g : gstate) (t : nat) (x : ctx) : Prop :=
    match x with CLock l => g_own g l = t | CIdent => g_ident g = t end.
End Lock.
