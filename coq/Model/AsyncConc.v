(* AsyncConc.v — the bookkeeping AsyncMachine adds on top of asyncio, as an interleaving
   semantics (transitions/extensions/asyncio.py: process_context, _process_async,
   cancel_running_transitions, remove_model, AsyncEvent._trigger / AsyncTransition.execute).

   A TASK is a top-level `await model.trigger(ev)` started with ensure_future.  What the
   callbacks of an event do between two awaits is abstract: an event is a list of
   instructions (its transition candidates flattened for fixed condition results) —
   a callback (Start item, SUSPENSION POINT, an action, End item), "conditions passed"
   (cancel_running_transitions) and set_state — followed by its finalize callbacks.
   A task is a stack of continuations: frames of events (a trigger awaited from a callback
   pushes a frame: the task's own call chain) and drain loops of _process_async.
   A SCHEDULE is a list of event ids: "start that trigger task" / "release the future the
   current callback of that event is waiting for".  Between two schedule steps the chosen
   task runs to its next suspension point, then every task cancelled meanwhile receives
   CancelledError at its suspension point and runs to its next suspension point.
   asyncio itself (task switching, gather, delivery of cancellation) is ASSUMED to behave
   like this; the model covers the library's tables: model states, async_tasks,
   protected_tasks, current_context, the queue dictionary.
   Definitions only. *)
From Coq Require Import List Arith Bool.
Import ListNotations.

Definition ev := nat.
Definition model := nat.
Definition st := nat.

(* exception codes *)
Definition X_USER := 1.      (* raised by a callback *)
Definition X_MACHINE := 2.   (* MachineError: event not valid in the current state *)
Definition X_KEY := 3.       (* KeyError: per-model queue of a removed model *)
Definition X_VALUE := 4.     (* ValueError: models.remove of an unregistered model *)
Definition X_CANCEL := 5.    (* asyncio.CancelledError *)

Definition FIN := 4.         (* slot number of finalize callbacks; 0 prepare, 1 condition, 2 before, 3 after *)

Inductive act : Type :=
| ANone
| ARaise
| ATrig (e : ev)             (* await model.trigger(e) from inside the callback *)
| ARemove (m : model).       (* machine.remove_model(m) *)

Inductive instr : Type :=
| ICb (j slot : nat) (a : act)   (* a callback of candidate j in [slot] *)
| IPass                          (* the conditions passed: cancel_running_transitions *)
| ISet (d : st).                 (* machine.set_state(dest, model) *)

Record evdef : Type := mkEv {
  e_model : model;
  e_srcs : list st;          (* states in which the event is valid *)
  e_body : list instr;
  e_fin : list instr         (* finalize callbacks *)
}.

Inductive qmode : Type := QNone | QShared | QPerModel.

Inductive res : Type := RBool (b : bool) | RExn (x : nat) | RNone.

(* items carry the ghost number [n] of the event frame that emitted them *)
Inductive item : Type :=
| Start (n : nat) (e j slot : nat) (seen : st)
| End_ (n : nat) (e j slot : nat) (seen : st)
| Raised (n : nat) (e j slot : nat) (x : nat)
| TrigRet (n : nat) (e : ev) (r : res)     (* the trigger of e awaited by a callback of frame n returned r *)
| GBegin (n : nat) (e : ev)                (* ghost: processing of arrival n begins *)
| GFin (n : nat) (x : option nat)          (* ghost: frame n reaches its finally-block; x = recorded error *)
| GEnd (n : nat) (e : ev) (r : res)        (* ghost: processing of arrival n (event e) is over *)
| GSet (n : nat) (m : model) (d : st)      (* ghost: frame n set the state of m *)
| GPass (n : nat) (by_task : ev) (targets : list ev)    (* ghost: conditions of frame n passed *)
| GCancel (n : nat) (e : ev)               (* ghost: the suspended callback of frame n received CancelledError *)
| GCreq (n : nat).                         (* ghost: the gather awaited by frame n (an outer frame of a cancelled
                                              call chain) got a cancel request *)

Definition item_no (it : item) : nat :=
  match it with
  | Start n _ _ _ _ | End_ n _ _ _ _ | Raised n _ _ _ _ | TrigRet n _ _ | GBegin n _
  | GFin n _ | GEnd n _ _ | GSet n _ _ | GPass n _ _ | GCancel n _ | GCreq n => n
  end.

(* what a frame may still emit once it has reached its finally-block *)
Definition fin_item (it : item) : bool :=
  match it with
  | Start _ _ _ slot _ | End_ _ _ _ slot _ | Raised _ _ _ slot _ => Nat.eqb slot FIN
  | TrigRet _ _ _ | GFin _ _ | GEnd _ _ _ | GCancel _ _ | GCreq _ => true
  | GBegin _ _ | GSet _ _ _ | GPass _ _ _ => false
  end.

Inductive cbst : Type :=
| Idle
| Susp (j slot : nat) (a : act)          (* Start emitted; waiting for its future *)
| InCall (j slot : nat) (e : ev).        (* resumed; awaiting the trigger of e *)

Record frame : Type := mkF {
  f_no : nat;                 (* ghost: arrival number *)
  f_ev : ev;
  f_model : model;
  f_code : list instr;
  f_fincode : list instr;     (* the finalize callbacks of the event *)
  f_fin : bool;               (* the finally-block of _trigger has been reached *)
  f_cb : cbst;
  f_exn : option nat;         (* error recorded by _trigger, re-raised after finalize *)
  f_passed : bool;
  f_creq : bool;              (* the gather awaited by this frame has a cancel request *)
  f_hist : list item          (* ghost: everything this frame emitted *)
}.

Inductive kont : Type :=
| KU (f : frame)              (* event processed directly (no queue) *)
| KQ (k : nat) (f : frame).   (* drain loop of queue k, processing f (= the head of queue k) *)

Definition kframe (k : kont) : frame := match k with KU f => f | KQ _ f => f end.
Definition kset (k : kont) (f : frame) : kont := match k with KU _ => KU f | KQ q _ => KQ q f end.

Record task : Type := mkT {
  t_id : ev;                  (* the top-level event that created it *)
  t_model : model;            (* async_tasks key it is registered under *)
  t_prot : bool;              (* member of protected_tasks *)
  t_stack : list kont;        (* innermost first *)
  t_res : option res;         (* Some: finished *)
  t_ctx : option ev           (* AsyncMachine.current_context as seen by the asyncio task that runs this trigger:
                                 Some id while a top-level process_context of task id is in progress, else None.
                                 A trigger awaited later in the SAME asyncio task inherits the value left behind. *)
}.

Record qent : Type := mkQE { qe_no : nat; qe_ev : ev }.

(* everything that is not private to one task *)
Record shared : Type := mkH {
  h_mstate : list st;                   (* state of model i *)
  h_models : list model;                (* machine.models *)
  h_queues : list (nat * list qent);    (* _transition_queue_dict (key 0 only for queued=True) *)
  h_reg : list (model * ev);            (* async_tasks, flattened in registration order *)
  h_log : list item;
  h_next : nat;                         (* ghost: next arrival number *)
  h_cancel : list ev;                   (* task.cancel() calls not yet delivered *)
  h_done : list (ev * list item * res)  (* ghost: histories of finished frames *)
}.

Inductive ctl : Type :=
| CRun                       (* execute the innermost frame *)
| CRet (r : res)             (* a trigger call returns r into the innermost continuation *)
| CExn (x : nat).            (* a trigger call raises x into the innermost continuation *)

Inductive status : Type := Continue | Suspended | Finished.

Fixpoint assoc_ev (l : list (ev * ev)) (e : ev) : option ev :=
  match l with
  | [] => None
  | (e', p) :: r => if Nat.eqb e e' then Some p else assoc_ev r e
  end.

Section Model.
  Variable defs : list evdef.
  Variable mode : qmode.

  Definition edef (e : ev) : evdef := nth e defs (mkEv 0 [] [] []).
  Definition qkey (m : model) : nat := match mode with QPerModel => m | _ => 0 end.

  (* ---------- tables ---------- *)
  Definition mstate (h : shared) (m : model) : st := nth m (h_mstate h) 0.
  Fixpoint set_nth (l : list st) (m : nat) (d : st) : list st :=
    match l, m with
    | [], _ => []
    | _ :: r, 0 => d :: r
    | x :: r, S m' => x :: set_nth r m' d
    end.

  Fixpoint qlookup (qs : list (nat * list qent)) (k : nat) : option (list qent) :=
    match qs with
    | [] => None
    | (k', q) :: r => if Nat.eqb k k' then Some q else qlookup r k
    end.
  Fixpoint qupdate (qs : list (nat * list qent)) (k : nat) (q : list qent) : list (nat * list qent) :=
    match qs with
    | [] => []
    | (k', q') :: r => if Nat.eqb k k' then (k', q) :: r else (k', q') :: qupdate r k q
    end.
  Definition qdelete (qs : list (nat * list qent)) (k : nat) : list (nat * list qent) :=
    filter (fun p => negb (Nat.eqb (fst p) k)) qs.

  Fixpoint remove_first (p : model * ev) (l : list (model * ev)) : list (model * ev) :=
    match l with
    | [] => []
    | (m, e) :: r => if Nat.eqb m (fst p) && Nat.eqb e (snd p) then r else (m, e) :: remove_first p r
    end.

  Definition emit (h : shared) (it : item) : shared :=
    mkH (h_mstate h) (h_models h) (h_queues h) (h_reg h) (h_log h ++ [it]) (h_next h) (h_cancel h) (h_done h).
  Definition femit (f : frame) (it : item) : frame :=
    mkF (f_no f) (f_ev f) (f_model f) (f_code f) (f_fincode f) (f_fin f) (f_cb f) (f_exn f) (f_passed f)
        (f_creq f) (f_hist f ++ [it]).
  Definition set_code (f : frame) (c : list instr) (cb : cbst) : frame :=
    mkF (f_no f) (f_ev f) (f_model f) c (f_fincode f) (f_fin f) cb (f_exn f) (f_passed f) (f_creq f) (f_hist f).
  Definition set_creq (f : frame) (b : bool) : frame :=
    mkF (f_no f) (f_ev f) (f_model f) (f_code f) (f_fincode f) (f_fin f) (f_cb f) (f_exn f) (f_passed f) b (f_hist f).
  Definition set_passed (f : frame) : frame :=
    mkF (f_no f) (f_ev f) (f_model f) (f_code f) (f_fincode f) (f_fin f) (f_cb f) (f_exn f) true (f_creq f) (f_hist f).

  (* the finally-block of _trigger is entered, with the recorded error x (None: normal completion) *)
  Definition to_fin (f : frame) (x : option nat) : frame :=
    mkF (f_no f) (f_ev f) (f_model f) (f_fincode f) (f_fincode f) true Idle x (f_passed f) false (f_hist f).
  (* an exception inside the finalize callbacks is swallowed; the rest of finalize is skipped *)
  Definition fin_swallow (f : frame) : frame :=
    mkF (f_no f) (f_ev f) (f_model f) [] (f_fincode f) true Idle (f_exn f) (f_passed f) false (f_hist f).

  (* exception x arrives in frame f from the gather of its current callback *)
  Definition raise_in (f : frame) (x : nat) (h : shared) : frame * shared :=
    if f_fin f then (fin_swallow f, h)
    else (femit (to_fin f (Some x)) (GFin (f_no f) (Some x)), emit h (GFin (f_no f) (Some x))).

  (* the current callback of f returned normally: a cancel request on its gather turns into CancelledError *)
  Definition cb_return (f : frame) (h : shared) : frame * shared :=
    if f_creq f then raise_in (set_code f (f_code f) Idle) X_CANCEL h
    else (set_code f (f_code f) Idle, h).

  (* AsyncEvent._trigger / trigger_nested: state read and source check when processing starts *)
  Definition new_frame (n : nat) (e : ev) (h : shared) : frame * shared :=
    let d := edef e in
    let valid := existsb (Nat.eqb (mstate h (e_model d))) (e_srcs d) in
    let f0 := mkF n e (e_model d) (e_body d) (e_fin d) false Idle None false false [GBegin n e] in
    let h0 := emit h (GBegin n e) in
    if valid then (f0, h0) else raise_in f0 X_MACHINE h0.

  Definition bump (h : shared) : shared :=
    mkH (h_mstate h) (h_models h) (h_queues h) (h_reg h) (h_log h) (S (h_next h)) (h_cancel h) (h_done h).
  Definition set_queues (h : shared) (qs : list (nat * list qent)) : shared :=
    mkH (h_mstate h) (h_models h) qs (h_reg h) (h_log h) (h_next h) (h_cancel h) (h_done h).

  (* _process_async called for event e: what happens before anything is awaited *)
  Inductive called : Type :=
  | CalledRet (r : res) (h : shared)        (* returns at once (deferred: True) *)
  | CalledExn (x : nat) (h : shared)
  | CalledPush (k : kont) (h : shared).     (* processing starts: continuation to push *)

  Definition call_trigger (e : ev) (h : shared) : called :=
    let n := h_next h in
    match mode with
    | QNone => let (f, h1) := new_frame n e (bump h) in CalledPush (KU f) h1
    | _ =>
        let k := qkey (e_model (edef e)) in
        match qlookup (h_queues h) k with
        | None => CalledExn X_KEY h
        | Some q =>
            let h1 := set_queues (bump h) (qupdate (h_queues h) k (q ++ [mkQE n e])) in
            match q with
            | _ :: _ => CalledRet (RBool true) h1
            | [] => let (f, h2) := new_frame n e h1 in CalledPush (KQ k f) h2
            end
        end
    end.

  (* cancel_running_transitions(model) called by task [me] *)
  Definition cancel_targets (me : ev) (prot : ev -> bool) (m : model) (reg : list (model * ev)) : list ev :=
    map snd (filter (fun p => Nat.eqb (fst p) m && negb (Nat.eqb (snd p) me) && negb (prot (snd p))) reg).

  (* AsyncMachine.remove_model(m) *)
  Definition remove_model (m : model) (h : shared) : option nat * shared :=
    let drop := filter (fun x => negb (Nat.eqb x m)) in
    let inm := existsb (Nat.eqb m) (h_models h) in
    match mode with
    | QPerModel =>
        match qlookup (h_queues h) m with
        | None => (Some X_KEY, h)
        | Some _ =>
            let h1 := set_queues h (qdelete (h_queues h) m) in
            if inm then (None, mkH (h_mstate h1) (drop (h_models h1)) (h_queues h1) (h_reg h1) (h_log h1)
                                   (h_next h1) (h_cancel h1) (h_done h1))
            else (Some X_VALUE, h1)
        end
    | _ =>
        if negb inm then (Some X_VALUE, h) else
        let h1 := mkH (h_mstate h) (drop (h_models h)) (h_queues h) (h_reg h) (h_log h) (h_next h)
                      (h_cancel h) (h_done h) in
        match mode, qlookup (h_queues h1) 0 with
        | QShared, Some (hd :: tl) =>
            (None, set_queues h1 (qupdate (h_queues h1) 0
                     (hd :: filter (fun q => negb (Nat.eqb (e_model (edef (qe_ev q))) m)) tl)))
        | _, _ => (None, h1)
        end
    end.

  Definition set_mstate (h : shared) (m : model) (d : st) : shared :=
    mkH (set_nth (h_mstate h) m d) (h_models h) (h_queues h) (h_reg h) (h_log h) (h_next h) (h_cancel h) (h_done h).
  (* two cancel() calls before the task has run again are delivered as one CancelledError *)
  Definition add_cancels (h : shared) (l : list ev) : shared :=
    mkH (h_mstate h) (h_models h) (h_queues h) (h_reg h) (h_log h) (h_next h)
        (h_cancel h ++ filter (fun u => negb (existsb (Nat.eqb u) (h_cancel h))) l) (h_done h).
  Definition add_done (h : shared) (f : frame) (r : res) : shared :=
    mkH (h_mstate h) (h_models h) (h_queues h) (h_reg h) (h_log h) (h_next h) (h_cancel h)
        (h_done h ++ [(f_ev f, f_hist f, r)]).

  Definition set_stack (t : task) (s : list kont) : task :=
    mkT (t_id t) (t_model t) (t_prot t) s (t_res t) (t_ctx t).

  (* did process_context of this trigger find current_context empty, i.e. set the marker and register the task? *)
  Definition own_ctx (t : task) : bool :=
    match t_ctx t with Some x => Nat.eqb x (t_id t) | None => false end.

  (* process_context of the top-level call returns.  Own registration (the normal case): CancelledError becomes
     False; `finally`: the task is removed from async_tasks and current_context is reset — whether the event
     raised or not.  With a marker inherited from an earlier trigger of the same asyncio task (process_context
     takes its `else` branch; C08_context_reset shows this never happens) nothing is caught or cleaned up. *)
  Definition finish (t : task) (c : ctl) (h : shared) : task * shared :=
    if own_ctx t then
      let r := match c with
               | CRet r => r
               | CExn x => if Nat.eqb x X_CANCEL then RBool false else RExn x
               | CRun => RNone
               end in
      (mkT (t_id t) (t_model t) (t_prot t) [] (Some r) None,
       mkH (h_mstate h) (h_models h) (h_queues h) (remove_first (t_model t, t_id t) (h_reg h)) (h_log h)
           (h_next h) (h_cancel h) (h_done h))
    else
      let r := match c with CRet r => r | CExn x => RExn x | CRun => RNone end in
      (mkT (t_id t) (t_model t) (t_prot t) [] (Some r) (t_ctx t), h).

  (* result of an event frame whose code is exhausted *)
  Definition frame_outcome (f : frame) : ctl :=
    match f_exn f with Some x => CExn x | None => CRet (RBool (f_passed f)) end.
  Definition ctl_res (c : ctl) : res :=
    match c with CRet r => r | CExn x => RExn x | CRun => RNone end.

  (* the frame on top of continuation k is over with outcome c: what the continuation does next *)
  Definition after_frame (k : kont) (c : ctl) (rest : list kont) (h : shared) : list kont * ctl * shared :=
    match k with
    | KU _ => (rest, c, h)
    | KQ q _ =>
        match c with
        | CExn x =>
            (* clear the queue and re-raise (a KeyError of the lookup replaces the exception) *)
            match qlookup (h_queues h) q with
            | None => (rest, CExn X_KEY, h)
            | Some _ => (rest, CExn x, set_queues h (qupdate (h_queues h) q []))
            end
        | _ =>
            match qlookup (h_queues h) q with
            | None => (rest, CRet (RBool true), h)                 (* except KeyError: return True *)
            | Some [] => (rest, CRet (RBool true), h)              (* (popleft of an empty deque: not reachable) *)
            | Some (_ :: tl) =>
                let h1 := set_queues h (qupdate (h_queues h) q tl) in
                match tl with
                | [] => (rest, CRet (RBool true), h1)
                | nx :: _ => let (f, h2) := new_frame (qe_no nx) (qe_ev nx) h1 in (KQ q f :: rest, CRun, h2)
                end
            end
        end
    end.

  (* one move of the running task *)
  Definition micro (prot : ev -> bool) (t : task) (c : ctl) (h : shared) : task * ctl * shared * status :=
    match t_stack t with
    | [] =>
        match c with
        | CRun => (t, c, h, Finished)
        | _ => let (t', h') := finish t c h in (t', CRun, h', Finished)
        end
    | k :: rest =>
        let f := kframe k in
        match c with
        | CRun =>
            match f_cb f with
            | Idle =>
                match f_code f with
                | ICb j slot a :: code =>
                    let it := Start (f_no f) (f_ev f) j slot (mstate h (f_model f)) in
                    (set_stack t (kset k (femit (set_code f code (Susp j slot a)) it) :: rest), CRun, emit h it, Suspended)
                | IPass :: code =>
                    let tg := cancel_targets (t_id t) prot (f_model f) (h_reg h) in
                    let it := GPass (f_no f) (t_id t) tg in
                    (set_stack t (kset k (femit (set_passed (set_code f code Idle)) it) :: rest), CRun,
                     emit (add_cancels h tg) it, Continue)
                | ISet d :: code =>
                    let it := GSet (f_no f) (f_model f) d in
                    (set_stack t (kset k (femit (set_code f code Idle) it) :: rest), CRun,
                     emit (set_mstate h (f_model f) d) it, Continue)
                | [] =>
                    if f_fin f then
                      let c' := frame_outcome f in
                      let it := GEnd (f_no f) (f_ev f) (ctl_res c') in
                      let f' := femit f it in
                      let '(stk, c'', h') := after_frame k c' rest (add_done (emit h it) f' (ctl_res c')) in
                      (set_stack t stk, c'', h', Continue)
                    else
                      let it := GFin (f_no f) None in
                      (set_stack t (kset k (femit (to_fin f None) it) :: rest), CRun, emit h it, Continue)
                end
            | _ => (t, c, h, Suspended)
            end
        | CRet r =>
            match f_cb f with
            | InCall j slot e' =>
                let it1 := TrigRet (f_no f) e' r in
                let it2 := End_ (f_no f) (f_ev f) j slot (mstate h (f_model f)) in
                let (f', h') := cb_return (femit (femit f it1) it2) (emit (emit h it1) it2) in
                (set_stack t (kset k f' :: rest), CRun, h', Continue)
            | _ => (t, c, h, Suspended)
            end
        | CExn x =>
            match f_cb f with
            | InCall j slot e' =>
                let it1 := TrigRet (f_no f) e' (RExn x) in
                let (f', h') := raise_in (set_code (femit f it1) (f_code f) Idle) x (emit h it1) in
                (set_stack t (kset k f' :: rest), CRun, h', Continue)
            | _ => (t, c, h, Suspended)
            end
        end
    end.

  Fixpoint run (fuel : nat) (prot : ev -> bool) (t : task) (c : ctl) (h : shared) : task * shared * bool :=
    match fuel with
    | 0 => (t, h, false)
    | S fu =>
        match micro prot t c h with
        | (t', c', h', Continue) => run fu prot t' c' h'
        | (t', _, h', _) => (t', h', true)
        end
    end.

  (* the future of the innermost callback is released: the callback performs its action *)
  Definition resume (t : task) (h : shared) : task * ctl * shared :=
    match t_stack t with
    | k :: rest =>
        let f := kframe k in
        match f_cb f with
        | Susp j slot a =>
            let endit := End_ (f_no f) (f_ev f) j slot in
            match a with
            | ANone =>
                let it := endit (mstate h (f_model f)) in
                let (f', h') := cb_return (femit f it) (emit h it) in
                (set_stack t (kset k f' :: rest), CRun, h')
            | ARaise =>
                let it := Raised (f_no f) (f_ev f) j slot X_USER in
                let (f', h') := raise_in (set_code (femit f it) (f_code f) Idle) X_USER (emit h it) in
                (set_stack t (kset k f' :: rest), CRun, h')
            | ARemove m =>
                match remove_model m h with
                | (None, h1) =>
                    let it := endit (mstate h1 (f_model f)) in
                    let (f', h') := cb_return (femit f it) (emit h1 it) in
                    (set_stack t (kset k f' :: rest), CRun, h')
                | (Some x, h1) =>
                    let it := Raised (f_no f) (f_ev f) j slot x in
                    let (f', h') := raise_in (set_code (femit f it) (f_code f) Idle) x (emit h1 it) in
                    (set_stack t (kset k f' :: rest), CRun, h')
                end
            | ATrig e' =>
                let t1 := set_stack t (kset k (set_code f (f_code f) (InCall j slot e')) :: rest) in
                match call_trigger e' h with
                | CalledRet r h1 => (t1, CRet r, h1)
                | CalledExn x h1 => (t1, CExn x, h1)
                | CalledPush k' h1 => (set_stack t1 (k' :: t_stack t1), CRun, h1)
                end
            end
        | _ => (t, CRun, h)
        end
    | [] => (t, CRun, h)
    end.

  (* Task.cancel() reaches the task: every gather of its call chain gets a cancel request, the
     innermost callback receives CancelledError at its suspension point *)
  Definition mark_creq (k : kont) : kont :=
    let f := kframe k in kset k (femit (set_creq f true) (GCreq (f_no f))).

  Definition deliver_cancel (t : task) (h : shared) : task * shared :=
    match t_stack t with
    | k :: rest =>
        let f := kframe k in
        match f_cb f with
        | Susp _ _ _ =>
            let it := GCancel (f_no f) (f_ev f) in
            let (f', h') := raise_in (set_code (femit f it) (f_code f) Idle) X_CANCEL (emit h it) in
            (set_stack t (kset k f' :: map mark_creq rest), h')
        | _ => (t, h)
        end
    | [] => (t, h)
    end.

  (* ---------- the whole system ---------- *)
  Record state : Type := mkS {
    s_tasks : list task;        (* in start order *)
    s_sh : shared;
    s_started : list ev;
    s_oof : bool
  }.

  Definition suspended (t : task) : bool :=
    match t_stack t with
    | k :: _ => match f_cb (kframe k) with Susp _ _ _ => true | _ => false end
    | [] => false
    end.

  Definition waiting_on (t : task) (e : ev) : bool :=
    match t_stack t with
    | k :: _ => match f_cb (kframe k) with Susp _ _ _ => Nat.eqb (f_ev (kframe k)) e | _ => false end
    | [] => false
    end.

  Definition is_prot (ts : list task) (e : ev) : bool :=
    existsb (fun t => Nat.eqb (t_id t) e && t_prot t) ts.

  (* run task number i of [ts] from (t, c): the other tasks are not touched *)
  Fixpoint replace_nth (ts : list task) (i : nat) (t : task) : list task :=
    match ts, i with
    | [], _ => []
    | _ :: r, 0 => t :: r
    | x :: r, S i' => x :: replace_nth r i' t
    end.

  Fixpoint find_idx (p : task -> bool) (ts : list task) : option nat :=
    match ts with
    | [] => None
    | t :: r => if p t then Some 0 else match find_idx p r with Some i => Some (S i) | None => None end
    end.

  Definition dummy_task : task := mkT 0 0 false [] (Some RNone) None.

  Definition run_at (fuel : nat) (s : state) (i : nat) (t : task) (c : ctl) (h : shared) : state :=
    let '(t', h', ok) := run fuel (is_prot (s_tasks s)) t c h in
    mkS (replace_nth (s_tasks s) i t') h' (s_started s) (s_oof s || negb ok).

  Definition pop_cancel (h : shared) : shared :=
    mkH (h_mstate h) (h_models h) (h_queues h) (h_reg h) (h_log h) (h_next h) (tl (h_cancel h)) (h_done h).

  (* deliver the pending Task.cancel() calls, in the order they were made *)
  Fixpoint deliver_all (fuel n : nat) (s : state) : state :=
    match n with
    | 0 => s
    | S n' =>
        match h_cancel (s_sh s) with
        | [] => s
        | u :: _ =>
            let h := pop_cancel (s_sh s) in
            match find_idx (fun t => Nat.eqb (t_id t) u && match t_res t with None => true | _ => false end)
                           (s_tasks s) with
            | None => deliver_all fuel n' (mkS (s_tasks s) h (s_started s) (s_oof s))
            | Some i =>
                let t := nth i (s_tasks s) dummy_task in
                if suspended t then
                  let (t1, h1) := deliver_cancel t h in
                  deliver_all fuel n' (run_at fuel s i t1 CRun h1)
                else deliver_all fuel n' (mkS (s_tasks s) h (s_started s) (s_oof s))
            end
        end
    end.

  Variable top : list ev.
  Variable protected : list ev.

  (* (e, p): the trigger of e is awaited in the asyncio task that awaited the trigger of p before (its exception,
     if any, caught by the caller) — e can be started once p has returned *)
  Variable preds : list (ev * ev).
  (* a further condition for starting a root call chain, e.g. "the timeout of the AsyncTimeout state the model is in
     is armed" for the trigger awaited by an on_timeout callback (_process_timeout clears current_context, so that
     trigger is a root call chain: own marker, registered in async_tasks, cancellable).  The theorems hold for
     EVERY guard. *)
  Variable guard : state -> ev -> bool.

  Definition mem (e : ev) (l : list ev) : bool := existsb (Nat.eqb e) l.
  Definition pred_of (e : ev) : option ev := assoc_ev preds e.
  Definition task_done (t : task) : bool := match t_res t with Some _ => true | None => false end.

  Definition can_start (s : state) (e : ev) : bool :=
    mem e top && negb (mem e (s_started s)) &&
    match pred_of e with
    | None => true
    | Some p => existsb (fun t => Nat.eqb (t_id t) p && task_done t) (s_tasks s)
    end && guard s e.

  (* the value of current_context the new trigger finds: what the earlier trigger of the same asyncio task left *)
  Definition inherited_ctx (s : state) (e : ev) : option ev :=
    match pred_of e with
    | None => None
    | Some p => match find (fun t => Nat.eqb (t_id t) p) (s_tasks s) with Some t => t_ctx t | None => None end
    end.

  (* what a schedule entry does: 1 = start the trigger task, 2 = release a future, 0 = nothing *)
  Definition step_kind (s : state) (e : ev) : nat :=
    if s_oof s then 0
    else if can_start s e then 1
    else match find_idx (fun t => waiting_on t e) (s_tasks s) with Some _ => 2 | None => 0 end.

  Definition step (fuel : nat) (s : state) (e : ev) : state :=
    if s_oof s then s
    else if can_start s e then
      (* model.trigger(e) is awaited by a fresh task (ensure_future) or by the task that awaited pred_of e before.
         process_context: `if current_context.get() is None` set the marker and register the task in async_tasks;
         then _process_async *)
      let m := e_model (edef e) in
      let inh := inherited_ctx s e in
      let t0 := mkT e m (mem e protected) [] None (match inh with None => Some e | Some _ => inh end) in
      let h := s_sh s in
      let h0 := match inh with
                | None => mkH (h_mstate h) (h_models h) (h_queues h) (h_reg h ++ [(m, e)]) (h_log h) (h_next h)
                              (h_cancel h) (h_done h)
                | Some _ => h
                end in
      let s0 := mkS (s_tasks s ++ [t0]) h0 (e :: s_started s) false in
      let i := length (s_tasks s) in
      let s1 := match call_trigger e h0 with
                | CalledRet r h1 => run_at fuel s0 i t0 (CRet r) h1
                | CalledExn x h1 => run_at fuel s0 i t0 (CExn x) h1
                | CalledPush k h1 => run_at fuel s0 i (set_stack t0 [k]) CRun h1
                end in
      deliver_all fuel fuel s1
    else
      match find_idx (fun t => waiting_on t e) (s_tasks s) with
      | None => s
      | Some i =>
          let t := nth i (s_tasks s) dummy_task in
          let '(t1, c, h1) := resume t (s_sh s) in
          deliver_all fuel fuel (run_at fuel s i t1 c h1)
      end.

  Definition run_schedule (fuel : nat) (s : state) (sched : list ev) : state :=
    fold_left (step fuel) sched s.

  Definition quiescent (s : state) : bool :=
    forallb (fun t => match t_res t with Some _ => true | None => false end) (s_tasks s).
End Model.

Definition init_queues (mode : qmode) (nmodels : nat) : list (nat * list qent) :=
  match mode with
  | QNone => []
  | QShared => [(0, [])]
  | QPerModel => map (fun m => (m, [])) (seq 0 nmodels)
  end.

Definition init_state (mode : qmode) (inits : list st) : state :=
  mkS [] (mkH inits (seq 0 (length inits)) (init_queues mode (length inits)) [] [] 0 [] []) [] false.

(* ---------- specification vocabulary (used by Props/C08.v) ---------- *)

(* Life of one event frame as seen in its own history: Body -> (cancel requested) -> Finally.
   Once the call chain of the frame has been cancelled (CancelledError delivered to its suspended callback,
   or a cancel request on the gather it awaits) the frame may only finish the callback that is awaiting a
   nested trigger (TrigRet, End) and must then reach its finally-block; in the finally-block only finalize
   items are possible.  No Start of a transition callback, no GSet, no GPass. *)
Inductive hst : Type := HB | HC | HF.

Definition hstep (s : hst) (it : item) : option hst :=
  match s with
  | HB => match it with
          | GFin _ _ => Some HF
          | GCancel _ _ | GCreq _ => Some HC
          | _ => Some HB
          end
  | HC => match it with
          | GFin _ _ => Some HF
          | TrigRet _ _ _ | End_ _ _ _ _ _ | GCreq _ => Some HC
          | _ => None
          end
  | HF => if fin_item it then Some HF else None
  end.

Fixpoint hrun (s : hst) (l : list item) : option hst :=
  match l with
  | [] => Some s
  | it :: r => match hstep s it with Some s' => hrun s' r | None => None end
  end.

Definition hist_ok (l : list item) : Prop := hrun HB l <> None.

Definition is_cancel_mark (it : item) : bool :=
  match it with GCancel _ _ | GCreq _ => true | _ => false end.
Definition transition_item (it : item) : bool :=
  match it with
  | Start _ _ _ slot _ => negb (Nat.eqb slot FIN)
  | GSet _ _ _ | GPass _ _ _ | GBegin _ _ => true
  | _ => false
  end.

(* well-formed event definitions: finalize code consists of finalize callbacks; destinations are registered *)
Definition fin_instr (i : instr) : bool := match i with ICb _ slot _ => Nat.eqb slot FIN | _ => false end.
Definition dest_ok (n : nat) (i : instr) : bool := match i with ISet d => Nat.ltb d n | _ => true end.
Definition wf_def (n : nat) (d : evdef) : bool :=
  forallb fin_instr (e_fin d) && forallb (dest_ok n) (e_body d).

(* ---------- serial processing in the queue modes, read off the global log ----------
   The scan keeps the set of OPEN bodies as pairs (queue key, arrival number) and, per queue key, a bound
   below which no body may begin any more.  A body may begin (GBegin) only if no body of the same queue is
   open and its arrival number is not below the bound (arrival order); every other item must belong to an
   open body; GEnd closes the body.  [serial_log] = the scan never fails. *)
Section Serial.
  Variable defs : list evdef.
  Variable mode : qmode.

  Definition ekey (e : ev) : nat := qkey mode (e_model (edef defs e)).
  Definition pair_eqb (p q : nat * nat) : bool := Nat.eqb (fst p) (fst q) && Nat.eqb (snd p) (snd q).
  Definition gstate : Type := (list (nat * nat) * (nat -> nat))%type.
  Definition upd (lb : nat -> nat) (k v : nat) : nat -> nat := fun k' => if Nat.eqb k' k then v else lb k'.

  Definition gstep (st : gstate) (it : item) : option gstate :=
    let (op, lb) := st in
    match it with
    | GBegin n e =>
        let k := ekey e in
        if existsb (Nat.eqb k) (map fst op) then None
        else if Nat.leb (lb k) n then Some ((k, n) :: op, upd lb k (S n))
        else None
    | GEnd n e _ =>
        if existsb (pair_eqb (ekey e, n)) op
        then Some (filter (fun p => negb (pair_eqb (ekey e, n) p)) op, lb)
        else None
    | _ => if existsb (Nat.eqb (item_no it)) (map snd op) then Some st else None
    end.

  Fixpoint gscan (st : gstate) (l : list item) : option gstate :=
    match l with
    | [] => Some st
    | it :: r => match gstep st it with Some st' => gscan st' r | None => None end
    end.

  Definition gstate0 : gstate := ([], fun _ => 0).
  Definition serial_log (l : list item) : Prop := gscan gstate0 l <> None.
End Serial.
