(* NamingH.v — the hierarchical clauses of C11 over the hierarchical definitions of Hsm.v
   (state definitions [sdefn], configurations [forest], [sub], [active], [find_def],
   [scope_events]).  Definitions only.
   - build_state_tree: the configuration built from the model's state value (leaf paths)
   - HierarchicalMachine.is_state(state, model, allow_substates)
   - HierarchicalMachine.get_triggers(state) = get_nested_triggers + the parent walk
   - the specification "events that have a transition from the state or one of its
     ancestors, in any scope" and the part of it the library computes *)
From Coq Require Import List Arith Bool.
From M Require Import Base Flat Hsm HsmSpec.
Import ListNotations.

(* ------------------------------------------------------------------ is_<state> *)
(* build_state_tree(model_states, separator): for every state path
   tmp = tree; for elem in path: tmp = tmp.setdefault(elem, OrderedDict()) *)
Fixpoint insert_path (f : forest) (p : path) : forest :=
  match p with
  | [] => f
  | n :: r => f_set f n (insert_path (match f_get f n with Some ch => ch | None => [] end) r)
  end.
Definition build_tree (ls : list path) : forest := fold_left insert_path ls [].

(* is_state: for elem in path: if elem not in tree: return False; tree = tree[elem]
             return len(tree) == 0 or allow_substates *)
Definition is_state_h (f : forest) (p : path) (allow_substates : bool) : bool :=
  match sub f p with
  | Some g => match g with [] => true | _ => allow_substates end
  | None => false
  end.

(* the helper is_<p> of a model whose state value is [ls] *)
Definition is_helper_h (ls : list path) (p : path) (allow_substates : bool) : bool :=
  is_state_h (build_tree ls) p allow_substates.

(* ------------------------------------------------------------------ get_triggers *)
(* Machine.get_triggers(name) inside one scope: [t for (t, ev) in events.items() if name in ev.transitions] *)
Definition flat_triggers (evs : list (event * list htrans)) (q : path) : list event :=
  map fst (filter (fun et => existsb (fun t => path_eqb (ht_src t) q) (snd et)) evs).

(* get_nested_triggers(src_path) in scope sc: the scope's events from exactly src_path, then
   one level down with the shortened path *)
Fixpoint nested_triggers (hm : hmachine) (sc q : path) : list event :=
  match q with
  | [] => []
  | n :: r =>
      flat_triggers (scope_events hm sc) q ++
      match r with
      | [] => []
      | _ => match find_child (scope_children hm sc) n with
             | Some _ => nested_triggers hm (sc ++ [n]) r
             | None => []
             end
      end
  end.

(* HierarchicalMachine.get_triggers(state): the nested scopes along the path, then the
   machine's own events from the state and each of its ancestors (longest first) *)
Definition get_triggers_h (hm : hmachine) (p : path) : list event :=
  (match p with
   | n :: (_ :: _) as r => nested_triggers hm [n] r
   | _ => []
   end)
  ++ flat_map (flat_triggers (hm_events hm)) (rev (nonempty_prefixes p)).

(* event e has transition t declared in scope sc *)
Definition declares (hm : hmachine) (sc : path) (e : event) (t : htrans) : Prop :=
  exists ts, In (e, ts) (scope_events hm sc) /\ In t ts.

(* the property: e has a transition from p or from one of its ancestors, declared anywhere *)
Definition spec_trigger (hm : hmachine) (p : path) (e : event) : Prop :=
  exists sc t, declares hm sc e t /\ ht_src t <> [] /\ is_prefix (sc ++ ht_src t) p.

(* what the library computes: declared at the machine from p or an ancestor, or declared
   inside a state from p itself *)
Definition lib_trigger (hm : hmachine) (p : path) (e : event) : Prop :=
  exists sc t, declares hm sc e t /\ ht_src t <> [] /\
    ((sc = [] /\ is_prefix (ht_src t) p) \/ (sc <> [] /\ sc ++ ht_src t = p)).

(* the class KF-C11-3 excludes: a transition declared inside a state whose source is a
   strict ancestor of p *)
Definition no_nested_ancestor_source (hm : hmachine) (p : path) : Prop :=
  forall sc e t, sc <> [] -> declares hm sc e t -> ht_src t <> [] ->
    is_prefix (sc ++ ht_src t) p -> sc ++ ht_src t = p.
