(* AsyncConcIO.v — decoding of C08 cases (event programs + schedule) and encoding of the
   per-step observations of the interleaving model AsyncConc.v. *)
From Coq Require Import List Arith Bool.
From M Require Import Sx AsyncConc.
Import ListNotations.

Definition d_act (x : sx) : option act :=
  match x with
  | L [N 0] => Some ANone
  | L [N 1] => Some ARaise
  | L [N 2; N e] => Some (ATrig e)
  | L [N 3; N m] => Some (ARemove m)
  | _ => None
  end.

(* a transition candidate: optional prepare / condition (action, result) / before callbacks,
   optional destination (none: internal transition), optional after callback *)
Record cand : Type := mkCand {
  c_prep : option act; c_cond : option (act * bool); c_before : option act;
  c_dest : option st; c_after : option act;
  c_exit : option act; c_enter : option act }.   (* coroutine on_exit of the source / on_enter of the destination *)

Definition d_cand (x : sx) : option cand :=
  match x with
  | L [p; c; b; d; a; ex; en] =>
      do p' <- d_option d_act p; do c' <- d_option (d_pair d_act d_bool) c;
      do b' <- d_option d_act b; do d' <- d_option d_nat d; do a' <- d_option d_act a;
      do ex' <- d_option d_act ex; do en' <- d_option d_act en;
      Some (mkCand p' c' b' d' a' ex' en')
  | _ => None
  end.

Definition ocb (j slot : nat) (o : option act) : list instr :=
  match o with Some a => [ICb j slot a] | None => [] end.

(* AsyncEvent._process / AsyncTransition.execute for fixed condition results: candidates are tried in
   order; the first whose condition passes cancels the other tasks, runs before, then _change_state (on_exit of
   the source [slot 5], set_state, on_enter of the destination [slot 6]), then after *)
Fixpoint compile (j : nat) (cs : list cand) : list instr :=
  match cs with
  | [] => []
  | c :: r =>
      ocb j 0 (c_prep c) ++
      match c_cond c with
      | Some (a, false) => ICb j 1 a :: compile (S j) r
      | oc =>
          match oc with Some (a, _) => [ICb j 1 a] | None => [] end ++
          [IPass] ++ ocb j 2 (c_before c) ++
          match c_dest c with
          | Some d => ocb j 5 (c_exit c) ++ [ISet d] ++ ocb j 6 (c_enter c)
          | None => []
          end ++ ocb j 3 (c_after c)
      end
  end.

Definition d_event (x : sx) : option evdef :=
  match x with
  | L [N m; srcs; cands; fin] =>
      do s <- d_list d_nat srcs; do cs <- d_list d_cand cands; do f <- d_option d_act fin;
      Some (mkEv m s (compile 0 cs) (ocb 0 FIN f))
  | _ => None
  end.

Definition e_res (r : res) : list sx :=
  match r with RBool b => [N 0; e_bool b] | RExn x => [N 1; N x] | RNone => [N 2; N 0] end.

(* only what the recording callbacks of the harness can see; ghost items are dropped *)
Definition e_item (it : item) : list sx :=
  match it with
  | Start _ e j slot seen => [L [N 0; N e; N j; N slot; N seen]]
  | End_ _ e j slot seen => [L [N 1; N e; N j; N slot; N seen]]
  | Raised _ e j slot x => [L [N 2; N e; N j; N slot; N x]]
  | TrigRet _ e r => [L (N 3 :: N e :: e_res r)]
  | _ => []
  end.
Definition e_cancelled (it : item) : list sx :=
  match it with GCancel _ e => [N e] | _ => [] end.

Definition finished (t : task) : bool := match t_res t with Some _ => true | None => false end.

Definition newly_done (old new : list task) : list sx :=
  flat_map (fun t =>
    match t_res t with
    | Some r =>
        if existsb (fun o => Nat.eqb (t_id o) (t_id t) && finished o) old then []
        else [L (N (t_id t) :: e_res r)]
    | None => []
    end) new.

Definition e_reg (nmodels : nat) (reg : list (model * ev)) : list sx :=
  flat_map (fun m =>
    match map snd (filter (fun p => Nat.eqb (fst p) m) reg) with
    | [] => []
    | l => [L [N m; e_list e_nat l]]
    end) (seq 0 nmodels).

Definition e_pending (ts : list task) : list sx :=
  flat_map (fun t => match t_stack t with
                     | k :: _ => if suspended t then [N (f_ev (kframe k))] else []
                     | [] => [] end) ts.

Section Run.
  Variable defs : list evdef.
  Variable mode : qmode.
  Variables top protected : list ev.
  Variable preds : list (ev * ev).
  Variable guard : state -> ev -> bool.
  Variable nmodels : nat.
  Definition FUEL := 600.

  Fixpoint run_steps (s : state) (sched : list ev) : list sx * state :=
    match sched with
    | [] => ([], s)
    | e :: r =>
        let k := step_kind top preds guard s e in
        let s' := step defs mode top protected preds guard FUEL s e in
        let new := skipn (length (h_log (s_sh s))) (h_log (s_sh s')) in
        let o := L [N k; L (flat_map e_item new); L (flat_map e_cancelled new);
                    L (newly_done (s_tasks s) (s_tasks s'));
                    e_list e_nat (h_mstate (s_sh s'));
                    L (e_reg nmodels (h_reg (s_sh s')));
                    N 0;
                    L (e_pending (s_tasks s'))] in
        let (os, s'') := run_steps s' r in (o :: os, s'')
    end.
End Run.

(* AsyncTimeout: the model's state m_t has one state S_t with a timeout whose on_timeout callback awaits the trigger
   of event x.  AsyncTimeout.enter arms a timer per model, AsyncTimeout.exit cancels it: the timer is armed iff the
   last set_state of m_t (recorded in the log) entered S_t.  (The generator keeps every set_state of m_t in a task
   that read the current state — see harness/c08.py — so that the state exited is the state the model is in.) *)
Definition last_set (m : model) (l : list item) : option st :=
  fold_left (fun acc it => match it with
                           | GSet _ m' d => if Nat.eqb m' m then Some d else acc
                           | _ => acc end) l None.
Definition timer_guard (tmo : option (model * (st * ev))) (s : state) (e : ev) : bool :=
  match tmo with
  | None => true
  | Some (m, (st_t, x)) =>
      if Nat.eqb e x then match last_set m (h_log (s_sh s)) with Some d => Nat.eqb d st_t | None => false end
      else true
  end.

Definition d_mode (x : sx) : option qmode :=
  match x with N 0 => Some QNone | N 1 => Some QShared | N 2 => Some QPerModel | _ => None end.

(* case := [class; queued; nstates; model initial states; events; top; protected; schedule; preds; timeout]
   timeout = [] | [[m_t; [S_t; x]]] (x is also listed in top: it is a root call chain, started by the timer)
   preds = pairs (e, p): e is awaited in the asyncio task that awaited p before
   (class and nstates do not influence the model: flat and hierarchical async machines agree on flat
   configurations; destinations are registered by construction of the generator) *)
Definition run_asyncconc_case (x : sx) : sx :=
  match x with
  | L [_; q; _; ms; evs; tp; pr; sc; pd; tm] =>
      match d_mode q, d_list d_nat ms, d_list d_event evs, d_list d_nat tp, d_list d_nat pr, d_list d_nat sc,
            d_list (d_pair d_nat d_nat) pd, d_option (d_pair d_nat (d_pair d_nat d_nat)) tm with
      | Some mode, Some inits, Some defs, Some top, Some prot, Some sched, Some preds, Some tmo =>
          let (os, s) := run_steps defs mode top prot preds (timer_guard tmo) (length inits)
                                   (init_state mode inits) sched in
          if s_oof s then L [N 9]
          else L [N 1; L os;
                  L (flat_map (fun t => if finished t then [] else [N (t_id t)]) (s_tasks s))]
      | _, _, _, _, _, _, _, _ => L [N 0]
      end
  | _ => L [N 0]
  end.
