(* HBuild.v — construction scripts for hierarchical machines (extensions/nesting.py:
   HierarchicalMachine.add_states, _add_string_state (separator-joined names, parents
   created on the fly), _add_dict_state ('children' / 'states' / 'transitions' / 'remap'),
   _add_machine_states and _remap_state (another machine embedded as children),
   add_transition(s), remove_transition / _remove_nested_transitions).
   [hexec] runs a script and yields the state trees ([Hsm.sdefn]) and the globally declared
   events of the machine; [to_hm] is the [Hsm.hmachine] on which behaviour is defined.
   Names are naturals, a separator-joined name is a path.  An event's transitions are kept
   in definition order (the library groups them by source; only the per-source order is
   observable).  auto_transitions is off.  Definitions only. *)
From Coq Require Import List Arith Bool.
From M Require Import Base Flat Hsm Build.
Import ListNotations.

Fixpoint peqb (a b : path) : bool :=
  match a, b with
  | [], [] => true
  | x :: r, y :: s => Nat.eqb x y && peqb r s
  | _, _ => false
  end.

Definition events := list (event * list htrans).
(* a scope: the states and the events of the machine or of one state *)
Definition scope := (list sdefn * events)%type.

(* ---------------------------------------------------------------- what is handed to add_states *)
Record hattrs : Type := mkHA {
  a_enter : list cbid; a_exit : list cbid; a_onfinal : list cbid; a_final : bool;
  a_ignore : option (option bool);        (* ignore_invalid_triggers: absent / None / True / False *)
  a_initial : list nat
}.

(* a machine to be embedded: its top-level states, its global events, its initial state *)
Record hsub : Type := mkSub {
  sub_states : list sdefn; sub_events : events; sub_initial : list nat }.

Inductive hform : Type :=
| HName (p : path) (a : hattrs)              (* add_states('s1_s2_s3', on_enter=.., ..) *)
| HDict (n : nat) (a : hattrs) (key : bool)  (* key: true 'children', false 'states' *)
        (ch : list hform) (ts : list (event * htrans))
| HEmbed (n : nat) (a : hattrs) (sub : hsub) (remap : list (nat * path)).

Inductive hop : Type :=
| HAddStates (l : list hform)
| HAddTransitions (l : list (event * htrans))        (* machine.add_transition(s): full paths *)
| HRemove (trig : event) (sp dp : path).             (* [] = '*' *)

Record hbm : Type := mkHbm {
  hb_ignore : option bool;             (* Machine.ignore_invalid_triggers *)
  hb_states : list sdefn;
  hb_events : events
}.

(* ---------------------------------------------------------------- ordered dicts *)
Fixpoint has_child (ds : list sdefn) (n : nat) : bool :=
  match ds with [] => false | d :: r => Nat.eqb (sd_name d) n || has_child r n end.

(* self.states[name] = state *)
Fixpoint set_child (d : sdefn) (ds : list sdefn) : list sdefn :=
  match ds with
  | [] => [d]
  | x :: r => if Nat.eqb (sd_name x) (sd_name d) then d :: r else x :: set_child d r
  end.

Definition with_scope (d : sdefn) (sc : scope) : sdefn :=
  match d with SDef n en ex onf fin ign ini _ _ => SDef n en ex onf fin ign ini (snd sc) (fst sc) end.
Definition scope_of (d : sdefn) : scope := (sd_children d, sd_events d).

(* with self(n): run f on the scope of child n (the first of that name) *)
Fixpoint in_child {E} (n : nat) (f : scope -> scope * option E) (ds : list sdefn)
  : list sdefn * option E :=
  match ds with
  | [] => ([], None)
  | d :: r => if Nat.eqb (sd_name d) n
              then (let '(sc, e) := f (scope_of d) in (with_scope d sc :: r, e))
              else (let '(r', e) := in_child n f r in (d :: r', e))
  end.

(* events[trigger].add_transition(t), creating the event when missing *)
Fixpoint add_ht (trig : event) (t : htrans) (evs : events) : events :=
  match evs with
  | [] => [(trig, [t])]
  | (e, ts) :: r => if Nat.eqb trig e then (e, ts ++ [t]) :: r else (e, ts) :: add_ht trig t r
  end.
Definition add_hts (l : list (event * htrans)) (evs : events) : events :=
  fold_left (fun e p => add_ht (fst p) (snd p) e) l evs.

(* ---------------------------------------------------------------- add_states *)
Definition res_ignore (dflt : option bool) (i : option (option bool)) (dict : bool) : option bool :=
  match i with
  | None => dflt
  | Some None => if dict then None else dflt      (* add_states(.., ignore_invalid_triggers=None) = absent *)
  | Some (Some b) => Some b
  end.

Definition leaf (dflt : option bool) (dict : bool) (n : nat) (a : hattrs) : sdefn :=
  SDef n (a_enter a) (a_exit a) (a_onfinal a) (a_final a) (res_ignore dflt (a_ignore a) dict)
       (a_initial a) [] [].

(* _add_string_state: the first domain is created when missing (with the same keyword
   arguments), the rest is added inside it; the last name must be new *)
Fixpoint add_path (dflt : option bool) (a : hattrs) (p : path) (sc : scope) : scope * option berr :=
  match p with
  | [] => (sc, None)
  | [n] => if has_child (fst sc) n then (sc, Some EValue)
           else ((fst sc ++ [leaf dflt false n a], snd sc), None)
  | n :: r =>
      let ds1 := if has_child (fst sc) n then fst sc else fst sc ++ [leaf dflt false n a] in
      let '(ds2, e) := in_child n (add_path dflt a r) ds1 in ((ds2, snd sc), e)
  end.

(* _remap_state *)
Definition in_remap (remap : list (nat * path)) (p : path) : option path :=
  match find (fun kv => peqb p [fst kv]) remap with Some kv => Some (snd kv) | None => None end.
Definition src_remapped (remap : list (nat * path)) (t : htrans) : bool :=
  match in_remap remap (ht_src t) with Some _ => true | None => false end.
Definition dst_remapped (remap : list (nat * path)) (t : htrans) : option path :=
  match ht_dst t with Some d => in_remap remap d | None => None end.
(* transitions that stay inside the embedding state *)
Definition kept_ts (remap : list (nat * path)) (ts : list htrans) : list htrans :=
  filter (fun t => negb (src_remapped remap t)
                   && match dst_remapped remap t with Some _ => false | None => true end) ts.
Definition kept_events (remap : list (nat * path)) (evs : events) : events :=
  filter (fun p => negb (is_nil (snd p))) (map (fun p => (fst p, kept_ts remap (snd p))) evs).
(* transitions into a remapped state: declared one scope up, from n_<source> to the target *)
Definition moved_ts (n : nat) (remap : list (nat * path)) (e : event) (ts : list htrans)
  : list (event * htrans) :=
  flat_map (fun t => if src_remapped remap t then []
                     else match dst_remapped remap t with
                          | Some tgt => [(e, mkHT (n :: ht_src t) (Some tgt) (ht_prepare t) (ht_conds t)
                                                  (ht_before t) (ht_after t))]
                          | None => []
                          end) ts.
Definition moved_events (n : nat) (remap : list (nat * path)) (evs : events) : list (event * htrans) :=
  flat_map (fun p => moved_ts n remap (fst p) (snd p)) evs.

Definition remap_keys (remap : list (nat * path)) : list nat := map fst remap.

(* _add_machine_states: the states not remapped (ValueError for a name already there), the
   events that have transitions and are not yet events of the scope *)
Fixpoint add_objs (l : list sdefn) (ds : list sdefn) : list sdefn * option berr :=
  match l with
  | [] => (ds, None)
  | d :: r => if has_child ds (sd_name d) then (ds, Some EValue) else add_objs r (ds ++ [d])
  end.
Fixpoint copy_events (l : events) (evs : events) : events :=
  match l with
  | [] => evs
  | (e, ts) :: r => if is_nil ts || has_key e evs then copy_events r evs else copy_events r (evs ++ [(e, ts)])
  end.

Fixpoint add_form (dflt : option bool) (f : hform) (sc : scope) : scope * option berr :=
  match f with
  | HName p a => add_path dflt a p sc
  | HDict n a _ ch ts =>
      (* new state (replacing one of the same name), then inside it: children, transitions *)
      let '(csc, e) :=
        (fix go (l : list hform) (c : scope) : scope * option berr :=
           match l with
           | [] => (c, None)
           | x :: r => match add_form dflt x c with
                       | (c', None) => go r c'
                       | res => res
                       end
           end) ch ([], []) in
      let csc' := match e with None => (fst csc, add_hts ts (snd csc)) | Some _ => csc end in
      ((set_child (with_scope (leaf dflt true n a) csc') (fst sc), snd sc), e)
  | HEmbed n a sub remap =>
      let new_states := filter (fun d => negb (existsb (Nat.eqb (sd_name d)) (remap_keys remap))) (sub_states sub) in
      let '(cds, e) := add_objs new_states [] in
      let ini := match a_initial a with [] => sub_initial sub | i => i end in
      let a' := mkHA (a_enter a) (a_exit a) (a_onfinal a) (a_final a) (a_ignore a) ini in
      match e with
      | Some _ => ((set_child (with_scope (leaf dflt true n a) (cds, [])) (fst sc), snd sc), e)
      | None =>
          let cevs := copy_events (sub_events sub) [] in
          let d := with_scope (leaf dflt true n a') (cds, match remap with [] => cevs | _ => kept_events remap cevs end) in
          ((set_child d (fst sc),
            add_hts (match remap with [] => [] | _ => moved_events n remap cevs end) (snd sc)), None)
      end
  end.

Fixpoint add_forms (dflt : option bool) (l : list hform) (sc : scope) : scope * option berr :=
  match l with
  | [] => (sc, None)
  | x :: r => match add_form dflt x sc with
              | (sc', None) => add_forms dflt r sc'
              | res => res
              end
  end.

(* ---------------------------------------------------------------- remove_transition *)
Definition rem_match (sp dp : path) (t : htrans) : bool :=
  (is_nil sp || peqb (ht_src t) sp)
  && (is_nil dp || match ht_dst t with Some d => peqb d dp | None => false end).

Fixpoint rem_evs (m : htrans -> bool) (trig : event) (evs : events) : events :=
  match evs with
  | [] => []
  | (e, ts) :: r =>
      if Nat.eqb trig e
      then (let ts' := filter (fun t => negb (m t)) ts in if is_nil ts' then r else (e, ts') :: r)
      else (e, ts) :: rem_evs m trig r
  end.

(* a child named like the whole remaining source or dest path is not visited; a filter is a
   path starting in the current scope, so a child that is not its head is not visited either
   (nothing declared in another branch can match); the head child sees the rest of the path *)
Definition not_head (n : nat) (p : path) : bool :=
  match p with [] => false | m :: _ => negb (Nat.eqb m n) end.
Definition rem_skip (n : nat) (sp dp : path) : bool :=
  peqb sp [n] || peqb dp [n] || not_head n sp || not_head n dp.
Definition rem_strip (n : nat) (p : path) : path :=
  match p with m :: r => if Nat.eqb m n then r else p | [] => [] end.

Fixpoint rem_d (trig : event) (sp dp : path) (d : sdefn) : sdefn :=
  match d with
  | SDef n en ex onf fin ign ini evs ch =>
      SDef n en ex onf fin ign ini (rem_evs (rem_match sp dp) trig evs)
           (map (fun c => if rem_skip (sd_name c) sp dp then c
                          else rem_d trig (rem_strip (sd_name c) sp) (rem_strip (sd_name c) dp) c) ch)
  end.
Definition rem_children (trig : event) (sp dp : path) (ds : list sdefn) : list sdefn :=
  map (fun c => if rem_skip (sd_name c) sp dp then c
                else rem_d trig (rem_strip (sd_name c) sp) (rem_strip (sd_name c) dp) c) ds.
Definition rem_scope (trig : event) (sp dp : path) (sc : scope) : scope :=
  (rem_children trig sp dp (fst sc), rem_evs (rem_match sp dp) trig (snd sc)).

(* ---------------------------------------------------------------- scripts *)
Definition hb_scope (b : hbm) : scope := (hb_states b, hb_events b).
Definition hb_with (b : hbm) (sc : scope) : hbm := mkHbm (hb_ignore b) (fst sc) (snd sc).

Definition hrun_op (o : hop) (b : hbm) : hbm * option berr :=
  match o with
  | HAddStates l => let '(sc, e) := add_forms (hb_ignore b) l (hb_scope b) in (hb_with b sc, e)
  | HAddTransitions l => (hb_with b (hb_states b, add_hts l (hb_events b)), None)
  | HRemove trig sp dp => (hb_with b (rem_scope trig sp dp (hb_scope b)), None)
  end.

Fixpoint hexec (s : list hop) (b : hbm) : hbm * option berr :=
  match s with
  | [] => (b, None)
  | o :: r => match hrun_op o b with
              | (b', None) => hexec r b'
              | res => res
              end
  end.

Definition hempty (ign : option bool) : hbm := mkHbm ign [] [].

(* the machine of Hsm.v (machine-level callbacks are not the subject here) *)
Definition to_hm (b : hbm) : hmachine :=
  mkHM (hb_states b) (hb_events b) [] [] [] [] [] []
       (match hb_ignore b with Some v => v | None => false end) false.

(* the machine description handed to 'children' *)
Definition sub_of (b : hbm) (ini : list nat) : hsub := mkSub (hb_states b) (hb_events b) ini.

(* ---------------------------------------------------------------- specification side: a
   machine / a script in which a trigger never occurred *)
Definition drop_evs (trig : event) (evs : events) : events :=
  filter (fun p => negb (Nat.eqb (fst p) trig)) evs.
Definition drop_ts (trig : event) (l : list (event * htrans)) : list (event * htrans) :=
  filter (fun p => negb (Nat.eqb (fst p) trig)) l.
Fixpoint drop_d (trig : event) (d : sdefn) : sdefn :=
  match d with
  | SDef n en ex onf fin ign ini evs ch =>
      SDef n en ex onf fin ign ini (drop_evs trig evs) (map (drop_d trig) ch)
  end.
Definition drop_scope (trig : event) (sc : scope) : scope :=
  (map (drop_d trig) (fst sc), drop_evs trig (snd sc)).
Definition drop_b (trig : event) (b : hbm) : hbm := hb_with b (drop_scope trig (hb_scope b)).
Definition drop_sub (trig : event) (s : hsub) : hsub :=
  mkSub (map (drop_d trig) (sub_states s)) (drop_evs trig (sub_events s)) (sub_initial s).
Fixpoint strip_form (trig : event) (f : hform) : hform :=
  match f with
  | HName _ _ => f
  | HDict n a k ch ts => HDict n a k (map (strip_form trig) ch) (drop_ts trig ts)
  | HEmbed n a s r => HEmbed n a (drop_sub trig s) r
  end.
Definition strip_op (trig : event) (o : hop) : hop :=
  match o with
  | HAddStates l => HAddStates (map (strip_form trig) l)
  | HAddTransitions l => HAddTransitions (drop_ts trig l)
  | HRemove _ _ _ => o
  end.
Definition removes (trig : event) (o : hop) : bool :=
  match o with HRemove t _ _ => Nat.eqb t trig | _ => false end.

(* event names are unique in every scope (they are dict keys) *)
Fixpoint nodup_keys (evs : events) : bool :=
  match evs with [] => true | (e, _) :: r => negb (has_key e r) && nodup_keys r end.
Fixpoint uk_d (d : sdefn) : bool :=
  match d with SDef _ _ _ _ _ _ _ evs ch => nodup_keys evs && forallb uk_d ch end.
Definition uk_scope (sc : scope) : bool := forallb uk_d (fst sc) && nodup_keys (snd sc).

(* the machines handed to 'children' have unique event names in every scope, too *)
Fixpoint wf_form (f : hform) : bool :=
  match f with
  | HName _ _ => true
  | HDict _ _ _ ch _ => forallb wf_form ch
  | HEmbed _ _ s _ => forallb uk_d (sub_states s)
  end.
Definition wf_op (o : hop) : bool :=
  match o with HAddStates l => forallb wf_form l | _ => true end.

(* ---------------------------------------------------------------- specification side: a
   state tree / a machine description written out as nested dicts *)
Definition flat_events (evs : events) : list (event * htrans) :=
  flat_map (fun p => map (pair (fst p)) (snd p)) evs.
Fixpoint form_of (d : sdefn) : hform :=
  match d with
  | SDef n en ex onf fin ign ini evs ch =>
      HDict n (mkHA en ex onf fin (Some ign) ini) true (map form_of ch) (flat_events evs)
  end.
Fixpoint nodup_names (ds : list sdefn) : bool :=
  match ds with [] => true | d :: r => negb (has_child r (sd_name d)) && nodup_names r end.
Definition nonempty_events (evs : events) : bool := forallb (fun p => negb (is_nil (snd p))) evs.
(* what every state tree of a real machine satisfies: sibling names and event names are dict
   keys, an event without transitions is deleted *)
Fixpoint wfr_d (d : sdefn) : bool :=
  match d with
  | SDef _ _ _ _ _ _ _ evs ch =>
      nodup_keys evs && nonempty_events evs && nodup_names ch && forallb wfr_d ch
  end.
Definition wf_sub (s : hsub) : bool :=
  nodup_names (sub_states s) && forallb wfr_d (sub_states s)
  && nodup_keys (sub_events s) && nonempty_events (sub_events s).
Definition with_initial (a : hattrs) (ini : list nat) : hattrs :=
  mkHA (a_enter a) (a_exit a) (a_onfinal a) (a_final a) (a_ignore a)
       (match a_initial a with [] => ini | i => i end).
(* the embedded machine without its remapped states and without the transitions from / into them *)
Definition kept_sub (remap : list (nat * path)) (s : hsub) : hsub :=
  mkSub (filter (fun d => negb (existsb (Nat.eqb (sd_name d)) (remap_keys remap))) (sub_states s))
        (kept_events remap (sub_events s)) (sub_initial s).

(* ---------------------------------------------------------------- specification side: a plain
   state tree given as nested dict, or as the parent followed by the separator-joined names
   of its descendants one by one (pre-order) *)
Inductive ptree : Type := PT (n : nat) (a : hattrs) (ch : list ptree).
Definition pt_name (t : ptree) : nat := match t with PT n _ _ => n end.
Fixpoint dict_of (t : ptree) : hform :=
  match t with PT n a ch => HDict n a true (map dict_of ch) [] end.
Definition pre (n : nat) (f : hform) : hform :=
  match f with HName p a => HName (n :: p) a | _ => f end.
Fixpoint names_of (t : ptree) : list hform :=
  match t with PT n a ch => HName [n] a :: map (pre n) (flat_map names_of ch) end.
Fixpoint nodup_pt (l : list ptree) : bool :=
  match l with
  | [] => true
  | t :: r => negb (existsb (fun u => Nat.eqb (pt_name u) (pt_name t)) r) && nodup_pt r
  end.
(* ignore_invalid_triggers=None cannot be told apart from "not given" in add_states(name, ..) *)
Definition expressible (a : hattrs) : bool :=
  match a_ignore a with Some None => false | _ => true end.
Fixpoint wf_pt (t : ptree) : bool :=
  match t with PT _ a ch => expressible a && nodup_pt ch && forallb wf_pt ch end.

(* ---------------------------------------------------------------- specification side:
   remove_transition(trigger, source, dest) deletes exactly the transitions whose ABSOLUTE
   source / destination are the given paths, whatever scope declares them *)
Definition abs_match (q sp dp : path) (t : htrans) : bool :=
  (is_nil sp || peqb (q ++ ht_src t) sp)
  && (is_nil dp || match ht_dst t with Some d => peqb (q ++ d) dp | None => false end).
Fixpoint filt_d (trig : event) (sp dp q : path) (d : sdefn) : sdefn :=
  match d with
  | SDef n en ex onf fin ign ini evs ch =>
      SDef n en ex onf fin ign ini (rem_evs (abs_match (q ++ [n]) sp dp) trig evs)
           (map (filt_d trig sp dp (q ++ [n])) ch)
  end.
Definition filt_scope (trig : event) (sp dp : path) (sc : scope) : scope :=
  (map (filt_d trig sp dp []) (fst sc), rem_evs (abs_match [] sp dp) trig (snd sc)).
(* sources and destinations are non-empty paths, no event without transitions *)
Definition wfp_t (t : htrans) : bool :=
  negb (is_nil (ht_src t)) && match ht_dst t with Some d => negb (is_nil d) | None => true end.
Definition wfp_evs (evs : events) : bool :=
  nonempty_events evs && forallb (fun p => forallb wfp_t (snd p)) evs.
Fixpoint wfp_d (d : sdefn) : bool :=
  match d with SDef _ _ _ _ _ _ _ evs ch => wfp_evs evs && forallb wfp_d ch end.
Definition wfp_scope (sc : scope) : bool := forallb wfp_d (fst sc) && wfp_evs (snd sc).

(* absolute (event, source) pairs of all transitions of a machine, whatever scope declares them *)
Fixpoint abs_sources_d (prefix : path) (d : sdefn) : list (event * path) :=
  match d with
  | SDef n _ _ _ _ _ _ evs ch =>
      flat_map (fun p => map (fun t => (fst p, (prefix ++ [n]) ++ ht_src t)) (snd p)) evs
      ++ flat_map (abs_sources_d (prefix ++ [n])) ch
  end.
Definition abs_sources (b : hbm) : list (event * path) :=
  flat_map (fun p => map (fun t => (fst p, ht_src t)) (snd p)) (hb_events b)
  ++ flat_map (abs_sources_d []) (hb_states b).
