(* FeaturesFinal.v — State.final next to the state features.  The flag is read by the
   machine's on_final processing only (core.Transition._change_state, nesting._final_check:
   property C18); Tags / Error / Volatile / Retry never read it.  A configuration with final
   flags therefore runs the step function of Features.v on its feature part.
   Definitions only. *)
From Coq Require Import List Arith Bool.
From M Require Import Features.
Import ListNotations.

Record fcfgF : Type := mkCfgF {
  cf_cfg : fcfg;
  cf_final : fstate_id -> bool        (* final=True given to the state *)
}.

Definition fstepF (cf : fcfgF) (w : world) (m : fmodel) (e : fevent) : list fitem * world * fres :=
  fstep (cf_cfg cf) w m e.
Definition frunF (cf : fcfgF) (w : world) (h : list (fmodel * fevent)) : list (list fitem * world * fres) :=
  frun (cf_cfg cf) w h.
