(* HReent.v — the hierarchical machine WITHOUT a queue whose callbacks call back into the machine:
   model.trigger(event) issued from a callback is processed immediately and completely inside the
   calling callback (Machine._process with queued=False), on the configuration as it is at that moment;
   the outer event then continues on whatever configuration the nested one left.  One model.
   The hierarchical engine of Hsm.v written over a callback runner that performs the callbacks'
   actions; recursion on explicit fuel (Python: RecursionError), exhaustion = [out_of_fuel], excluded in
   statements.  Definitions only. *)
From Coq Require Import List Arith Bool.
From M Require Import Base Flat Hsm Reent.
Import ListNotations.

Notation HM := (M (V:=forest) (S:=forest)).

Section HLevel.
  Variable hm : hmachine.
  Variable ev : env.
  (* model.trigger(event, payload) issued from a callback: the engine one fuel level below *)
  Variable nested : event -> nat -> HM bool.
  Variable c : ctx.

  Fixpoint hperform (pos k : nat) (acts : list action) : HM unit :=
    match acts with
    | [] => ret tt
    | ATrigger _ e' :: r => nested e' (nested_payload_r pos k) ;;; hperform pos (S k) r
    | ARemoveModel _ :: r => hperform pos (S k) r
    end.

  Definition hcall (sl : slot) (err : option exn) (cb : cbid) : HM bool :=
    fun p f =>
      let r := ev cb p in
      let it := mkGItem sl cb (c_model c) f (ctx_arg c) (if c_send c then err else None) (r_ret r) (r_acts r) in
      match hperform p 0 (r_acts r) (S p) f with
      | (t, f', inl x) => (it :: t, f', inl x)
      | (t, f', inr _) =>
          match r_raise r with
          | Some x => (it :: t, f', inl x)
          | None => (it :: t, f', inr (r_ret r))
          end
      end.

  Fixpoint hrun_cbs (sl : slot) (err : option exn) (cbs : list cbid) : HM unit :=
    match cbs with
    | [] => ret tt
    | cb :: rest => hcall sl err cb ;;; hrun_cbs sl err rest
    end.

  Fixpoint heval_conds (conds : list (cbid * bool)) : HM bool :=
    match conds with
    | [] => ret true
    | (cb, target) :: rest =>
        v <- hcall (if target then SCond else SUnless) None cb ;;
        if Bool.eqb v target then heval_conds rest else ret false
    end.

  Fixpoint hrun_exits (ps : list path) : HM unit :=
    match ps with
    | [] => ret tt
    | p :: r =>
        match defs_at hm p with
        | Some d => hrun_cbs SExit None (sd_exit d) ;;; hrun_exits r
        | None => raise ValueError
        end
    end.
  Fixpoint hrun_enters (ps : list path) : HM unit :=
    match ps with
    | [] => ret tt
    | p :: r =>
        match defs_at hm p with
        | Some d => hrun_cbs SEnter None (sd_enter d) ;;; hrun_enters r
        | None => raise ValueError
        end
    end.
  Fixpoint hrun_onfinal (l : list (list cbid)) : HM unit :=
    match l with
    | [] => ret tt
    | cbs :: r => hrun_cbs SOnFinal None cbs ;;; hrun_onfinal r
    end.

  (* the resolution is computed from the configuration as it is when _change_state starts; the new
     configuration computed then is written after the exit callbacks, whatever they did in between *)
  Definition hchange_state (sc : path) (dst : path) : HM unit :=
    match find_def (scope_children hm sc) dst with
    | None => raise ValueError
    | Some dd =>
        f <- get ;;
        match resolve f sc dst dd with
        | None => raise ValueError          (* the declaring scope is no longer active (an event triggered by an
                                               earlier callback left it).  The library crashes there in
                                               reduce(dict.get, scope, tree) with an AttributeError / TypeError on
                                               None; the harness reads that crash as this ValueError *)
        | Some r =>
            hrun_exits (r_exits r) ;;;
            put (r_new r) ;;;
            hrun_enters (r_enters r) ;;;
            hrun_onfinal (final_check_root hm (r_new r) (r_enters r))
        end
    end.

  Definition hexecute (sc : path) (t : htrans) : HM bool :=
    hrun_cbs SPrepare None (ht_prepare t) ;;;
    ok <- heval_conds (ht_conds t) ;;
    if ok then
      hrun_cbs SBeforeSC None (hm_before_sc hm) ;;;
      hrun_cbs SBefore None (ht_before t) ;;;
      match ht_dst t with Some d => hchange_state sc d | None => ret tt end ;;;
      hrun_cbs SAfter None (ht_after t) ;;;
      hrun_cbs SAfterSC None (hm_after_sc hm) ;;;
      ret true
    else ret false.

  Fixpoint htry_transitions (sc : path) (ts : list htrans) : HM bool :=
    match ts with
    | [] => ret false
    | t :: r => ok <- hexecute sc t ;; if ok then ret true else htry_transitions sc r
    end.

  Definition htrigger_nested (sc : path) (ts : list htrans) (key : nat) : HM (option bool) :=
    f <- get ;;
    match sub f sc with
    | None => raise ValueError
    | Some cur =>
        let branch := match f_get cur key with Some ch => [Node key ch] | None => [] end in
        r <- offer_loop_gen
               (fun p => hrun_cbs SPrepareEvent None (hm_prepare_event hm) ;;; htry_transitions sc (cands ts p))
               (fun p => match cands ts p with [] => false | _ => true end)
               sc (resolve_order branch) [] None ;;
        ret (fst r)
    end.

  Fixpoint hdispatch_t (e : event) (sc : path) (t : tree) : HM (option bool) :=
    match t with
    | Node key ch =>
        f <- get ;;
        if negb (active f (sc ++ [key])) then ret None
        else
          r1 <- (match ch with
                 | [] => ret None
                 | _ =>
                     (fix go (l : list tree) (acc : option bool) : HM (option bool) :=
                        match l with
                        | [] => ret acc
                        | t' :: l' =>
                            r <- hdispatch_t e (sc ++ [key]) t' ;;
                            go l' (match r with
                                   | None => acc
                                   | Some b => Some (orb b (match acc with Some a => a | None => false end))
                                   end)
                        end) ch None
                 end) ;;
          match r1 with
          | Some true => ret r1
          | _ =>
              match lookup (scope_events hm sc) e with
              | None => ret r1
              | Some ts =>
                  r2 <- htrigger_nested sc ts key ;;
                  ret (match r2 with None => r1 | Some b => Some b end)
              end
          end
    end.

  Fixpoint hdispatch_f (e : event) (sc : path) (l : list tree) (acc : option bool) : HM (option bool) :=
    match l with
    | [] => ret acc
    | t :: l' =>
        r <- hdispatch_t e sc t ;;
        hdispatch_f e sc l' (match r with
                             | None => acc
                             | Some b => Some (orb b (match acc with Some a => a | None => false end))
                             end)
    end.

  Definition htrigger_event (e : event) : HM bool :=
    try_except_finally
      (f <- get ;;
       r <- hdispatch_f e [] f None ;;
       match r with
       | Some b => ret b
       | None => f' <- get ;; check_leaves hm e (leaves f')
       end)
      (fun x =>
         match hm_on_exception hm with
         | [] => raise x
         | hs => hrun_cbs SOnException (Some x) hs ;;; ret false
         end)
      (fun err => hrun_cbs SFinalize err (hm_finalize hm)).
End HLevel.

(* model.trigger(event, payload) with [fuel] levels of re-entrancy left *)
Fixpoint hrtrigger (hm : hmachine) (ev : env) (m : model) (fuel : nat) (e : event) (a : nat) : HM bool :=
  match fuel with
  | 0 => raise out_of_fuel
  | S f => htrigger_event hm ev (hrtrigger hm ev m f) (mkCtx m a (hm_send_event hm)) e
  end.
