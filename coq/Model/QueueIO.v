(* QueueIO.v — the queued machine with several models: Queue.drain instantiated with the
   flat engine; decoding of cases / encoding of observations. *)
From Coq Require Import List Arith Bool.
From M Require Import Sx Base Flat FlatSpec FlatIO Queue Reent.
Import ListNotations.

Record world : Type := mkWorld { w_states : list (model * state); w_pos : nat }.

Fixpoint set_state (l : list (model * state)) (m : model) (s : state) : list (model * state) :=
  match l with
  | [] => [(m, s)]
  | (m', s') :: r => if Nat.eqb m m' then (m, s) :: r else (m', s') :: set_state r m s
  end.

Definition state_of (w : world) (m : model) : state :=
  match lookup (w_states w) m with Some s => s | None => 0 end.

Definition acts_of (tr : list item) : list action := flat_map it_acts tr.

Section Inst.
  Variable mc : machine.
  Variable ev : env.

  (* processing one queue entry = Event._trigger of the flat engine on that model *)
  Definition qstep (w : world) (q : qentry) : (list item * list action * option exn * world) :=
    let c := mkCtx (q_model q) (q_payload q) (m_send_event mc) in
    match trigger mc ev c (q_event q) (w_pos w) (state_of w (q_model q)) with
    | (tr, st', r) =>
        (tr, acts_of tr, match r with inl e => Some e | inr _ => None end,
         mkWorld (set_state (w_states w) (q_model q) st') (w_pos w + length tr))
    end.

  Definition nested_payload (q : qentry) (k : nat) : nat := 1000 + 16 * q_id q + k.

  Definition e_block (b : block (list item)) : sx :=
    L [N (q_id (b_entry b)); N (q_model (b_entry b)); N (q_event (b_entry b)); N (q_payload (b_entry b));
       e_list e_item (b_trace b); e_option e_exn (b_raised b)].
  Definition e_reason (r : drop_reason) : sx :=
    match r with DroppedByRemove m d => L [N 0; N m; N d] | DroppedByRaise d => L [N 1; N d] end.

  (* history of top-level calls model.trigger(event) on a queued machine *)
  Fixpoint run_qhistory (fuel : nat) (hs : list (model * event * nat)) (w : world)
           (s : qstate) : list sx :=
    match hs with
    | [] => []
    | (m, e, a) :: rest =>
        match top_trigger qstep nested_payload fuel w s m e a with
        | None => [L [N 9]]                                        (* out of fuel *)
        | Some (bs, r, w', s') =>
            L [e_list e_block bs;
               match r with Some e => L [N 1; e_exn e] | None => L [N 0; N 1] end;
               e_list (e_pair e_nat e_nat) (w_states w');
               e_list e_nat (qs_models s');
               N (length (qs_queue s'));
               e_list (fun d => L [N (q_id (fst d)); e_reason (snd d)]) (qs_dropped s')]
            :: run_qhistory fuel rest w' s'
        end
    end.
End Inst.

(* unqueued machine: every top-level trigger runs the re-entrant engine *)
Fixpoint run_rhistory (mc : machine) (ev : env) (fuel : nat) (hs : list (model * event * nat))
         (p : nat) (w : rworld) : list sx :=
  match hs with
  | [] => []
  | (m, e, a) :: rest =>
      match rtrigger mc ev fuel m e a p w with
      | (tr, w', r) =>
          L [e_list e_item tr; e_result r; e_list (e_pair e_nat e_nat) (rw_states w'); e_list e_nat (rw_models w')]
          :: run_rhistory mc ev fuel rest (p + length tr) w'
      end
  end.

(* case := [machine; env; models [(id, initial state)]; history [(model, event, payload)]; queued?] *)
Definition run_queue_case (x : sx) : sx :=
  match x with
  | L [mcx; evx; msx; hx; qx] =>
      match d_machine mcx, d_env evx, d_list (d_pair d_nat d_nat) msx,
            d_list (fun y => match y with L [N m; N e; N a] => Some (m, e, a) | _ => None end) hx, d_bool qx with
      | Some mc, Some ev, Some ms, Some hs, Some true =>
          L [N 1; L (run_qhistory mc ev 200 hs (mkWorld ms 0) (mkQS [] (map fst ms) 0 []))]
      | Some mc, Some ev, Some ms, Some hs, Some false =>
          L [N 2; L (run_rhistory mc ev 40 hs 0 (mkRW ms (map fst ms)))]
      | _, _, _, _, _ => L [N 0]
      end
  | _ => L [N 0]
  end.
