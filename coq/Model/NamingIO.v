(* NamingIO.v — decoding of generated C11 cases and encoding of the model's observations
   (helper tables, helper calls, get_triggers / get_transitions after every step).
   Strings travel as lists of character codes. *)
From Coq Require Import List Arith Bool String Ascii.
From M Require Import Sx Naming NamingHIO.
Import ListNotations.


Fixpoint string_of_codes (l : list nat) : string :=
  match l with [] => EmptyString | n :: r => String (ascii_of_nat n) (string_of_codes r) end.
Fixpoint codes_of_string (s : string) : list nat :=
  match s with EmptyString => [] | String a r => nat_of_ascii a :: codes_of_string r end.
Definition d_str (x : sx) : option string :=
  match d_list d_nat x with Some l => Some (string_of_codes l) | None => None end.
Definition e_str (s : string) : sx := L (map N (codes_of_string s)).

Definition e_exn (e : exn) : sx :=
  N (match e with MachineError => 0 | AttributeError => 1 | ValueError => 2 | KeyError => 3 | TypeError => 4 end).
Definition e_res (r : res) : sx :=
  match r with RBool b => L [N 0; e_bool b] | RExn e => L [N 1; e_exn e] | RUser k => L [N 2; N k] end.

Definition d_cfg (x : sx) : option cfg :=
  match x with
  | L [a; au; ov; ig] =>
      do a' <- d_str a; do au' <- d_bool au; do ov' <- d_bool ov; do ig' <- d_bool ig;
      Some (mkCfg a' au' ov' ig')
  | _ => None
  end.

Definition d_aval (x : sx) : option aval :=
  match x with
  | L [N 0; N k] => Some (VPre k)
  | L [N 4; N k] => Some (VOwn k)
  | L [N 1] => Some VNone
  | _ => None
  end.
Definition d_obj (x : sx) : option mobj :=
  match x with
  | L [i; cl; ins] =>
      do i' <- d_nat i; do cl' <- d_list (d_pair d_str d_aval) cl;
      do ins' <- d_list (d_pair d_str d_aval) ins; Some (new_obj i' cl' ins')
  | _ => None
  end.

Definition d_src (x : sx) : option srcspec :=
  match x with
  | L [] => Some SAll
  | L [l] => do l' <- d_list d_str l; Some (SList l')
  | _ => None
  end.
Definition d_dst (x : sx) : option dstspec :=
  match x with
  | L [N 0; d] => do d' <- d_str d; Some (DName d')
  | L [N 1] => Some DSame
  | L [N 2] => Some DNone
  | _ => None
  end.

Definition d_op (x : sx) : option op :=
  match x with
  | L [N 0; ns] => do ns' <- d_list d_str ns; Some (OAddStates ns')
  | L [N 1; s] => do s' <- d_str s; Some (OSetInitial s')
  | L [N 2; t; s; d; ok] =>
      do t' <- d_str t; do s' <- d_src s; do d' <- d_dst d; do ok' <- d_bool ok;
      Some (OAddTransition t' s' d' ok')
  | L [N 3; t; s; d] =>
      do t' <- d_str t; do s' <- d_option d_str s; do d' <- d_option d_str d;
      Some (ORemoveTransition t' s' d')
  | L [N 4; o; i] => do o' <- d_obj o; do i' <- d_option d_str i; Some (OAddModel o' i')
  | L [N 5; mid; n; a] =>
      do mid' <- d_nat mid; do n' <- d_str n; do a' <- d_option d_str a; Some (OCall mid' n' a')
  | _ => None
  end.

Definition d_query (x : sx) : option (string * string * string) :=
  match x with
  | L [t; s; d] => do t' <- d_str t; do s' <- d_str s; do d' <- d_str d; Some (t', s', d')
  | _ => None
  end.

(* ------------------------------------------------------------------ observation *)
Definition unknown_name : string := "zz_unknown".

Definition e_kind (v : option aval) : sx :=
  match v with
  | None => L [N 9]
  | Some (VPre k) => L [N 0; N k]
  | Some (VOwn k) => L [N 4; N k]
  | Some VNone => L [N 1]
  | Some (VState s) => L [N 3; e_str s]
  | Some _ => L [N 2]
  end.
Definition is_helper (v : option aval) : bool :=
  match v with
  | Some VTrigger | Some VMayTrigger | Some (VEvent _) | Some (VMay _) | Some (VIs _) => true
  | _ => false
  end.

Definition visible_names (o : mobj) : list string :=
  map fst (o_inst o) ++ filter (fun n => negb (smem n (map fst (o_inst o)))) (map fst (o_cls o)).

Definition e_call (c : cfg) (m : mach) (o : mobj) (n : string) (arg : option string) : sx :=
  let (o', r) := call_attr c m o n arg in L [e_res r; e_option e_str (cur_state c o')].

Definition obs_model (c : cfg) (m : mach) (o : mobj) : sx :=
  let names := visible_names o in
  let evs := map fst (m_events m) ++ [unknown_name] in
  L [ N (o_id o);
      e_option e_str (cur_state c o);
      L (map (fun n => L [e_str n; e_kind (getattr o n)]) names);
      L (map (fun n => L [e_str n; e_call c m o n None])
             (filter (fun n => is_helper (getattr o n)) names));
      L (map (fun e => L [e_str e; e_call c m o "trigger" (Some e); e_call c m o "may_trigger" (Some e)]) evs);
      L (map (fun s => L [e_str s; e_kind (getattr o (is_name c s));
                          if is_helper (getattr o (is_name c s))
                          then L [e_call c m o (is_name c s) None] else L []]) (m_states m));
      L (map (fun s => L [e_str s; e_kind (getattr o (to_name c s));
                          if is_helper (getattr o (to_name c s))
                          then L [e_call c m o (to_name c s) None] else L []]) (m_states m)) ].

Definition e_trans (t : trans) : sx := L [e_str (t_src t); e_option e_str (t_dst t)].

Definition obs_mach (c : cfg) (qs : list (string * string * string)) (m : mach) : sx :=
  L [ L (map e_str (m_states m));
      L (map e_str (map fst (m_events m)));
      L (map (obs_model c m) (m_models m));
      L (map (fun s => L [e_str s; L (map e_str (get_triggers m [s]))]) (m_states m)
         ++ [L [e_str "*"; L (map e_str (get_triggers m (m_states m)))];
             L [e_str unknown_name; L (map e_str (get_triggers m [unknown_name]))]]);
      L (map (fun q => match q with (t, s, d) => L (map e_trans (get_transitions m t s d)) end)
             ((EmptyString, "*"%string, "*"%string) :: qs)) ].

Definition e_outcome (x : outcome) : sx :=
  match x with Done => L [N 0] | Raised e => L [N 1; e_exn e] | Returned r => L [N 2; e_res r] end.

Fixpoint run_obs (c : cfg) (qs : list (string * string * string)) (m : mach) (ops : list op) : list sx :=
  match ops with
  | [] => []
  | x :: r => let (m', out) := step c m x in
              L [e_outcome out; obs_mach c qs m'] :: run_obs c qs m' r
  end.

(* the constructor: its operations in order; the first one that raises aborts it *)
Fixpoint run_ctor (c : cfg) (m : mach) (ops : list op) : mach + exn :=
  match ops with
  | [] => inl m
  | x :: r => match step c m x with
              | (_, Raised e) => inr e
              | (m', _) => run_ctor c m' r
              end
  end.

(* a flat case: [0; cfg; nctor; ops; queries] — the first nctor operations are the
   constructor call (one observation for all of them), then one observation per operation *)
Definition run_flat_naming (x : list sx) : sx :=
  match x with
  | [cf; nct; ops; qs] =>
      match d_cfg cf, d_nat nct, d_list d_op ops, d_list d_query qs with
      | Some c, Some n, Some ops', Some qs' =>
          match run_ctor c empty_mach (firstn n ops') with
          | inl m0 => L [N 1; L (obs_mach c qs' m0 :: run_obs c qs' m0 (skipn n ops'))]
          | inr e => L [N 2; e_exn e]
          end
      | _, _, _, _ => L [N 0]
      end
  | _ => L [N 0]
  end.

(* ------------------------------------------------------------------ nested cases *)
Fixpoint d_tree (x : sx) : option stree :=
  match x with
  | L [n; L ks] =>
      do n' <- d_str n;
      do ks' <- (fix go (l : list sx) : option (list stree) :=
                   match l with
                   | [] => Some []
                   | k :: r => match d_tree k, go r with Some a, Some b => Some (a :: b) | _, _ => None end
                   end) ks;
      Some (SN n' ks')
  | _ => None
  end.
Definition d_hcfg (x : sx) : option hcfg :=
  match x with
  | L [s; a; o] => do s' <- d_str s; do a' <- d_bool a; do o' <- d_bool o; Some (mkH s' a' o')
  | _ => None
  end.
Inductive hop := HAddModel (o : mobj) (init : list string) | HSetState (mid : nat) (paths : list (list string)).
Definition d_hop (x : sx) : option hop :=
  match x with
  | L [N 0; o; i] => do o' <- d_obj o; do i' <- d_list d_str i; Some (HAddModel o' i')
  | L [N 1; mid; ps] => do mid' <- d_nat mid; do ps' <- d_list (d_list d_str) ps; Some (HSetState mid' ps')
  | _ => None
  end.
Definition e_hkind (k : hkind) : sx :=
  match k with KPre n => L [N 0; N n] | KOwn n => L [N 4; N n] | KNone => L [N 1] | KHelper => L [N 2] | KAbsent => L [N 9] end.
(* registered models with their active leaf paths *)
Definition hmodels := list (mobj * list (list string)).
Definition obs_hmodel (h : hcfg) (f : list stree) (oa : mobj * list (list string)) : sx :=
  let (o, act) := oa in
  L [N (o_id o);
     L (map (fun p =>
               let ik := nested_is_kind h o p in
               L [e_str (join_path (h_sep h) p); e_hkind ik;
                  match ik with
                  | KHelper => L [e_bool (is_state_nested act p false); e_bool (is_state_nested act p true)]
                  | _ => L []
                  end;
                  e_hkind (nested_to_kind h o p);
                  (* calling the to-helper from a configuration with one active state: True, ends in p *)
                  match nested_to_kind h o p, act with
                  | KHelper, [_] => L [e_bool true; e_str (join_path (h_sep h) p)]
                  | _, _ => L []
                  end;
                  (* model.to(<path name>) (HierarchicalMachine.to_state, bound unless the model has its
                     own `to`) from a configuration with one active state: ends in p, and runs the
                     same exit / enter callbacks as the to_<p> helper *)
                  match getattr o "to"%string, act with
                  | None, [_] => L [N 1]
                  | _, _ => L []
                  end]) (forest_paths f));
     (* the attribute `to`: the machine's unless the model defined one (hasattr) *)
     e_hkind (match getattr o "to"%string with None => KHelper | own => own_kind own end);
     (* ... called from a configuration with several active states: MachineError *)
     match getattr o "to"%string, act with
     | None, _ :: _ :: _ => L [e_exn MachineError]
     | _, _ => L []
     end].
Definition hstep (h : hcfg) (f : list stree) (ms : hmodels) (x : hop) : hmodels * sx :=
  match x with
  | HAddModel o init =>
      if existsb (fun oa => Nat.eqb (o_id (fst oa)) (o_id o)) ms then (ms, L [N 0])
      else if wrapper_clash h f o then (ms, L [N 1; e_exn AttributeError])
      else (ms ++ [(o, [init])], L [N 0])
  | HSetState mid ps =>
      (map (fun oa => if Nat.eqb (o_id (fst oa)) mid then (fst oa, ps) else oa) ms, L [N 0])
  end.
Fixpoint hrun (h : hcfg) (f : list stree) (ms : hmodels) (ops : list hop) : list sx :=
  match ops with
  | [] => []
  | x :: r => let (ms', out) := hstep h f ms x in
              L [out; L (map (obs_hmodel h f) ms')] :: hrun h f ms' r
  end.
Definition run_nested_naming (x : list sx) : sx :=
  match x with
  | [hc; fo; ops] =>
      match d_hcfg hc, d_list d_tree fo, d_list d_hop ops with
      | Some h, Some f, Some ops' =>
          L [N 1; L (map (fun p => e_str (join_path (h_sep h) p)) (forest_paths f)); L (hrun h f [] ops')]
      | _, _, _ => L [N 0]
      end
  | _ => L [N 0]
  end.

Definition run_naming_case (x : sx) : sx :=
  match x with
  | L (N 0 :: rest) => run_flat_naming rest
  | L (N 1 :: rest) => run_nested_naming rest
  (* hierarchical reconfiguration stream: the reference relation and the clauses live in the
     harness (c11_hrec.py), the answer to them is "no clause is violated"; get_triggers of
     every state after every operation is computed by NamingH.get_triggers_h on the event
     tables (by declaring scope) of the reference relation *)
  | L [N 2; L hs] => L [N 1; L []; L (map run_naming_h hs)]
  (* static nested stream: the string model of names / helpers, and NamingH.is_helper_h /
     get_triggers_h on the same machine with numbered states *)
  | L [N 3; L rest; h] => L [N 3; run_nested_naming rest; run_naming_h h]
  | _ => L [N 0]
  end.
