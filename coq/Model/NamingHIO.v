(* NamingHIO.v — the hierarchical C11 functions of NamingH.v on generated cases:
   [hm; paths; configs] -> for every configuration (a model's state value: list of leaf
   paths) and every path the answers of is_<path>() and is_<path>(allow_substates=True),
   and for every path get_triggers(path).  The machine format is that of HsmIO.v. *)
From Coq Require Import List Arith Bool.
From M Require Import Sx Base Flat Hsm HsmSpec HsmIO NamingH.
Import ListNotations.

Definition run_naming_h (x : sx) : sx :=
  match x with
  | L [hm; paths; configs] =>
      match d_hmachine hm, d_list d_path paths, d_list (d_list d_path) configs with
      | Some hm', Some ps, Some cs =>
          L [N 1;
             L (map (fun ls => L (map (fun p => L [e_bool (is_helper_h ls p false);
                                                   e_bool (is_helper_h ls p true)]) ps)) cs);
             L (map (fun p => L (map N (get_triggers_h hm' p))) ps)]
      | _, _, _ => L [N 0]
      end
  | _ => L [N 0]
  end.
