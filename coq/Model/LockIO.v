(* LockIO.v — the concrete instance of Lock.v used by the correspondence check (kind 10):
   a small flat machine (states, first-match transition table, models; machine-level callbacks
   prepare_event / before_state_change / after_state_change / finalize_event, each a segment
   boundary; callbacks may raise or call the machine again), macro steps (= the steps the
   harness can observe without source hooks), decoding of cases and encoding of observations.

   case = [mode, cfg, machine, calls, progs, sched, fails]
     mode    0: run the schedule        1: enumerate maximal schedules (budget = hd sched)
     cfg     [machine_context lock ids, hierarchical?]   lock 0 = the default PicklableLock (not
             instrumented: its acquire/release are not observable), ids >= 1 = user contexts
     machine [state ids, [[event, src, dst] ...], [[model, initial state, registered?, [model_context ids]] ...], queued?]
     calls   [[cid, kind, a, b, c, [[slot, action, arg] ...], [models], [model_context ids]] ...]
             kind 0 event a=model b=event | 1 set_state a=model b=state | 2 add_transition a=event b=src c=dst
                  3 add_states a=state | 4 remove_model [models] | 5 add_model [models] initial=b model_context
                  6 a=model: machine.callback(f, event_data) if b=0, machine.callbacks([f]*b, event_data) if b>=1
             slot 0 prepare_event 1 before 2 after 3 finalize; action 1 raise | 2 nested call arg=cid
     progs   [[cid ...] ...]  (thread i+1 issues the i-th list)
     sched   [tid ...]        (macro steps)
     fails   [[cid, context id, kind] ...]   kind 1: __enter__ of that context raises for top-level call cid,
                                             kind 2: its __exit__ raises (after releasing)
   observation = [1, [log, final, alldone, serial_ok, left_the_envelope]]  *)
From Coq Require Import List Arith Bool.
From M Require Import Sx Lock.
Import ListNotations.

(* ------------------------------------------------------------------ concrete machine *)
Inductive cres : Type := RVal (v : nat) (* 0 False 1 True 2 None *)
                       | RExn (k : nat) (* 2 ValueError 3 user 5 context refused 6 context exit error *).

Record cspec : Type := mkSpec {
  s_cid : nat; s_kind : nat; s_a : nat; s_b : nat; s_c : nat;
  s_script : list (nat * (nat * nat));
  s_ms : list nat; s_mc : list nat
}.

(* Machine(queued=True): _transition_queue; q_busy = an event is being processed (the queue is not empty),
   q_queue = the events (call ids) appended meanwhile *)
Record qinfo : Type := mkQ { q_queued : bool; q_busy : bool; q_queue : list nat }.

Record cms : Type := mkMS {
  m_states : list nat;
  m_trans : list (nat * (nat * nat));
  m_models : list (nat * nat);           (* every model object -> its state attribute *)
  m_reg : list nat;                      (* machine.models, in order *)
  m_cmap : list (nat * list nat);        (* non-empty entries of model_context_map: model -> its model contexts *)
  m_q : qinfo
}.

Fixpoint lookup_l (l : list (nat * list nat)) (m : nat) : option (list nat) :=
  match l with
  | [] => None
  | (m', c) :: r => if Nat.eqb m m' then Some c else lookup_l r m
  end.
Definition c_reg (ms : cms) (m : nat) : option (list nat) := lookup_l (m_cmap ms) m.
Definition mem (x : nat) (l : list nat) : bool := existsb (Nat.eqb x) l.

Record evp : Type := mkEvp { e_cid : nat; e_m : nat; e_dst : nat; e_res : cres }.

Inductive kk : Type :=
| KMeth (cid : nat) | KInit (cid : nat) | KCb (sl : nat) (e : evp) | KPost (sl : nat) (e : evp)
| KFcb (cid : nat) (m : nat) (rem : nat)
| KDeq (cid : nat).                         (* queued machine: the next pending event is taken from the queue *)   (* machine.callback / machine.callbacks called directly: rem user callables left *)

Definition citem : Type := (nat * (nat * (nat * nat)))%type.    (* event's call id, slot, model, state seen *)

Fixpoint find_spec (tab : list cspec) (cid : nat) : option cspec :=
  match tab with
  | [] => None
  | s :: r => if Nat.eqb (s_cid s) cid then Some s else find_spec r cid
  end.

Definition state_of (ms : cms) (m : nat) : nat :=
  match assoc_nat (m_models ms) m with Some s => s | None => 999 end.

Fixpoint set_assoc (l : list (nat * nat)) (m s : nat) : list (nat * nat) :=
  match l with
  | [] => []
  | (m', s') :: r => if Nat.eqb m m' then (m', s) :: r else (m', s') :: set_assoc r m s
  end.

Definition set_model_state (ms : cms) (m s : nat) : cms :=
  mkMS (m_states ms) (m_trans ms) (set_assoc (m_models ms) m s) (m_reg ms) (m_cmap ms) (m_q ms).

(* Machine.add_model (core): a model not yet in machine.models gets the initial state and is appended *)
Fixpoint core_add (ms : cms) (l : list nat) (init : nat) : cms :=
  match l with
  | [] => ms
  | m :: r =>
      if mem m (m_reg ms) then core_add ms r init
      else core_add (mkMS (m_states ms) (m_trans ms) (set_assoc (m_models ms) m init) (m_reg ms ++ [m]) (m_cmap ms) (m_q ms)) r init
  end.

(* HierarchicalMachine.add_model (after fix 4f24f39) initialises only the newly registered models, each from
   its own state: on flat configurations exactly core_add; a registered model keeps its state. *)

(* LockedMachine.add_model: a model whose entry is empty gets machine_context ++ model_context *)
Fixpoint lock_add (cm : list (nat * list nat)) (l : list nat) (mc : list nat) : list (nat * list nat) :=
  match l with
  | [] => cm
  | m :: r => match lookup_l cm m with
              | Some _ => lock_add cm r mc
              | None => lock_add (cm ++ [(m, mc)]) r mc
              end
  end.

(* LockedMachine.remove_model: del map[id(mod)] for each (KeyError stops the loop), then Machine.remove_model *)
Fixpoint lock_del (cm : list (nat * list nat)) (l : list nat) : list (nat * list nat) * bool :=
  match l with
  | [] => (cm, true)
  | m :: r => match lookup_l cm m with
              | Some _ => lock_del (filter (fun e => negb (Nat.eqb (fst e) m)) cm) r
              | None => (cm, false)
              end
  end.
Fixpoint core_del (reg : list nat) (l : list nat) : list nat * bool :=
  match l with
  | [] => (reg, true)
  | m :: r => if mem m reg then core_del (filter (fun x => negb (Nat.eqb x m)) reg) r else (reg, false)
  end.

Fixpoint first_dst (tr : list (nat * (nat * nat))) (e src : nat) : option nat :=
  match tr with
  | [] => None
  | (e', (s', d)) :: r => if Nat.eqb e e' && Nat.eqb src s' then Some d else first_dst r e src
  end.

Definition call_of_spec (s : cspec) : call :=
  mkCall (match s_kind s with 0 => KEvent (s_a s) | _ => KMethod end) (s_cid s).

Definition script_at (s : cspec) (sl : nat) : nat * nat :=
  match assoc_nat (s_script s) sl with Some x => x | None => (0, 0) end.

Definition set_q (ms : cms) (q : qinfo) : cms :=
  mkMS (m_states ms) (m_trans ms) (m_models ms) (m_reg ms) (m_cmap ms) q.

Section Concrete.
  Variable tab : list cspec.

  Definition c_start (c : call) : kk :=
    match find_spec tab (c_id c) with
    | Some s => match s_kind s with
                | 0 => KInit (c_id c)
                | 6 => KFcb (c_id c) (s_a s) (s_b s)
                | _ => KMeth (c_id c)
                end
    | None => KMeth (c_id c)
    end.

  (* the event is over.  Machine._process with a queue: an exception clears the queue and is raised; otherwise the
     next pending event is processed by the same call; when the queue is empty the call returns True *)
  Definition c_finish (r : cres) (ms : cms) : cms * status (K:=kk) (R:=cres) :=
    let q := m_q ms in
    if q_queued q then
      match r with
      | RExn _ => (set_q ms (mkQ true false []), SDone r)
      | RVal _ =>
          match q_queue q with
          | [] => (set_q ms (mkQ true false []), SDone (RVal 1))
          | cid' :: rest => (set_q ms (mkQ true true rest), SMore (KDeq cid'))
          end
      end
    else (ms, SDone r).

  Definition c_post (sl : nat) (e : evp) (ms : cms) : cms * status (K:=kk) (R:=cres) :=
    match sl with
    | 0 => (ms, SMore (KCb 1 e))
    | 1 => (set_model_state ms (e_m e) (e_dst e), SMore (KCb 2 e))
    | 2 => (ms, SMore (KCb 3 e))
    | _ => c_finish (e_res e) ms
    end.

  Definition c_begin (cid : nat) (ms : cms) : cms * list citem * status (K:=kk) (R:=cres) :=
    match find_spec tab cid with
    | None => (ms, [], SDone (RExn 9))
    | Some s =>
        let m := s_a s in
        match first_dst (m_trans ms) (s_b s) (state_of ms m) with
        | None => (ms, [], SMore (KCb 3 (mkEvp cid m 0 (RVal 0))))
        | Some d => (ms, [], SMore (KCb 0 (mkEvp cid m d (RVal 1))))
        end
    end.

  Definition c_resume (k : kk) (ms : cms) : cms * list citem * status (K:=kk) (R:=cres) :=
    match k with
    | KMeth cid =>
        match find_spec tab cid with
        | None => (ms, [], SDone (RExn 9))
        | Some s =>
            match s_kind s with
            | 1 => if existsb (Nat.eqb (s_b s)) (m_states ms)
                   then (set_model_state ms (s_a s) (s_b s), [], SDone (RVal 2))
                   else (ms, [], SDone (RExn 2))
            | 2 => (mkMS (m_states ms) (m_trans ms ++ [(s_a s, (s_b s, s_c s))]) (m_models ms) (m_reg ms) (m_cmap ms) (m_q ms),
                    [], SDone (RVal 2))
            | 3 => (mkMS (m_states ms ++ [s_a s]) (m_trans ms) (m_models ms) (m_reg ms) (m_cmap ms) (m_q ms), [], SDone (RVal 2))
            | 4 => match lock_del (m_cmap ms) (s_ms s) with
                   | (cm, false) => (mkMS (m_states ms) (m_trans ms) (m_models ms) (m_reg ms) cm (m_q ms), [], SDone (RExn 9))
                   | (cm, true) =>
                       match core_del (m_reg ms) (s_ms s) with
                       | (rg, ok) => (mkMS (m_states ms) (m_trans ms) (m_models ms) rg cm (m_q ms), [],
                                      SDone (if ok then RVal 2 else RExn 2))
                       end
                   end
            | 5 => let ms2 := core_add ms (s_ms s) (s_b s) in
                   (mkMS (m_states ms2) (m_trans ms2) (m_models ms2) (m_reg ms2) (lock_add (m_cmap ms2) (s_ms s) (s_mc s)) (m_q ms2),
                    [], SDone (RVal 2))
            | _ => (ms, [], SDone (RExn 9))
            end
        end
    | KInit cid =>
        let q := m_q ms in
        if q_queued q && q_busy q
        then (* Machine._process: another entry in the queue - append and return True *)
             (set_q ms (mkQ true true (q_queue q ++ [cid])), [], SDone (RVal 1))
        else c_begin cid (if q_queued q then set_q ms (mkQ true true (q_queue q)) else ms)
    | KDeq cid => c_begin cid ms
    | KCb sl e =>
        let it := (e_cid e, (sl, (e_m e, state_of ms (e_m e)))) in
        match find_spec tab (e_cid e) with
        | None => (ms, [it], SDone (RExn 9))
        | Some s =>
            match script_at s sl with
            | (1, _) => match sl with
                        | 3 => let (ms', st) := c_finish (e_res e) ms in (ms', [it], st)   (* finalize swallows *)
                        | _ => (ms, [it], SMore (KCb 3 (mkEvp (e_cid e) (e_m e) (e_dst e) (RExn 3))))
                        end
            | (2, cid') =>
                match find_spec tab cid' with
                | Some s' => (ms, [it], SCall (call_of_spec s') (KPost sl e))
                | None => let (ms', st) := c_post sl e ms in (ms', [it], st)
                end
            | _ => let (ms', st) := c_post sl e ms in (ms', [it], st)
            end
        end
    | KPost sl e => let (ms', st) := c_post sl e ms in (ms', [], st)
    | KFcb cid m rem =>
        (* the public methods callback(func, event_data) / callbacks(funcs, event_data) run user callables; each is a
           segment (slot 4) *)
        let it := (cid, (4, (m, state_of ms m))) in
        match rem with
        | 0 | 1 => (ms, [it], SDone (RVal 2))
        | S r => (ms, [it], SMore (KFcb cid m r))
        end
    end.

  Definition c_ret (k : kk) (r : cres) : kk := k.

  Definition c_vis (k : kk) : bool := match k with KCb _ _ => true | KFcb _ _ _ => true | _ => false end.
End Concrete.

(* ------------------------------------------------------------------ macro steps *)
Definition cgstate := gstate (MS:=cms) (K:=kk) (R:=cres) (I:=citem).
Definition cthread := thread (K:=kk) (R:=cres) (I:=citem).

Definition ctx_visible (x : ctx) : bool :=
  match x with CLock 0 => false | CLock _ => true | CIdent => false end.

(* is the next step of the thread one the harness can stop before? *)
Definition next_visible (th : cthread) : bool :=
  match top_act th with
  | None => true                                   (* before a top-level call *)
  | Some a =>
      match a_phase a with
      | PAcq (x :: _) => ctx_visible x
      | PAcq [] => false
      | PRun k => c_vis k
      | PRel _ => match a_held a with x :: _ => ctx_visible x | [] => false end
      end
  end.

Definition fail_at (fails : list (nat * (nat * nat))) (kind : nat) (c : call) (x : ctx) : bool :=
  match x with
  | CLock l => existsb (fun f => Nat.eqb (fst f) (c_id c) && Nat.eqb (fst (snd f)) l && Nat.eqb (snd (snd f)) kind) fails
  | CIdent => false
  end.
Definition c_refused (c : call) (x : ctx) : cres := RExn 5.
Definition c_exit (c : call) (x : ctx) (r : cres) : cres := RExn 6.

Section Macro.
  Variable tab : list cspec.
  Variable fails : list (nat * (nat * nat)).
  Variable cfg : lcfg.
  Definition cstep : nat -> cgstate -> cgstate :=
    step (c_start tab) (c_resume tab) c_ret c_reg (fail_at fails 1) (fail_at fails 2) c_refused c_exit cfg.
  Notation blocked := (blocked (fail_at fails 1)).

  Fixpoint macro_go (fuel : nat) (first : bool) (t : nat) (g : cgstate) : cgstate :=
    match fuel with
    | 0 => g
    | S f =>
        if thread_done (g_th g t) then g
        else if first || negb (next_visible (g_th g t))
        then (if blocked g t then cstep t g else macro_go f false t (cstep t g))
        else g
    end.
  Definition macro_step (t : nat) (g : cgstate) : cgstate :=
    if Nat.eqb t 0 then g else macro_go 60 true t g.
  Definition macro_run (sched : list nat) (g : cgstate) : cgstate :=
    fold_left (fun g t => macro_step t g) sched g.

  Definition last_is_blocked (g : cgstate) : bool :=
    match rev (g_log g) with EvBlocked _ _ :: _ => true | _ => false end.

  (* does a macro step of t make progress (not finished, not just a blocked attempt)? *)
  Definition macro_enabled (g : cgstate) (t : nat) : bool :=
    negb (thread_done (g_th g t)) &&
    (let g' := macro_step t g in
     negb (Nat.eqb (length (g_log g')) (S (length (g_log g))) && last_is_blocked g')).

  (* all maximal macro schedules without blocked attempts, depth-first, at most [budget] *)
  Fixpoint enum (fuel : nat) (n : nat) (g : cgstate) (pre : list nat) (budget : nat)
    : list (list nat) * nat :=
    match fuel with
    | 0 => ([rev pre], pred budget)
    | S f =>
        let ts := filter (macro_enabled g) (seq 1 n) in
        match ts with
        | [] => ([rev pre], pred budget)
        | _ =>
            fold_left (fun (acc : list (list nat) * nat) t =>
                         match snd acc with
                         | 0 => acc
                         | b => let (l, b') := enum f n (macro_step t g) (t :: pre) b in (fst acc ++ l, b')
                         end) ts ([], budget)
        end
    end.
End Macro.

(* ------------------------------------------------------------------ decoding *)
Definition d_nats := d_list d_nat.
Definition d_cfg (x : sx) : option lcfg :=
  match x with
  | L [mc; h] =>
      do mc' <- d_nats mc;
      do h' <- d_bool h;
      Some (mkCfg mc' h')
  | _ => None
  end.

Definition d_triple (x : sx) : option (nat * (nat * nat)) :=
  match x with
  | L [a; b; c] => do a' <- d_nat a; do b' <- d_nat b; do c' <- d_nat c; Some (a', (b', c'))
  | _ => None
  end.

Definition d_modelx (x : sx) : option (nat * nat * bool * list nat) :=
  match x with
  | L [m; st; r; mc] => do m' <- d_nat m; do st' <- d_nat st; do r' <- d_bool r; do mc' <- d_nats mc; Some (m', st', r', mc')
  | _ => None
  end.

Definition d_machine (x : sx) : option cms :=
  match x with
  | L [sts; trs; mods; qd] =>
      do qd' <- d_bool qd;
      do sts' <- d_nats sts;
      do trs' <- d_list d_triple trs;
      do mods' <- d_list d_modelx mods;
      Some (mkMS sts' trs' (map (fun x : nat * nat * bool * list nat => (fst (fst (fst x)), snd (fst (fst x)))) mods')
                 (flat_map (fun x : nat * nat * bool * list nat => if snd (fst x) then [fst (fst (fst x))] else []) mods')
                 (flat_map (fun x : nat * nat * bool * list nat => if snd (fst x) then [(fst (fst (fst x)), snd x)] else []) mods')
                 (mkQ qd' false []))
  | _ => None
  end.

Definition d_spec (x : sx) : option cspec :=
  match x with
  | L [cid; k; a; b; c; scr; msl; mcl] =>
      do cid' <- d_nat cid; do k' <- d_nat k; do a' <- d_nat a; do b' <- d_nat b; do c' <- d_nat c;
      do scr' <- d_list d_triple scr; do msl' <- d_nats msl; do mcl' <- d_nats mcl;
      Some (mkSpec cid' k' a' b' c' scr' msl' mcl')
  | _ => None
  end.

(* ------------------------------------------------------------------ encoding *)
Definition enc_res (r : cres) : sx :=
  match r with RVal v => L [N 0; N v] | RExn k => L [N 1; N k] end.

Definition lock_id (x : ctx) : option nat := match x with CLock l => Some l | CIdent => None end.

Definition e_lev (e : lev (R:=cres) (I:=citem)) : list sx :=
  match e with
  | EvAcq t (CLock (S l)) => [L [N 0; N t; N (S l)]]
  | EvRel t (CLock (S l)) => [L [N 1; N t; N (S l)]]
  | EvBlocked t (CLock l) => [L [N 3; N t; N l]]
  | EvRefuse t (CLock l) => [L [N 5; N t; N l]]
  | EvSeg t c its => map (fun it : citem => L [N 2; N t; N (fst it); N (fst (snd it)); N (fst (snd (snd it))); N (snd (snd (snd it)))]) its
  | EvRet t c r => [L [N 4; N t; N (c_id c); enc_res r]]
  | _ => []
  end.

Definition e_final (mach : list nat) (ms : cms) : sx :=
  L [e_list (e_pair e_nat e_nat) (m_models ms); e_list e_nat (m_reg ms); e_list e_nat (m_states ms);
     e_list (fun t : nat * (nat * nat) => L [N (fst t); N (fst (snd t)); N (snd (snd t))]) (m_trans ms);
     e_list (fun e : nat * list nat => L [N (fst e); e_list e_nat (mach ++ [99] ++ snd e)]) (m_cmap ms)].

Fixpoint sx_eqb (a b : sx) : bool :=
  match a, b with
  | N x, N y => Nat.eqb x y
  | L l, L m =>
      (fix go (l : list sx) (m : list sx) : bool :=
         match l, m with
         | [], [] => true
         | x :: l', y :: m' => sx_eqb x y && go l' m'
         | _, _ => false
         end) l m
  | _, _ => false
  end.

Definition e_done (d : list (cres * list citem)) : sx :=
  e_list (fun p : cres * list citem =>
            L [enc_res (fst p); e_list (fun it : citem => L [N (fst it); N (fst (snd it)); N (fst (snd (snd it))); N (snd (snd (snd it)))]) (snd p)]) d.

Definition run_lock_case (x : sx) : sx :=
  match x with
  | L [mode; cfgx; mx; callsx; progsx; schedx; failsx] =>
      match d_nat mode, d_cfg cfgx, d_machine mx, d_list d_spec callsx, d_list d_nats progsx, d_nats schedx,
            d_list d_triple failsx with
      | Some mode', Some cfg, Some ms0, Some tab, Some progs, Some sched, Some fails =>
          let n := length progs in
          let prog_of := fun t =>
            match t with
            | 0 => []
            | S i => flat_map (fun cid => match find_spec tab cid with
                                          | Some s => [call_of_spec s] | None => [] end)
                              (nth i progs [])
            end in
          let g0 : cgstate := init prog_of ms0 in
          match mode' with
          | 0 =>
              let g := macro_run tab fails cfg sched g0 in
              let alldone := forallb (fun t => thread_done (g_th g t)) (seq 1 n) in
              let serial :=
                if alldone then
                  match serial_run (c_start tab) (c_resume tab) c_ret 200 (map snd (g_acq g)) ms0 with
                  | Some (msf, l) =>
                      if sx_eqb (e_final [] msf) (e_final [] (g_ms g)) &&
                         sx_eqb (e_done l) (e_done (map (fun d => (d_res d, d_items d)) (g_done g)))
                      then 1 else 0
                  | None => 0
                  end
                else 2 in
              L [N 1; L [L (flat_map e_lev (g_log g)); e_final (cfg_machine cfg) (g_ms g); e_bool alldone; N serial; e_bool (g_bad g)]]
          | _ =>
              let budget := match sched with b :: _ => b | [] => 100 end in
              L [N 2; e_list (e_list e_nat) (fst (enum tab fails cfg 200 n g0 [] budget))]
          end
      | _, _, _, _, _, _, _ => L [N 0]
      end
  | _ => L [N 0]
  end.
