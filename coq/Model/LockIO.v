(* LockIO.v — stub: replaced by the real decoder/runner when the property is built. *)
From Coq Require Import List.
From M Require Import Sx.
Import ListNotations.
Definition run_lock_case (x : sx) : sx := L [N 0].
