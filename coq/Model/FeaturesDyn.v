(* FeaturesDyn.v — histories that change the machine's transitions while it runs:
   Machine.add_transition (appends to the event's list for the source) and
   Machine.remove_transition(trigger, source=s) (drops every transition of that event from
   that source; an event without transitions disappears).  The mixins keep no copy of the
   transition table: Error.enter asks machine.get_triggers on EVERY entry, so each call is
   the step function of Features.v / FeaturesH.v over the table current at that call.
   Definitions only. *)
From Coq Require Import List Arith Bool.
From M Require Import Features FeaturesSpec FeaturesH.
Import ListNotations.

Inductive fop : Type :=
| OTrig (m : fmodel) (e : fevent)
| OAdd (t : ftrans)
| ORemove (e : fevent) (s : fstate_id).

Definition with_trans (c : fcfg) (ts : list ftrans) : fcfg :=
  mkCfg (c_order c) (c_states c) ts (c_ignore c).

Definition apply_op (ts : list ftrans) (op : fop) : list ftrans :=
  match op with
  | OTrig _ _ => ts
  | OAdd t => ts ++ [t]
  | ORemove e s => filter (fun t => negb (Nat.eqb (ft_event t) e && Nat.eqb (ft_src t) s)) ts
  end.

Definition dstep (c : fcfg) (ts : list ftrans) (w : world) (op : fop) : list fitem * world * fres :=
  match op with
  | OTrig m e => fstep (with_trans c ts) w m e
  | _ => ([], w, RTrue)
  end.

(* observations of a dynamic history; [ts] = the table before the first operation *)
Fixpoint drun (c : fcfg) (ts : list ftrans) (w : world) (h : list fop) : list (list fitem * world * fres) :=
  match h with
  | [] => []
  | op :: rest => let o := dstep c ts w op in o :: drun c (apply_op ts op) (snd (fst o)) rest
  end.

Definition sdstep (c : fcfg) (ts : list ftrans) (sw : sworld) (op : fop) : list fitem * sworld * fres :=
  match op with
  | OTrig m e => spec_step (with_trans c ts) sw m e
  | _ => ([], sw, RTrue)
  end.
Fixpoint spec_drun (c : fcfg) (ts : list ftrans) (sw : sworld) (h : list fop) : list (list fitem * sworld * fres) :=
  match h with
  | [] => []
  | op :: rest => let o := sdstep c ts sw op in o :: spec_drun c (apply_op ts op) (snd (fst o)) rest
  end.

(* the same on state trees *)
Definition hwith_trans (hc : hcfg) (ts : list ftrans) : hcfg :=
  mkH (with_trans (h_cfg hc) ts) (h_paths hc) (h_init hc).
Definition hdstep (hc : hcfg) (ts : list ftrans) (w : world) (op : fop) : list fitem * world * fres :=
  match op with
  | OTrig m e => hstep (hwith_trans hc ts) w m e
  | _ => ([], w, RTrue)
  end.
Fixpoint hdrun (hc : hcfg) (ts : list ftrans) (w : world) (h : list fop) : list (list fitem * world * fres) :=
  match h with
  | [] => []
  | op :: rest => let o := hdstep hc ts w op in o :: hdrun hc (apply_op ts op) (snd (fst o)) rest
  end.

(* result and state of the acting model: what the Error contract speaks about *)
Definition obs_rs (m : fmodel) (o : list fitem * world * fres) : fres * fstate_id :=
  (obs_res o, m_state (w_m (obs_world o) m)).
Definition sobs_rs (m : fmodel) (o : list fitem * sworld * fres) : fres * fstate_id :=
  (sobs_res o, sp_state (sw_m (sobs_world o) m)).

Definition only_triggers (h : list (fmodel * fevent)) : list fop := map (fun p => OTrig (fst p) (snd p)) h.
