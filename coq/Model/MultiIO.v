(* MultiIO.v — decoding of C10 cases / encoding of observations for Multi.v. *)
From Coq Require Import List Arith Bool.
From M Require Import Sx Base Flat FlatIO Multi QueueIO.
From M Require Hsm HsmIO FeaturesIO.
Import ListNotations.

Definition d_class (x : sx) : option mclass :=
  match x with
  | L [lk; gr; hs; asy; N q] =>
      do lk' <- d_bool lk; do gr' <- d_bool gr; do hs' <- d_bool hs; do asy' <- d_bool asy;
      Some (mkClass lk' gr' hs' asy' (match q with 0 => QNo | 1 => QYes | _ => QModel end))
  | _ => None
  end.

Definition d_op (x : sx) : option op :=
  match x with
  | L [N 0; N m; ini] => do i <- d_option d_nat ini; Some (OAddModel m i)
  | L [N 6; ms; ini] => do ms' <- d_list d_nat ms; do i <- d_option d_nat ini; Some (OAddModels ms' i)
  | L [N 1; N m] => Some (ORemoveModel m)
  | L [N 2; N s; sd] => do sd' <- d_sdef sd; Some (OAddState s sd')
  | L [N 3; N e; t] => do t' <- d_trans t; Some (OAddTransition e t')
  | L [N 4; N m; bn; N e; N a] => do bn' <- d_bool bn; Some (OTrigger m bn' e a)
  | L [N 5; N e; N a] => Some (ODispatch e a)
  | L [N 7] => Some OCopy
  | L [N 8; N e; sx1; dx1] => do s' <- d_option d_nat sx1; do d' <- d_option d_nat dx1; Some (ORemoveTransition e s' d')
  | _ => None
  end.

Definition e_helper (h : helper) : sx :=
  match h with
  | HTrig => L [N 0] | HMayTrig => L [N 1] | HEv e => L [N 2; N e] | HMay e => L [N 3; N e]
  | HIs s => L [N 4; N s] | HTo => L [N 5] | HGraph => L [N 6]
  end.

Definition e_cres (r : cres) : sx :=
  match r with
  | inl e => L [N 1; e_exn e]
  | inr None => L [N 0; N 2]
  | inr (Some b) => L [N 0; e_bool b]
  end.

Definition e_block (b : block) : sx :=
  L [N (b_model b); e_list e_item (b_items b); e_result (b_res b)].

Definition e_world (n : nat) (w : mworld) : sx :=
  L [e_list e_nat (w_models w);
     e_list (fun m => L [e_option e_nat (o_state (w_obj w m)); e_list e_helper (o_helpers (w_obj w m))]) (seq 0 n);
     e_list e_nat (w_ctx w); e_list e_nat (w_graphs w); e_list e_nat (w_queues w)].

Fixpoint run_mhistory (k : mclass) (ev : env) (n : nat) (hs : list op) (w : mworld) : list sx :=
  match hs with
  | [] => []
  | o :: rest =>
      match step k ev w o with
      | (bs, r, w') => L [e_list e_block bs; e_cres r; e_world n w'] :: run_mhistory k ev n rest w'
      end
  end.

(* ---------------------------------------------------------------- two machines on one object *)
Definition d_desc (x : sx) : option (mdesc * list (event * state)) :=
  match x with
  | L [N a; sts; evs; au; N i] =>
      do sts' <- d_list d_nat sts; do evs' <- d_list (d_pair d_nat d_nat) evs; do au' <- d_bool au;
      Some (mkDesc a sts' (map fst evs') au' i, evs')
  | _ => None
  end.

Definition d_oattr (x : sx) : option (option attr) := d_option d_nat x.
Definition d_hname (x : sx) : option hname :=
  match x with
  | L [N 0] => Some NTrig | L [N 1] => Some NMayTrig
  | L [N 2; N e] => Some (NEv e) | L [N 3; N e] => Some (NMay e)
  | L [N 4; a; N s] => do a' <- d_oattr a; Some (NIs a' s)
  | L [N 5; a; N s] => do a' <- d_oattr a; Some (NTo a' s)
  | L [N 6; a; N s] => do a' <- d_oattr a; Some (NMayTo a' s)
  | _ => None
  end.
Definition e_hname (n : hname) : sx :=
  match n with
  | NTrig => L [N 0] | NMayTrig => L [N 1] | NEv e => L [N 2; N e] | NMay e => L [N 3; N e]
  | NIs a s => L [N 4; e_option e_nat a; N s] | NTo a s => L [N 5; e_option e_nat a; N s]
  | NMayTo a s => L [N 6; e_option e_nat a; N s]
  end.

(* the concrete machines of the harness: event e goes to its destination from every state,
   to_<s> goes to s; is_/may_ calls change nothing *)
Definition act_of (ev0 ev1 : list (event * state)) (who : nat) (n : hname) (s : state) : state :=
  match n with
  | NTo _ t => t
  | NEv e => match lookup (if Nat.eqb who 0 then ev0 else ev1) e with Some t => t | None => s end
  | _ => s
  end.

(* value returned by the call (before the state change): is_<s> compares the OWNER's attribute *)
Definition call_value (d0 d1 : mdesc) (o : sobj) (n : hname) : bool :=
  match n, owner_of (so_tbl o) n with
  | NIs _ s, Some who =>
      match attr_of o (d_attr (if Nat.eqb who 0 then d0 else d1)) with
      | Some cur => Nat.eqb cur s
      | None => false
      end
  | _, _ => true
  end.

Fixpoint run_calls (d0 d1 : mdesc) (ev0 ev1 : list (event * state)) (o : sobj) (cs : list hname) : list sx :=
  match cs with
  | [] => []
  | n :: rest =>
      match call_name d0 d1 (act_of ev0 ev1) o n with
      | None => L [N 0] :: run_calls d0 d1 ev0 ev1 o rest
      | Some o' =>
          L [N 1; e_bool (call_value d0 d1 o n); e_list (e_pair e_nat e_nat) (so_attrs o')]
          :: run_calls d0 d1 ev0 ev1 o' rest
      end
  end.

(* GraphMachine.__init__ ends with: if not hasattr(self, "get_graph"): self.get_graph = self.get_combined_graph.
   When one object of the universe is the machine itself it therefore owns that attribute from the start. *)
Definition graph_self (k : mclass) (w : mworld) (self : option model) : mworld :=
  match self with
  | Some m =>
      if k_graph k then
        set_objs w (upd_obj (w_obj w) m (mkObj (o_state (w_obj w m)) (add_helper (o_helpers (w_obj w m)) HGraph)))
      else w
  | None => w
  end.

(* case := [0; class; machine; initial; env; ctor models; ctor transitions; universe size; self; history]
         | [1; hsm; desc0; desc1; calls]
         | 2 :: <a C05 queue case: machine; env; models; history> *)
Definition run_multi_case (x : sx) : sx :=
  match x with
  | L [N 0; kx; mcx; N ini; evx; imx; itx; N n; selfx; hx] =>
      match d_class kx, d_machine mcx, d_env evx, d_list d_nat imx,
            d_list (d_pair d_nat d_trans) itx, d_list d_op hx, d_option d_nat selfx with
      | Some k, Some mc, Some ev, Some im, Some it, Some hs, Some self =>
          (* Machine.__init__: `if model: self.add_model(model)` — ONE call with the list; AsyncMachine.__init__
             adds the models one by one *)
          let ctor := if k_async k then map (fun m => OAddModel m None) im
                      else match im with [] => [] | _ => [OAddModels im None] end in
          let w1 := run k ev (init_world mc ini) ctor in
          let w0 := run k ev (graph_self k w1 self) (map (fun p => OAddTransition (fst p) (snd p)) it) in
          L [N 1; e_world n w0; L (run_mhistory k ev n hs w0)]
      | _, _, _, _, _, _, _ => L [N 0]
      end
  | L [N 3; mcx; dx; ax] =>
      (* own initial states on a hierarchical machine: after every add the configuration of every model *)
      match HsmIO.d_hmachine mcx, HsmIO.d_path dx, d_list (d_pair d_nat (d_option HsmIO.d_path)) ax with
      | Some hm, Some dflt, Some adds =>
          L [N 3; L (map (fun n => e_list (fun p => L [N (fst p); HsmIO.e_forest (snd p)])
                                   (own_run (Hsm.hm_states hm) dflt (firstn n adds) []))
                         (seq 1 (length adds)))]
      | _, _, _ => L [N 0]
      end
  | L (N 4 :: rest) => FeaturesIO.run_features_case (L rest)   (* state-feature mixins, several models: Features.v *)
  | L (N 2 :: rest) => run_queue_case (L rest)      (* queued machine, callbacks trigger / remove models: Queue.v *)
  | L [N 1; hx; d0x; d1x; cx] =>
      match d_bool hx, d_desc d0x, d_desc d1x, d_list d_hname cx with
      | Some hsm, Some (d0, ev0), Some (d1, ev1), Some cs =>
          let o := bind_two hsm d0 d1 in
          L [N 2;
             e_list (fun n => L [e_hname n; e_option e_nat (owner_of (so_tbl o) n)])
                    (desc_names hsm d0 ++ desc_names hsm d1);
             L (run_calls d0 d1 ev0 ev1 o cs)]
      | _, _, _, _ => L [N 0]
      end
  | _ => L [N 0]
  end.
