(* Dispatch.v — the single entry point of the extracted driver:
   dispatch k case = observation of model number k on the case.
   The kind numbers are fixed; each run_*_case lives in its own *IO.v file. *)
From Coq Require Import List Arith.
From M Require Import Sx FlatIO QueueIO MultiIO HsmIO NamingIO BuildIO MarkupIO DiagramIO FeaturesIO
  TimerIO LockIO AsyncIO AsyncConcIO PickleIO FactoryIO HsmQueueIO HBuildIO.
Import ListNotations.

Definition dispatch (k : nat) (x : sx) : sx :=
  match k with
  | 0 => run_flat_case x
  | 1 => run_queue_case x
  | 2 => run_multi_case x
  | 3 => run_hsm_case x
  | 4 => run_naming_case x
  | 5 => run_build_case x
  | 6 => run_markup_case x
  | 7 => run_diagram_case x
  | 8 => run_features_case x
  | 9 => run_timer_case x
  | 10 => run_lock_case x
  | 11 => run_async_case x
  | 12 => run_asyncconc_case x
  | 13 => run_pickle_case x
  | 14 => run_factory_case x
  | 15 => run_hsmq_case x
  | 17 => run_hbuild_case x
  | 19 => run_hreent_case x       (* 16, 17, 18: reserved for C11, C13, C07 *)
  | _ => L [N 0]
  end.
