(* Dispatch.v — the single entry point of the extracted driver:
   dispatch k case = observation of model number k on the case. *)
From Coq Require Import List Arith.
From M Require Import Sx FlatIO.
Import ListNotations.

Definition dispatch (k : nat) (x : sx) : sx :=
  match k with
  | 0 => run_flat_case x
  | _ => L [N 0]
  end.
