(* AsyncHsm.v — the hierarchical asynchronous machine of transitions/extensions/asyncio.py awaited
   one trigger at a time: NestedAsyncState.scoped_enter/scoped_exit, NestedAsyncTransition._change_state
   (exit partials awaited ONE BY ONE, then the model update, enter partials one by one, the on_final
   groups of _final_check one after another; the callbacks of ONE list gathered), AsyncTransition.execute
   (shared with the flat machine), NestedAsyncEvent.trigger_nested/_process,
   HierarchicalAsyncMachine._trigger_event/_trigger_event_nested/_can_trigger/_can_trigger_nested.
   These are hand copies of the synchronous functions of nesting.py, so the engine is written again,
   over the asynchronous monad, re-using only the PURE definitions of Hsm.v (configurations, resolve,
   final_check_root, cands, resolve_order, has_trigger) — exactly what the Python copies share with
   nesting.py (_resolve_transition, _final_check, build_state_tree, resolve_order are not copied).

   The first part is the asynchronous monad and the gather combinator of Async.v, polymorphic in the
   type of model states seen by callbacks (here: the active configuration).  Same asyncio ASSUMPTION as
   in Async.v (FIFO ready queue; one gathered stage runs in rounds).
   Like Hsm.v, the handler branch of _trigger_event answers False after an exception swallowed by
   on_exception handlers.  Definitions only. *)
From Coq Require Import List Arith Bool.
From M Require Import Base Flat Hsm Async.
Import ListNotations.

(* ------------------------------------------------------------------ polymorphic async monad *)
Section Poly.
  Context {St : Type}.

  Inductive gsev : Type :=
  | GStart (it : gitem St)
  | GEnd (sl : slot) (cb : cbid).
  Record gstage : Type := mkGStage { gs_kind : skind; gs_evs : list gsev }.

  Definition GAM (A : Type) := St -> (list gstage * St * (exn + A))%type.

  Definition gret {A} (a : A) : GAM A := fun s => ([], s, inr a).
  Definition graise {A} (e : exn) : GAM A := fun s => ([], s, inl e).
  Definition gbind {A B} (m : GAM A) (f : A -> GAM B) : GAM B :=
    fun s =>
      match m s with
      | (t1, s1, inl e) => (t1, s1, inl e)
      | (t1, s1, inr a) => match f a s1 with (t2, s2, r) => (t1 ++ t2, s2, r) end
      end.
  Definition gget : GAM St := fun s => ([], s, inr s).
  Definition gput (s' : St) : GAM unit := fun _ => ([], s', inr tt).
  Definition gtry_catch {A} (m : GAM A) (h : exn -> GAM A) : GAM A :=
    fun s =>
      match m s with
      | (t1, s1, inl e) => match h e s1 with (t2, s2, r) => (t1 ++ t2, s2, r) end
      | r => r
      end.
  Definition gtry_except_finally {A} (m : GAM A) (h : exn -> GAM A) (fin : option exn -> GAM unit) : GAM A :=
    fun s =>
      match m s with
      | (t1, s1, inl e) =>
          match h e s1 with
          | (t2, s2, r2) => match fin (Some e) s2 with (t3, s3, _) => (t1 ++ t2 ++ t3, s3, r2) end
          end
      | (t1, s1, inr a) => match fin None s1 with (t3, s3, _) => (t1 ++ t3, s3, inr a) end
      end.

  Variable rp : cbid -> reply.
  Variable susp : cbid -> nat.
  Variable c : ctx.

  Definition gmk_item (sl : slot) (err : option exn) (s : St) (cb : cbid) : gitem St :=
    mkGItem sl cb (c_model c) s (ctx_arg c) (if c_send c then err else None)
            (r_ret (rp cb)) (r_acts (rp cb)).

  Definition gend_in_round (k : nat) (x : slot * cbid) : list gsev :=
    if Nat.eqb (susp (snd x)) k && negb (raises rp (snd x)) then [GEnd (fst x) (snd x)] else [].
  Fixpoint ground0 (err : option exn) (s : St) (cbs : list (slot * cbid)) : list gsev :=
    match cbs with
    | [] => []
    | x :: r => GStart (gmk_item (fst x) err s (snd x)) :: gend_in_round 0 x ++ ground0 err s r
    end.
  Definition groundk (cbs : list (slot * cbid)) (k : nat) : list gsev := flat_map (gend_in_round k) cbs.
  Definition ggather_evs (err : option exn) (s : St) (cbs : list (slot * cbid)) : list gsev :=
    ground0 err s cbs ++ flat_map (groundk cbs) (seq 1 (max_susp susp cbs)).

  (* AsyncMachine.await_all *)
  Definition ggather (k : skind) (err : option exn) (cbs : list (slot * cbid)) : GAM unit :=
    fun s => ([mkGStage k (ggather_evs err s cbs)], s,
              match first_exn rp cbs with Some e => inl e | None => inr tt end).
  (* AsyncMachine.callbacks *)
  Definition gcallbacks (sl : slot) (err : option exn) (cbs : list cbid) : GAM unit :=
    ggather KCbs err (map (fun cb => (sl, cb)) cbs).
  (* AsyncTransition._eval_conditions *)
  Definition geval_conds (conds : list (cbid * bool)) : GAM bool :=
    gbind (ggather KChecks None (map check_slot conds)) (fun _ => gret (forallb (check_passes rp) conds)).
End Poly.
Arguments gsev : clear implicits.
Arguments gstage : clear implicits.
Arguments GAM : clear implicits.

Notation "x <~ m ;; k" := (gbind m (fun x => k))
  (at level 61, m at next level, right associativity).
Notation "m ~;; k" := (gbind m (fun _ => k))
  (at level 61, right associativity).

(* views *)
Definition gstarts {St} (evs : list (gsev St)) : list (gitem St) :=
  flat_map (fun e => match e with GStart it => [it] | GEnd _ _ => [] end) evs.
Definition gends {St} (evs : list (gsev St)) : list (slot * cbid) :=
  flat_map (fun e => match e with GStart _ => [] | GEnd sl cb => [(sl, cb)] end) evs.
Definition gcheck_failed {St} (it : gitem St) : bool :=
  match it_slot it with
  | SCond => negb (it_ret it)
  | SUnless => it_ret it
  | _ => false
  end.
Fixpoint gupto_first_failed {St} (l : list (gitem St)) : list (gitem St) :=
  match l with
  | [] => []
  | it :: r => if gcheck_failed it then [it] else it :: gupto_first_failed r
  end.
Definition gstage_view1 {St} (sg : gstage St) : list (gitem St) :=
  match gs_kind sg with
  | KCbs => gstarts (gs_evs sg)
  | KChecks => gupto_first_failed (gstarts (gs_evs sg))
  end.
(* stage_view of Async.v for any type of states seen *)
Definition gstage_view {St} (tr : list (gstage St)) : list (gitem St) := flat_map gstage_view1 tr.

(* ------------------------------------------------------------------ the hierarchical engine *)
Section HAEngine.
  Variable hm : hmachine.
  Variable rp : cbid -> reply.
  Variable susp : cbid -> nat.
  Variable c : ctx.

  Notation HA := (GAM forest).
  Notation callbacks := (gcallbacks (St:=forest) rp susp c).
  Notation eval_conds := (geval_conds (St:=forest) rp susp c).

  (* for func in exit_partials: await func()   — NestedAsyncState.scoped_exit -> exit -> callbacks *)
  Fixpoint harun_exits (ps : list path) : HA unit :=
    match ps with
    | [] => gret tt
    | p :: r =>
        match defs_at hm p with
        | Some d => callbacks SExit None (sd_exit d) ~;; harun_exits r
        | None => graise ValueError
        end
    end.
  (* for func in enter_partials: await func() *)
  Fixpoint harun_enters (ps : list path) : HA unit :=
    match ps with
    | [] => gret tt
    | p :: r =>
        match defs_at hm p with
        | Some d => callbacks SEnter None (sd_enter d) ~;; harun_enters r
        | None => graise ValueError
        end
    end.
  (* for on_final_cb in on_final_cbs: await on_final_cb() *)
  Fixpoint harun_onfinal (l : list (list cbid)) : HA unit :=
    match l with
    | [] => gret tt
    | cbs :: r => callbacks SOnFinal None cbs ~;; harun_onfinal r
    end.

  (* NestedAsyncTransition._change_state (with the shared _resolve_transition / _final_check) *)
  Definition hachange_state (sc : path) (dst : path) : HA unit :=
    match find_def (scope_children hm sc) dst with
    | None => graise ValueError
    | Some dd =>
        f <~ gget ;;
        match resolve f sc dst dd with
        | None => graise ValueError
        | Some r =>
            harun_exits (r_exits r) ~;;
            gput (r_new r) ~;;
            harun_enters (r_enters r) ~;;
            harun_onfinal (final_check_root hm (r_new r) (r_enters r))
        end
    end.

  (* AsyncTransition.execute with the nested _change_state *)
  Definition haexecute (sc : path) (t : htrans) : HA bool :=
    callbacks SPrepare None (ht_prepare t) ~;;
    ok <~ eval_conds (ht_conds t) ;;
    if ok then
      callbacks SBeforeSC None (hm_before_sc hm) ~;;
      callbacks SBefore None (ht_before t) ~;;
      match ht_dst t with Some d => hachange_state sc d | None => gret tt end ~;;
      callbacks SAfter None (ht_after t) ~;;
      callbacks SAfterSC None (hm_after_sc hm) ~;;
      gret true
    else gret false.

  (* the loop of NestedAsyncEvent._process *)
  Fixpoint hatry_transitions (sc : path) (ts : list htrans) : HA bool :=
    match ts with
    | [] => gret false
    | t :: r => ok <~ haexecute sc t ;; if ok then gret true else hatry_transitions sc r
    end.

  (* NestedAsyncEvent.trigger_nested: the loop over the resolve order computed once *)
  Fixpoint haoffer_loop_gen (attempt : path -> HA bool) (has_cands : path -> bool) (sc : path)
           (order : list path) (done : list path) (result : option bool) : HA (option bool * list offer) :=
    match order with
    | [] => gret (result, [])
    | p :: rest =>
        if orb (existsb (path_eqb p) done) (negb (has_cands p))
        then haoffer_loop_gen attempt has_cands sc rest done result
        else
          f <~ gget ;;
          if negb (active f (sc ++ p)) then haoffer_loop_gen attempt has_cands sc rest done result
          else
            ok <~ attempt p ;;
            r <~ (if ok then haoffer_loop_gen attempt has_cands sc rest (nonempty_prefixes p ++ done) (Some true)
                  else haoffer_loop_gen attempt has_cands sc rest done (match result with None => Some false | r => r end)) ;;
            gret (fst r, (p, f, ok) :: snd r)
    end.

  Definition haoffer_loop (sc : path) (ts : list htrans) (order : list path) (done : list path)
             (result : option bool) : HA (option bool * list offer) :=
    haoffer_loop_gen
      (fun p => callbacks SPrepareEvent None (hm_prepare_event hm) ~;; hatry_transitions sc (cands ts p))
      (fun p => match cands ts p with [] => false | _ => true end)
      sc order done result.

  Definition hatrigger_nested (sc : path) (ts : list htrans) (key : nat) : HA (option bool) :=
    f <~ gget ;;
    match sub f sc with
    | None => graise ValueError
    | Some cur =>
        let branch := match f_get cur key with Some ch => [Node key ch] | None => [] end in
        r <~ haoffer_loop sc ts (resolve_order branch) [] None ;; gret (fst r)
    end.

  (* HierarchicalAsyncMachine._trigger_event_nested *)
  Fixpoint hadispatch_t (e : event) (sc : path) (t : tree) : HA (option bool) :=
    match t with
    | Node key ch =>
        f <~ gget ;;
        if negb (active f (sc ++ [key])) then gret None
        else
          r1 <~ (match ch with
                 | [] => gret None
                 | _ =>
                     (fix go (l : list tree) (acc : option bool) : HA (option bool) :=
                        match l with
                        | [] => gret acc
                        | t' :: l' =>
                            r <~ hadispatch_t e (sc ++ [key]) t' ;;
                            go l' (match r with
                                   | None => acc
                                   | Some b => Some (orb b (match acc with Some a => a | None => false end))
                                   end)
                        end) ch None
                 end) ;;
          match r1 with
          | Some true => gret r1
          | _ =>
              match lookup (scope_events hm sc) e with
              | None => gret r1
              | Some ts =>
                  r2 <~ hatrigger_nested sc ts key ;;
                  gret (match r2 with None => r1 | Some b => Some b end)
              end
          end
    end.

  Fixpoint hadispatch_f (e : event) (sc : path) (l : list tree) (acc : option bool) : HA (option bool) :=
    match l with
    | [] => gret acc
    | t :: l' =>
        r <~ hadispatch_t e sc t ;;
        hadispatch_f e sc l' (match r with
                              | None => acc
                              | Some b => Some (orb b (match acc with Some a => a | None => false end))
                              end)
    end.

  (* _check_event_result (inherited, synchronous) *)
  Fixpoint hacheck_leaves (e : event) (ls : list path) : HA bool :=
    match ls with
    | [] => gret false
    | p :: r =>
        match defs_at hm p with
        | None => graise ValueError
        | Some d =>
            let ign := match sd_ignore d with Some b => b | None => hm_ignore hm end in
            if ign then hacheck_leaves e r
            else if has_trigger hm e then graise MachineError else graise AttributeError
        end
    end.

  (* HierarchicalAsyncMachine._trigger_event *)
  Definition hatrigger_event (e : event) : HA bool :=
    gtry_except_finally
      (f <~ gget ;;
       r <~ hadispatch_f e [] f None ;;
       match r with
       | Some b => gret b
       | None => f' <~ gget ;; hacheck_leaves e (leaves f')
       end)
      (fun x =>
         match hm_on_exception hm with
         | [] => graise x
         | hs => callbacks SOnException (Some x) hs ~;; gret false
         end)
      (fun err => callbacks SFinalize err (hm_finalize hm)).

  (* HierarchicalAsyncMachine._can_trigger / _can_trigger_nested *)
  Definition hacan_one (t : htrans) : HA bool :=
    gtry_catch
      (callbacks SPrepareEvent None (hm_prepare_event hm) ~;;
       callbacks SPrepare None (ht_prepare t) ~;;
       eval_conds (ht_conds t))
      (fun x =>
         match hm_on_exception hm with
         | [] => graise x
         | hs => callbacks SOnException (Some x) hs ~;; gret false
         end).

  Fixpoint hacan_cands (sc : path) (ts : list htrans) : HA bool :=
    match ts with
    | [] => gret false
    | t :: r =>
        if hdest_ok hm sc t then (ok <~ hacan_one t ;; if ok then gret true else hacan_cands sc r)
        else hacan_cands sc r
    end.

  Fixpoint hacan_sources (sc : path) (ts : list htrans) (srcs : list path) : HA bool :=
    match srcs with
    | [] => gret false
    | p :: r => ok <~ hacan_cands sc (cands ts p) ;; if ok then gret true else hacan_sources sc ts r
    end.

  Fixpoint hacan_nested (e : event) (sc : path) (p : path) : HA bool :=
    ok <~ (match lookup (scope_events hm sc) e with
           | Some ts => hacan_sources sc ts (rev (nonempty_prefixes p))
           | None => gret false
           end) ;;
    if ok then gret true
    else match p with
         | [] => gret false
         | n :: r => hacan_nested e (sc ++ [n]) r
         end.

  Fixpoint hacan_any (e : event) (ps : list path) : HA bool :=
    match ps with
    | [] => gret false
    | p :: r => ok <~ hacan_nested e [] p ;; if ok then gret true else hacan_any e r
    end.

  Definition hacan_trigger (e : event) : HA bool :=
    f <~ gget ;; hacan_any e (resolve_order f).
End HAEngine.
