(* Diagram.v — Mermaid diagram generation of GraphMachine / HierarchicalGraphMachine
   (transitions/extensions/diagrams.py, diagrams_base.py, diagrams_mermaid.py, markup.py)
   as a function from an abstract machine description + styling state to ABSTRACT LINES,
   the styling automaton of TransitionGraphSupport._change_state over histories, the
   region-of-interest selection, and regeneration on add_states/add_transition/
   remove_transition.  Definitions only.

   Names of states are paths of local identifiers ([name] = list nat; a flat machine has
   paths of length 1; the harness renders a path by joining the local texts with the
   separator '_').  Texts that are displayed (labels, triggers, condition names) are strings,
   represented as lists of character codes ([str]).

   Not modelled (constant text): the header (title, direction, classDef lines) and the
   indentation pass of Graph.get_graph.  The order of the edge lines (dict order of
   sources, then destinations) is abstracted: edges are grouped per (source, destination)
   in order of first occurrence; the correspondence check compares edge lines as a set. *)
From Coq Require Import List Arith Bool.
Import ListNotations.

Definition name := list nat.
Definition str := list nat.

Fixpoint nl_eqb (a b : list nat) : bool :=
  match a, b with
  | [], [] => true
  | x :: a', y :: b' => Nat.eqb x y && nl_eqb a' b'
  | _, _ => false
  end.
Definition mem (n : name) (l : list name) : bool := existsb (nl_eqb n) l.

(* ---------------------------------------------------------------- descriptions *)
(* the 'initial' entry of a state's markup: absent, a child name, or a list (= parallel) *)
Inductive sinit := NoInit | IniOne (i : nat) | IniPar.

(* one state of the markup: local id, its text, optional label attribute, final flag,
   on_enter / on_exit callback names, whether the markup has a 'children' key, initial, children *)
Inductive stree :=
  Node (id : nat) (text : str) (label : option str) (final : bool)
       (enter exit_ : list str) (comp : bool) (ini : sinit) (kids : list stree).

Definition s_id (s : stree) := match s with Node i _ _ _ _ _ _ _ _ => i end.
Definition s_text (s : stree) := match s with Node _ t _ _ _ _ _ _ _ => t end.
Definition s_label (s : stree) := match s with Node _ _ l _ _ _ _ _ _ => l end.
Definition s_final (s : stree) := match s with Node _ _ _ f _ _ _ _ _ => f end.
Definition s_enter (s : stree) := match s with Node _ _ _ _ e _ _ _ _ => e end.
Definition s_exit (s : stree) := match s with Node _ _ _ _ _ e _ _ _ => e end.
Definition s_comp (s : stree) := match s with Node _ _ _ _ _ _ c _ _ => c end.
Definition s_ini (s : stree) := match s with Node _ _ _ _ _ _ _ i _ => i end.
Definition s_kids (s : stree) := match s with Node _ _ _ _ _ _ _ _ k => k end.

(* a transition: trigger, optional label, source, destination (None = internal),
   conditions / unless with the (fixed) value each check returns *)
Record trans := mkT { t_trig : str; t_label : option str; t_src : name; t_dst : option name;
                      t_conds : list (str * bool); t_unless : list (str * bool) }.

(* o_enum: the states are Enum members (flat machines); machine.initial is then the member's
   name while the model state is the member itself *)
(* o_mauto: the machine's own option auto_transitions (to_<state> events exist) *)
Record opts := mkO { o_conds : bool; o_auto : bool; o_attrs : bool; o_nested : bool; o_enum : bool;
                     o_mauto : bool }.

(* m_acts: callbacks (by name) that fire a follow-up event on the model, `model.trigger(event)`, while the
   shared counter of the current top-level call (m_budget at its start) is positive; every other callback
   name is a no-op.  Machines are not queued, so the follow-up event is processed at once. *)
Record machine := mkM { m_states : list stree; m_trans : list trans; m_initial : name; m_opts : opts;
                        m_acts : list (str * str); m_budget : nat;
                        m_regen : list str (* callbacks that call model.get_graph(force_new=True) *);
                        (* transitions declared inside a nested state's definition: the declaring state (scope)
                           and the transition with names relative to that scope, as the markup lists them *)
                        m_scoped : list (name * trans) }.

(* ---------------------------------------------------------------- abstract lines *)
Inductive line :=
| Decl (n : name) (label : str)      (* state "label" as n *)
| Final (n : name)                   (* n --> [*] *)
| ClassOf (n : name) (style : nat)   (* Class n s_<style>: 0 default, 1 active, 2 previous *)
| Open (n : name)                    (* state n { *)
| Close                              (* } *)
| Sep                                (* -- *)
| Init (n : name)                    (* [*] --> n *)
| Edge (s d : name) (labels : list str). (* s --> d: l1 | l2 | ... *)

(* ---------------------------------------------------------------- strings *)
Fixpoint join {A} (sep : list A) (l : list (list A)) : list A :=
  match l with
  | [] => []
  | [x] => x
  | x :: r => x ++ sep ++ join sep r
  end.

(* " [internal]" *)
Definition s_internal : str := [32; 91; 105; 110; 116; 101; 114; 110; 97; 108; 93].
Definition s_amp : str := [32; 38; 32].          (* " & " *)
Definition s_open : str := [32; 91].             (* " [" *)
Definition s_close : str := [93].                (* "]" *)
Definition s_bang : str := [33].                 (* "!" *)
Definition s_to : str := [116; 111; 95].         (* "to_" *)
Definition s_sep : str := [95].                  (* "_" *)
(* "\n- enter:\n  + "  with a literal backslash followed by n (raw strings in the source) *)
Definition s_enter_hd : str := [92; 110; 45; 32; 101; 110; 116; 101; 114; 58; 92; 110; 32; 32; 43; 32].
Definition s_exit_hd : str := [92; 110; 45; 32; 101; 120; 105; 116; 58; 92; 110; 32; 32; 43; 32].
Definition s_item : str := [92; 110; 32; 32; 43; 32]. (* "\n  + " *)

(* BaseGraph._transition_label *)
Definition tlabel (o : opts) (t : trans) : str :=
  let base := match t_label t with Some l => l | None => t_trig t end in
  let base := match t_dst t with None => base ++ s_internal | Some _ => base end in
  if o_conds o && negb (match t_conds t, t_unless t with [], [] => true | _, _ => false end)
  then base ++ s_open ++ join s_amp (map fst (t_conds t) ++ map (fun u => s_bang ++ fst u) (t_unless t)) ++ s_close
  else base.

(* Graph._convert_state_attributes (Mermaid variant; tags and timeout are not covered) *)
Definition disp (o : opts) (s : stree) : str :=
  let l := match s_label s with Some l => l | None => s_text s end in
  if o_attrs o then
    l ++ (match s_enter s with [] => [] | e => s_enter_hd ++ join s_item e end)
      ++ (match s_exit s with [] => [] | e => s_exit_hd ++ join s_item e end)
  else l.

(* ---------------------------------------------------------------- nodes *)
(* Graph._add_nodes (flat machines): no recursion, every state gets a Class line *)
Definition fnode (o : opts) (sty : name -> nat) (s : stree) : list line :=
  let nm := [s_id s] in
  Decl nm (disp o s) :: (if s_final s then [Final nm] else []) ++ [ClassOf nm (sty nm)].

(* NestedGraph._add_nested_nodes; the [default_style] argument of the source is dead for
   Mermaid output (a Class line is only written for an empty prefix, where it is "default") *)
Fixpoint rnode (o : opts) (sty : name -> nat) (pfx : name) (s : stree) : list line :=
  match s with
  | Node i tx lb fin en ex comp ini kids =>
      let nm := pfx ++ [i] in
      Decl nm (disp o s)
      :: (if fin then [Final nm] else [])
      ++ (match pfx with [] => [ClassOf nm (sty nm)] | _ => [] end)
      ++ (if comp
          then Open nm
               :: (match ini with
                   | IniPar => join [Sep] (map (rnode o sty nm) kids)
                   | IniOne j => Init (nm ++ [j]) :: flat_map (rnode o sty nm) kids
                   | NoInit => flat_map (rnode o sty nm) kids
                   end)
               ++ [Close]
          else [])
  end.

Definition nodes (o : opts) (sty : name -> nat) (forest : list stree) : list line :=
  if o_nested o then flat_map (rnode o sty []) forest else flat_map (fnode o sty) forest.

(* ---------------------------------------------------------------- elements *)
(* every (prefix, state) of a forest in pre-order (children only where the markup has a
   'children' key) *)
Fixpoint subtrees (pfx : name) (s : stree) : list (name * stree) :=
  match s with
  | Node i _ _ _ _ _ comp _ kids =>
      (pfx, s) :: (if comp then flat_map (subtrees (pfx ++ [i])) kids else [])
  end.
Definition all_subtrees (forest : list stree) : list (name * stree) := flat_map (subtrees []) forest.
Definition node_name (p : name * stree) : name := fst p ++ [s_id (snd p)].
Definition all_names (forest : list stree) : list name := map node_name (all_subtrees forest).

(* the text of a full name: local texts joined with the separator *)
Fixpoint texts (pfx : str) (top : bool) (s : stree) : list (name * str) :=
  match s with
  | Node i tx _ _ _ _ _ _ kids =>
      let t := if top then tx else pfx ++ s_sep ++ tx in
      ([i], t) :: map (fun p => (i :: fst p, snd p)) (flat_map (texts t false) kids)
  end.
Definition all_texts (forest : list stree) : list (name * str) := flat_map (texts [] true) forest.

(* the pseudo transitions BaseGraph._get_elements adds for every state whose 'initial' is
   not a list: trigger "", source = the state, dest = its initial child *)
Definition ini_trans (forest : list stree) : list trans :=
  flat_map (fun p => match s_ini (snd p) with
                     | IniOne j => [mkT [] None (node_name p) (Some (node_name p ++ [j])) [] []]
                     | _ => []
                     end) (all_subtrees forest).

(* auto transitions: to_<full name> from every top-level state to every state *)
Definition auto_trans (forest : list stree) : list trans :=
  flat_map (fun d => map (fun s => mkT (s_to ++ snd d) None [s_id s] (Some (fst d)) [] []) forest)
           (all_texts forest).

(* transitions of the markup as the graph sees them *)
Definition shown (m : machine) : list trans :=
  (if o_auto (m_opts m) && o_mauto (m_opts m) then auto_trans (m_states m) else []) ++ m_trans m.
(* BaseGraph._get_elements: a transition found in the scope of a nested state gets the scope's path in front
   of its source and - unless it is internal - of its destination *)
Definition prefix_trans (p : name) (t : trans) : trans :=
  mkT (t_trig t) (t_label t) (p ++ t_src t) (match t_dst t with Some d => Some (p ++ d) | None => None end)
      (t_conds t) (t_unless t).
Definition scoped_abs (m : machine) : list trans := map (fun x => prefix_trans (fst x) (snd x)) (m_scoped m).
Definition elements (m : machine) : list trans := shown m ++ ini_trans (m_states m) ++ scoped_abs m.

(* ---------------------------------------------------------------- edges *)
Definition dst_of (t : trans) : name := match t_dst t with Some d => d | None => t_src t end.

Definition egroup := (name * name * list str)%type.
Fixpoint add_label (s d : name) (l : str) (es : list egroup) : list egroup :=
  match es with
  | [] => [(s, d, [l])]
  | (s', d', ls) :: r =>
      if nl_eqb s s' && nl_eqb d d' then (s', d', ls ++ [l]) :: r
      else (s', d', ls) :: add_label s d l r
  end.
Definition group (o : opts) (ts : list trans) : list egroup :=
  fold_left (fun es t => add_label (t_src t) (dst_of t) (tlabel o t) es) ts [].

(* NestedGraph._add_edges skips an edge whose joined label is empty, i.e. whose only label
   is the empty string; Graph._add_edges writes every edge *)
Definition empty_label (ls : list str) : bool := match ls with [[]] => true | _ => false end.
Definition edges (o : opts) (ts : list trans) : list line :=
  flat_map (fun g => match g with (s, d, ls) =>
                       if o_nested o && empty_label ls then [] else [Edge s d ls] end)
           (group o ts).

(* ---------------------------------------------------------------- styling state *)
(* custom_styles: node styles (later writes first) and the edges styled 'previous' *)
Record styles := mkS { st_nodes : list (name * nat); st_edges : list (name * name) }.
Definition no_styles : styles := mkS [] [].
Fixpoint nstyle (l : list (name * nat)) (n : name) : nat :=
  match l with
  | [] => 0
  | (k, v) :: r => if nl_eqb n k then v else nstyle r n
  end.
Definition set_nodes (ns : list name) (v : nat) (l : list (name * nat)) : list (name * nat) :=
  fold_left (fun acc n => (n, v) :: acc) ns l.
Definition estyled (st : styles) (s d : name) : bool :=
  existsb (fun e => nl_eqb s (fst e) && nl_eqb d (snd e)) (st_edges st).

(* a fresh graph object: reset_styling, then set_node_style(model.state, "active") *)
Definition fresh_styles (cur : list name) : styles := mkS (set_nodes cur 1 []) [].
(* TransitionGraphSupport._change_state: reset_styling; set_previous_transition(src, dst)
   (edge + node src = previous); the state change; set_node_style(new state, "active") *)
Definition change_styles (src dst : name) (newcur : list name) : styles :=
  mkS (set_nodes newcur 1 [(src, 2)]) [(src, dst)].

(* ---------------------------------------------------------------- the graph *)
Definition render_full (m : machine) (st : styles) : list line :=
  nodes (m_opts m) (nstyle (st_nodes st)) (m_states m)
  ++ edges (m_opts m) (elements m)
  ++ [Init (m_initial m)].

(* diagrams_graphviz.filter_states *)
Fixpoint fstate (names : list name) (pfx : name) (s : stree) : list stree :=
  match s with
  | Node i tx lb fin en ex comp ini kids =>
      let nm := pfx ++ [i] in
      if comp
      then let ks := flat_map (fstate names nm) kids in
           if negb (match ks with [] => true | _ => false end) || mem nm names
           then [Node i tx lb fin en ex comp ini ks] else []
      else if mem nm names then [s] else []
  end.
Definition filter_states (names : list name) (forest : list stree) : list stree :=
  flat_map (fstate names []) forest.

(* proper non-empty prefixes of a path, longest first *)
Fixpoint prefixes (n : name) : list name :=
  match n with
  | [] => []
  | i :: r => map (cons i) (prefixes r) ++ (match r with [] => [] | _ => [[i]] end)
  end.

Definition roi_active (cur : list name) : list name := flat_map (fun n => n :: prefixes n) cur.

(* the list comprehension over the transitions: kept when the source is active or the edge
   source -> dest (source -> source for an internal transition) is styled *)
Definition roi_keep (act : list name) (st : styles) (t : trans) : bool :=
  mem (t_src t) act || estyled st (t_src t) (dst_of t).
Definition roi_trans (act : list name) (st : styles) (ts : list trans) : list trans :=
  filter (roi_keep act st) ts.

Definition roi_names (act : list name) (st : styles) (ts : list trans) : list name :=
  act ++ flat_map (fun t => [t_src t; dst_of t]) ts ++ map fst (st_nodes st).

Definition render_roi (m : machine) (st : styles) (cur : list name) : list line :=
  let act := roi_active cur in
  let ts := roi_trans act st (elements m) in
  let names := roi_names act st ts in
  nodes (m_opts m) (nstyle (st_nodes st)) (filter_states names (m_states m))
  ++ edges (m_opts m) ts
  ++ (match cur with
      | [c] => (* roi_state == machine.initial: never equal for Enum states (member vs name) *)
               if nl_eqb c (m_initial m) && negb (o_enum (m_opts m)) then [Init (m_initial m)] else []
      | _ => []
      end).

(* ---------------------------------------------------------------- the engine *)
(* leaf paths (relative, starting with the state's id) reached by entering a state *)
Fixpoint descend (s : stree) : list name :=
  match s with
  | Node i _ _ _ _ _ _ ini kids =>
      match ini with
      | NoInit => [[i]]
      | IniOne j =>
          (fix go (l : list stree) : list name :=
             match l with
             | [] => [[i]]
             | k :: r => if Nat.eqb (s_id k) j then map (cons i) (descend k) else go r
             end) kids
      | IniPar => match kids with
                  | [] => [[i]]
                  | _ => map (cons i) (flat_map descend kids)
                  end
      end
  end.

Fixpoint find_node (forest : list stree) (d : name) : option stree :=
  match d with
  | [] => None
  | i :: r =>
      match find (fun s => Nat.eqb (s_id s) i) forest with
      | None => None
      | Some s => match r with [] => Some s | _ => find_node (s_kids s) r end
      end
  end.

Definition enter (forest : list stree) (d : name) : list name :=
  match find_node forest d with
  | Some s => map (app (removelast d)) (descend s)
  | None => [d]
  end.

Definition conds_ok (t : trans) : bool :=
  forallb (fun c => snd c) (t_conds t) && forallb (fun c => negb (snd c)) (t_unless t).

(* the transitions the machine holds: user transitions and the auto transitions *)
(* the transitions the machine holds, with absolute names, each with the depth of its declaring scope: a
   transition object keeps the names it was declared with (relative to its scope), and those are the names
   TransitionGraphSupport._change_state passes to set_previous_transition.  Events declared in a scope are
   assumed to be declared nowhere else (no mixed-scope precedence, DESIGN D18). *)
Definition held (m : machine) : list (trans * nat) :=
  map (fun t => (t, 0)) ((if o_mauto (m_opts m) then auto_trans (m_states m) else []) ++ m_trans m)
  ++ map (fun x => (prefix_trans (fst x) (snd x), length (fst x))) (m_scoped m).

(* first transition of the event whose checks pass, looked up for the active leaf first and
   then for each of its ancestors (NestedEvent.trigger_nested on a single active branch;
   for a flat machine the path has length 1) *)
Definition pick_at (ts : list (trans * nat)) (e : str) (s : name) : option (trans * nat) :=
  find (fun x => nl_eqb (t_trig (fst x)) e && nl_eqb (t_src (fst x)) s && conds_ok (fst x)) ts.
Fixpoint pick_first (ts : list (trans * nat)) (e : str) (ss : list name) : option (trans * nat) :=
  match ss with
  | [] => None
  | s :: r => match pick_at ts e s with Some t => Some t | None => pick_first ts e r end
  end.
Definition pick (ts : list (trans * nat)) (e : str) (leaf : name) : option (trans * nat) :=
  pick_first ts e (leaf :: prefixes leaf).

(* ---------------------------------------------------------------- histories *)
Record dstate := mkD { d_m : machine; d_cur : list name; d_sty : styles;
                       d_last : option name (* source of the last executed state-changing transition, as declared *) }.

Inductive op :=
| Ev (e : str)                                   (* model.trigger(e) *)
| AddState (s : stree)                           (* machine.add_states(s) at top level *)
| AddStates (l : list stree)                     (* machine.add_states([s1, s2, ...]) in one call *)
| AddTrans (t : trans)                           (* machine.add_transition(...) *)
| RemTrans (e : str) (src dst : option name).    (* machine.remove_transition(e, src or '*', dst or '*') *)

Definition init_state (m : machine) : dstate :=
  let cur := enter (m_states m) (m_initial m) in mkD m cur (fresh_styles cur) None.

Definition with_states (m : machine) (f : list stree) : machine :=
  mkM f (m_trans m) (m_initial m) (m_opts m) (m_acts m) (m_budget m) (m_regen m) (m_scoped m).
Definition with_trans (m : machine) (ts : list trans) : machine :=
  mkM (m_states m) ts (m_initial m) (m_opts m) (m_acts m) (m_budget m) (m_regen m) (m_scoped m).

Definition opt_match (f : option name) (x : option name) : bool :=
  match f with
  | None => true
  | Some n => match x with Some y => nl_eqb n y | None => false end
  end.
Definition removed (e : str) (src dst : option name) (t : trans) : bool :=
  nl_eqb (t_trig t) e && opt_match src (Some (t_src t)) && opt_match dst (t_dst t).

Definition apply_op (m : machine) (o : op) : machine :=
  match o with
  | Ev _ => m
  | AddState s => with_states m (m_states m ++ [s])
  | AddStates l => with_states m (m_states m ++ l)
  | AddTrans t => with_trans m (m_trans m ++ [t])
  | RemTrans e s d => with_trans m (filter (fun t => negb (removed e s d t)) (m_trans m))
  end.

(* --- one event on an unqueued machine, with state callbacks that may fire follow-up events ---
   Transition.execute -> TransitionGraphSupport._change_state:
     reset_styling; set_previous_transition(source, dest);
     core _change_state: on_exit callbacks of the source state (model still in the source), set_state(dest),
                         on_enter callbacks of the destination state;
     set_node_style(model.state, "active")  -- the state the model has NOW.
   A callback listed in m_acts triggers its event from inside the callback (nested processing: the
   follow-up transition runs to completion before the outer one continues); a failing follow-up
   (unknown / invalid event) is swallowed by the callback.  Only the state callbacks of the transition's
   own source and destination are run: acting callbacks are in the envelope for machines whose states are
   all simple (no nesting), of either machine class.  [fuel] bounds the nesting depth and equals the
   shared counter at the top-level call, so it never runs out before the counter does. *)
Fixpoint act_of (acts : list (str * str)) (c : str) : option str :=
  match acts with
  | [] => None
  | (k, e) :: r => if nl_eqb c k then Some e else act_of r c
  end.

Definition cbs_of (forest : list stree) (n : name) (sel : stree -> list str) : list str :=
  match find_node forest n with Some s => sel s | None => [] end.

Definition caller := option (nat -> dstate -> str -> dstate * nat).

(* a callback in [regen] regenerates the model's graph from inside the callback: a fresh graph object,
   styled for the state the model is in at that moment *)
Fixpoint run_cbs (call : caller) (acts : list (str * str)) (regen : list str) (cs : list str)
                 (st : dstate * nat) : dstate * nat :=
  match cs with
  | [] => st
  | c :: r =>
      run_cbs call acts regen r
        (if mem c regen
         then (mkD (d_m (fst st)) (d_cur (fst st)) (fresh_styles (d_cur (fst st))) (d_last (fst st)), snd st)
         else match act_of acts c, call, snd st with
              | Some e, Some f, S b => f b (fst st) e
              | _, _, _ => st
              end)
  end.

Definition fire_body (call : caller) (budget : nat) (d : dstate) (e : str) : dstate * nat :=
  match d_cur d with
  | [leaf] =>
      match pick (held (d_m d)) e leaf with
      | Some (t, k) =>
          match t_dst t with
          | Some dst =>
              let m := d_m d in
              (* the names the transition was declared with *)
              let lsrc := skipn k (t_src t) in
              let ldst := skipn k dst in
              let d0 := mkD m (d_cur d) (mkS [(lsrc, 2)] [(lsrc, ldst)]) (Some lsrc) in
              let st1 := run_cbs call (m_acts m) (m_regen m) (cbs_of (m_states m) (t_src t) s_exit) (d0, budget) in
              let d1 := fst st1 in
              let d2 := mkD (d_m d1) (enter (m_states (d_m d1)) dst) (d_sty d1) (d_last d1) in
              let st3 := run_cbs call (m_acts m) (m_regen m) (cbs_of (m_states m) dst s_enter) (d2, snd st1) in
              let d3 := fst st3 in
              (mkD (d_m d3) (d_cur d3)
                   (mkS (set_nodes (d_cur d3) 1 (st_nodes (d_sty d3))) (st_edges (d_sty d3))) (d_last d3),
               snd st3)
          | None => (d, budget)
          end
      | None => (d, budget)
      end
  | _ => (d, budget)
  end.

Fixpoint fire (fuel : nat) (budget : nat) (d : dstate) (e : str) : dstate * nat :=
  fire_body (match fuel with 0 => None | S f => Some (fire f) end) budget d e.

Definition step (d : dstate) (o : op) : dstate :=
  match o with
  | Ev e => fst (fire (m_budget (d_m d)) (m_budget (d_m d)) d e)
  | _ => (* the overrides of GraphMachine regenerate every model's graph (force_new) *)
      mkD (apply_op (d_m d) o) (d_cur d) (fresh_styles (d_cur d)) (d_last d)
  end.

Definition run (m : machine) (ops : list op) : dstate := fold_left step ops (init_state m).

Definition view (d : dstate) : list line := render_full (d_m d) (d_sty d).
Definition view_roi (d : dstate) : list line := render_roi (d_m d) (d_sty d) (d_cur d).

(* ---------------------------------------------------------------- well-formedness, specification vocabulary *)
Fixpoint nodupb (l : list nat) : bool :=
  match l with
  | [] => true
  | x :: r => negb (existsb (Nat.eqb x) r) && nodupb r
  end.
(* sibling identifiers are unique, at every level *)
Fixpoint wf_ids (s : stree) : bool :=
  match s with
  | Node _ _ _ _ _ _ _ _ kids => nodupb (map s_id kids) && forallb wf_ids kids
  end.
Definition wf_forest (f : list stree) : bool := nodupb (map s_id f) && forallb wf_ids f.
(* a flat machine (Graph) has no compound states *)
Definition wf_kind (o : opts) (f : list stree) : bool := o_nested o || forallb (fun s => negb (s_comp s)) f.
(* a real transition has a non-empty trigger (and a non-empty label if it has one) *)
Definition wf_trans (t : trans) : bool :=
  negb (match t_trig t with [] => true | _ => false end)
  && match t_label t with Some [] => false | _ => true end.

(* projections of a list of lines *)
Definition decls (ls : list line) : list (name * str) :=
  flat_map (fun l => match l with Decl n lb => [(n, lb)] | _ => [] end) ls.
Definition finals (ls : list line) : list name :=
  flat_map (fun l => match l with Final n => [n] | _ => [] end) ls.
Definition inits (ls : list line) : list name :=
  flat_map (fun l => match l with Init n => [n] | _ => [] end) ls.
Definition classes (ls : list line) : list (name * nat) :=
  flat_map (fun l => match l with ClassOf n s => [(n, s)] | _ => [] end) ls.
Definition edge_lines (ls : list line) : list egroup :=
  flat_map (fun l => match l with Edge s d lb => [(s, d, lb)] | _ => [] end) ls.

(* block discipline: scanning the lines with a stack of open blocks, every declaration and
   every block opening sits inside exactly the blocks of its ancestors (innermost first),
   no block is closed that was not opened; the result is the stack at the end *)
Fixpoint names_eqb (a b : list name) : bool :=
  match a, b with
  | [], [] => true
  | x :: a', y :: b' => nl_eqb x y && names_eqb a' b'
  | _, _ => false
  end.
Fixpoint check_scopes (ls : list line) (stk : list name) : option (list name) :=
  match ls with
  | [] => Some stk
  | Decl n _ :: r => if names_eqb stk (prefixes n) then check_scopes r stk else None
  | Open n :: r => if names_eqb stk (prefixes n) then check_scopes r (n :: stk) else None
  | Close :: r => match stk with [] => None | _ :: s' => check_scopes r s' end
  | _ :: r => check_scopes r stk
  end.

(* no on_exit callback of any state fires a follow-up event or regenerates the graph *)
Definition cbcfg (m : machine) : list (str * str) * list str := (m_acts m, m_regen m).
Definition passive (cfg : list (str * str) * list str) (c : str) : bool :=
  negb (mem c (snd cfg)) && match act_of (fst cfg) c with None => true | Some _ => false end.
Fixpoint inert_tree (cfg : list (str * str) * list str) (s : stree) : bool :=
  match s with
  | Node _ _ _ _ _ ex _ _ kids => forallb (passive cfg) ex && forallb (inert_tree cfg) kids
  end.
Definition exit_inert (m : machine) : bool := forallb (inert_tree (cbcfg m)) (m_states m).
Definition op_inert (cfg : list (str * str) * list str) (o : op) : bool :=
  match o with AddState s => inert_tree cfg s | AddStates l => forallb (inert_tree cfg) l | _ => true end.

(* labels of all transitions from s to d, in order *)
Definition labels_for (o : opts) (ts : list trans) (s d : name) : list str :=
  map (tlabel o) (filter (fun t => nl_eqb (t_src t) s && nl_eqb (dst_of t) d) ts).
