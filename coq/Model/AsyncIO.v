(* AsyncIO.v — decoding of C07 cases and encoding of observations for the flat asynchronous
   engine (Async.v); hierarchical cases (tag 1) are passed to the synchronous hierarchical
   model (HsmIO), against which HierarchicalAsyncMachine is compared up to stage_view. *)
From Coq Require Import List Arith Bool.
From M Require Import Sx Base Flat FlatSpec FlatIO Hsm HsmIO Async AsyncHsm.
Import ListNotations.

(* finite function keyed by (payload, callback), then by callback, then a default *)
Fixpoint assoc2 {A} (l : list ((nat * nat) * A)) (p cb : nat) : option A :=
  match l with
  | [] => None
  | ((p', cb'), v) :: r => if Nat.eqb p p' && Nat.eqb cb cb' then Some v else assoc2 r p cb
  end.

(* aenv := [default_ret; [[[payload; cb]; reply] ...]; [[cb; reply] ...]]; the nat argument of the
   resulting env is the PAYLOAD of the event the callback serves *)
Definition d_aenv (x : sx) : option env :=
  match x with
  | L [dflt; bykey; bycb] =>
      do d <- d_bool dflt;
      do bk <- d_list (d_pair (d_pair d_nat d_nat) d_reply) bykey;
      do bc <- d_list (d_pair d_nat d_reply) bycb;
      Some (fun cb p =>
              match assoc2 bk p cb with
              | Some r => r
              | None => match assoc_nat bc cb with
                        | Some r => r
                        | None => mkReply d None []
                        end
              end)
  | _ => None
  end.

(* susp := [[[[payload; cb]; k] ...]; [[cb; k] ...]]   (default 0) *)
Definition d_susp (x : sx) : option (cbid -> nat -> nat) :=
  match x with
  | L [bykey; bycb] =>
      do bk <- d_list (d_pair (d_pair d_nat d_nat) d_nat) bykey;
      do bc <- d_list (d_pair d_nat d_nat) bycb;
      Some (fun cb p =>
              match assoc2 bk p cb with
              | Some k => k
              | None => match assoc_nat bc cb with Some k => k | None => 0 end
              end)
  | _ => None
  end.

Definition d_qmode (x : sx) : option qmode :=
  match x with N 0 => Some QOff | N 1 => Some QAll | N 2 => Some QPerModel | _ => None end.

Definition e_sev (e : sev) : sx :=
  match e with
  | SStart it => L (N 0 :: match e_item it with L l => l | x => [x] end)
  | SEnd sl cb => L [N 1; e_slot sl; N cb]
  end.
Definition e_aresult (r : aresult) : sx :=
  match r with
  | AwRet b => L [N 0; e_bool b]
  | AwExn e => L [N 1; e_exn e]
  end.

Definition all_evs (tr : list stage) : list sev := flat_map sg_evs tr.

(* block := [arrival id; model; event; payload; events (flat); stage_view; result] *)
Section Enc.
  Variable mc : machine.
  Variable ev : env.

  Definition e_ablock (b : ablock) : sx :=
    L [N (ae_id (ab_entry b)); N (ae_model (ab_entry b)); N (ae_event (ab_entry b));
       N (ae_payload (ab_entry b));
       e_list e_sev (all_evs (ab_trace b)); e_list e_item (stage_view (ab_trace b));
       e_aresult (ab_result b)].
End Enc.

Record acall := mkACall { ac_model : model; ac_kind : callkind; ac_event : event; ac_payload : nat }.
Definition d_acall (x : sx) : option acall :=
  match x with
  | L [N m; N 0; N e; N a] => Some (mkACall m KTrigger e a)
  | L [N m; N 1; N e; N a] => Some (mkACall m KMay e a)
  | L [N m; N 2; N e; N a] => Some (mkACall m KMethod e a)
  | _ => None
  end.

Definition e_states (w : aworld) : sx := e_list (e_pair e_nat e_nat) (aw_states w).

Section Run.
  Variable mc : machine.
  Variable ev : env.
  Variable suspf : cbid -> nat -> nat.
  Variable md : qmode.

  (* per top-level call: [blocks; result; model states; number of pending queue entries] *)
  Definition pending (w : aworld) : nat := fold_right (fun kq n => length (snd kq) + n) 0 (aw_queues w).

  Definition run_acall (fuel : nat) (w : aworld) (h : acall) : sx * aworld :=
    match ac_kind h with
    | KMay =>
        let c := mkCtx (ac_model h) (ac_payload h) (m_send_event mc) in
        let q := mkAE (aw_next w) (ac_model h) (ac_event h) (ac_payload h) in
        match acan_trigger mc (fun cb => ev cb (ac_payload h)) (fun cb => suspf cb (ac_payload h)) c
                           (ac_event h) (mstate_of w (ac_model h)) with
        | (tr, s', r) =>
            let w' := mkAW (set_mstate (aw_states w) (ac_model h) s') (aw_queues w) (S (aw_next w)) (aw_models w) in
            (L [L [e_ablock (mkAB q tr (aresult_of r))]; e_aresult (aresult_of r); e_states w'; N (pending w'); e_list e_nat (aw_models w')], w')
        end
    | k =>
        match k, lookup (m_events mc) (ac_event h) with
        | KMethod, None =>
            (* getattr(model, name) fails *)
            let w' := mkAW (aw_states w) (aw_queues w) (S (aw_next w)) (aw_models w) in
            (L [L []; e_aresult (AwExn AttributeError); e_states w'; N (pending w'); e_list e_nat (aw_models w')], w')
        | _, _ =>
            match atop_trigger mc ev suspf md fuel w (ac_model h) (ac_event h) (ac_payload h) with
            | None => (L [N 9], w)
            | Some (bs, r, w') => (L [e_list e_ablock bs; e_aresult r; e_states w'; N (pending w'); e_list e_nat (aw_models w')], w')
            end
        end
    end.

  Fixpoint run_ahistory (fuel : nat) (hs : list acall) (w : aworld) : list sx :=
    match hs with
    | [] => []
    | h :: rest => match run_acall fuel w h with (o, w') => o :: run_ahistory fuel rest w' end
    end.

  (* what the synchronous flat engine does on each top-level call when nothing is nested:
     used for the model-level comparison of unqueued / call-free cases *)
  Fixpoint run_sync_history (hs : list acall) (sts : list (model * state)) : list sx :=
    match hs with
    | [] => []
    | h :: rest =>
        let c := mkCtx (ac_model h) (ac_payload h) (m_send_event mc) in
        let s := match lookup sts (ac_model h) with Some s => s | None => 0 end in
        let e1 := fun cb (_ : nat) => ev cb (ac_payload h) in
        match run_one mc e1 (ac_model h) (mkCall (ac_kind h) (ac_event h) (ac_payload h)) 0 s with
        | (tr, s', r) =>
            L [e_list e_item tr; e_result r; N s'] :: run_sync_history rest (set_mstate sts (ac_model h) s')
        end
    end.
End Run.

(* ------------------------------------------------------------------ hierarchical cases *)
Definition e_gsev (e : gsev forest) : sx :=
  match e with
  | GStart it => L (N 0 :: match e_hitem it with L l => l | x => [x] end)
  | GEnd sl cb => L [N 1; e_slot sl; N cb]
  end.
Definition all_gevs (tr : list (gstage forest)) : list (gsev forest) := flat_map (@gs_evs forest) tr.

(* per call: [events (flat); stage_view; result; configuration] of the asynchronous hierarchical engine;
   replies and suspension counts are keyed by the payload of the call *)
Fixpoint harun_history (hm : hmachine) (ev : env) (suspf : cbid -> nat -> nat) (m : model)
                       (hs : list hcall) (s : forest) : list sx :=
  match hs with
  | [] => []
  | h :: rest =>
      let c := mkCtx m (h_payload h) (hm_send_event hm) in
      let rp := fun cb => ev cb (h_payload h) in
      let su := fun cb => suspf cb (h_payload h) in
      match (match h_kind h with
             | KMay => hacan_trigger hm rp su c (h_event h) s
             | _ => hatrigger_event hm rp su c (h_event h) s
             end) with
      | (tr, s', r) =>
          L [e_list e_gsev (all_gevs tr); e_list e_hitem (gstage_view tr); e_result r; e_forest s']
          :: harun_history hm ev suspf m rest s'
      end
  end.

(* flat case := [0; machine; aenv; susp; mode; models [(id, initial state)];
                 history [(model, kind, event, payload)]]
   hierarchical case := [1; case of kind 3; aenv; susp]: the observation of the synchronous hierarchical
   model on the case (replies by position/callback as in kind 3), followed by the observation of the
   asynchronous hierarchical model (replies and suspensions keyed by (payload, callback) / callback) *)
Definition run_async_case (x : sx) : sx :=
  match x with
  | L [N 0; mcx; evx; sux; mdx; msx; hx] =>
      match d_machine mcx, d_aenv evx, d_susp sux, d_qmode mdx,
            d_list (d_pair d_nat d_nat) msx, d_list d_acall hx with
      | Some mc, Some ev, Some su, Some md, Some ms, Some hs =>
          L [N 1; L (run_ahistory mc ev su md 200 hs (mkAW ms [] 0 (map fst ms))); L (run_sync_history mc ev hs ms)]
      | _, _, _, _, _, _ => L [N 0]
      end
  | L [N 1; L [mcx; evx0; N m; inix; hx]; evx; sux] =>
      match d_hmachine mcx, d_aenv evx, d_susp sux, d_path inix, d_list d_call hx with
      | Some hm, Some ev, Some su, Some ini, Some hs =>
          let f0 := initial_config hm ini in
          L [N 2; run_hsm_case (L [mcx; evx0; N m; inix; hx]); L (harun_history hm ev su m hs f0)]
      | _, _, _, _, _ => L [N 0]
      end
  | L [N 1; hx] => run_hsm_case hx
  | _ => L [N 0]
  end.
