(* Base.v — identifiers, observations (trace items), the environment that stands for
   all user callbacks, and the trace/exception/state monad in which every engine of
   the model is written.  Definitions only (proofs live in Proofs/). *)
From Coq Require Import List Arith Bool.
Import ListNotations.

Definition state := nat.
Definition event := nat.
Definition cbid := nat.
Definition model := nat.

(* Exception *types* (messages are never observed). *)
Inductive exn : Type :=
| MachineError | AttributeError | ValueError
| UserExn (n : nat)      (* a subclass of Exception raised by a user callback *)
| BaseExn (n : nat).     (* a subclass of BaseException that is not an Exception *)

Definition exn_eqb (a b : exn) : bool :=
  match a, b with
  | MachineError, MachineError | AttributeError, AttributeError | ValueError, ValueError => true
  | UserExn n, UserExn m | BaseExn n, BaseExn m => Nat.eqb n m
  | _, _ => false
  end.

(* Callback slots = stages of the documented execution order. *)
Inductive slot : Type :=
| SPrepareEvent | SPrepare | SCond | SUnless | SBeforeSC | SBefore | SExit | SEnter
| SOnFinal | SAfter | SAfterSC | SFinalize | SOnException
| SOnTimeout | SOnFailure.

Definition slot_code (s : slot) : nat :=
  match s with
  | SPrepareEvent => 0 | SPrepare => 1 | SCond => 2 | SUnless => 3 | SBeforeSC => 4
  | SBefore => 5 | SExit => 6 | SEnter => 7 | SOnFinal => 8 | SAfter => 9 | SAfterSC => 10
  | SFinalize => 11 | SOnException => 12 | SOnTimeout => 13 | SOnFailure => 14
  end.
Definition slot_eqb (a b : slot) : bool := Nat.eqb (slot_code a) (slot_code b).

(* What a callback receives: the trigger's (args, kwargs) unchanged — identified by a
   token — or one event object wrapping them when send_event is set. *)
Inductive arg : Type := Plain (a : nat) | EventObj (a : nat).

(* What a user callback may do besides returning / raising. *)
Inductive action : Type :=
| ATrigger (m : model) (e : event)
| ARemoveModel (m : model).

Record reply : Type := mkReply {
  r_ret : bool;                 (* truthiness of the returned value *)
  r_raise : option exn;         (* raise this after performing r_acts *)
  r_acts : list action
}.

(* env cb pos : the behaviour of callback [cb] when it is the [pos]-th callback
   invocation of the whole history.  Quantifying over env quantifies over all
   condition valuations, all crash points and all callback programs. *)
Definition env := cbid -> nat -> reply.

(* V = the type of model states as seen by callbacks: a state id for flat machines, the
   active configuration for hierarchical ones *)
Record gitem (V : Type) : Type := mkGItem {
  it_slot : slot;
  it_cb : cbid;
  it_model : model;
  it_state : V;                 (* the model's state attribute when the callback ran *)
  it_arg : arg;                 (* what it was handed *)
  it_err : option exn;          (* event_data.error as visible through the event object *)
  it_ret : bool;
  it_acts : list action
}.
Arguments mkGItem {V}. Arguments it_slot {V}. Arguments it_cb {V}. Arguments it_model {V}.
Arguments it_state {V}. Arguments it_arg {V}. Arguments it_err {V}. Arguments it_ret {V}.
Arguments it_acts {V}.
Notation item := (gitem state).
Notation mkItem := (@mkGItem state).

Inductive outcome : Type := ORet (b : bool) | OExn (e : exn).

(* ---------------------------------------------------------------------------------
   The engine monad:  start position -> state -> (items, final state, exn + value).
   Position of the next callback = start + number of items emitted so far; state
   survives an exception (no rollback), exactly as in Python.                         *)
Section Monad.
  Context {V S : Type}.
  Definition M (A : Type) := nat -> S -> (list (gitem V) * S * (exn + A))%type.

  Definition ret {A} (a : A) : M A := fun _ s => ([], s, inr a).
  Definition raise {A} (e : exn) : M A := fun _ s => ([], s, inl e).
  Definition bind {A B} (m : M A) (f : A -> M B) : M B :=
    fun p s =>
      match m p s with
      | (t1, s1, inl e) => (t1, s1, inl e)
      | (t1, s1, inr a) =>
          match f a (p + length t1) s1 with
          | (t2, s2, r) => (t1 ++ t2, s2, r)
          end
      end.
  Definition get : M S := fun _ s => ([], s, inr s).
  Definition put (s' : S) : M unit := fun _ _ => ([], s', inr tt).

  (* try: m  except BaseException as e: h e *)
  Definition try_catch {A} (m : M A) (h : exn -> M A) : M A :=
    fun p s =>
      match m p s with
      | (t1, s1, inl e) =>
          match h e (p + length t1) s1 with
          | (t2, s2, r) => (t1 ++ t2, s2, r)
          end
      | r => r
      end.
  (* try: m  finally: (try: fin except BaseException: pass) *)
  Definition finally_swallow {A} (m : M A) (fin : M unit) : M A :=
    fun p s =>
      match m p s with
      | (t1, s1, r) =>
          match fin (p + length t1) s1 with
          | (t2, s2, _) => (t1 ++ t2, s2, r)
          end
      end.
  (* try: m  finally: fin   (an exception of fin replaces the outcome) *)
  Definition finally_ {A} (m : M A) (fin : M unit) : M A :=
    fun p s =>
      match m p s with
      | (t1, s1, r) =>
          match fin (p + length t1) s1 with
          | (t2, s2, inl e) => (t1 ++ t2, s2, inl e)
          | (t2, s2, inr _) => (t1 ++ t2, s2, r)
          end
      end.
  (* try: m  except BaseException as e: (error := e; h e)  finally: swallow (fin error) *)
  Definition try_except_finally {A} (m : M A) (h : exn -> M A) (fin : option exn -> M unit) : M A :=
    fun p s =>
      match m p s with
      | (t1, s1, inl e) =>
          match h e (p + length t1) s1 with
          | (t2, s2, r2) =>
              match fin (Some e) (p + length t1 + length t2) s2 with
              | (t3, s3, _) => (t1 ++ t2 ++ t3, s3, r2)
              end
          end
      | (t1, s1, inr a) =>
          match fin None (p + length t1) s1 with
          | (t3, s3, _) => (t1 ++ t3, s3, inr a)
          end
      end.
End Monad.

Notation "x <- m ;; k" := (bind m (fun x => k))
  (at level 61, m at next level, right associativity).
Notation "m ;;; k" := (bind m (fun _ => k))
  (at level 61, right associativity).

(* Constant context of one event. *)
Record ctx : Type := mkCtx {
  c_model : model;
  c_payload : nat;      (* token identifying the trigger's args/kwargs *)
  c_send : bool
}.
Definition ctx_arg (c : ctx) : arg := if c_send c then EventObj (c_payload c) else Plain (c_payload c).

Section Callbacks.
  Context {V S : Type}.
  Variable seen : S -> V.          (* what a callback reads in the model's state attribute *)
  Variable ev : env.
  Variable c : ctx.

  (* Invoke one callback: Machine.callback.  [err] is event_data.error. *)
  Definition call (sl : slot) (err : option exn) (cb : cbid) : M (V:=V) (S:=S) bool :=
    fun p s =>
      let r := ev cb p in
      let it := mkGItem sl cb (c_model c) (seen s) (ctx_arg c)
                       (if c_send c then err else None) (r_ret r) (r_acts r) in
      match r_raise r with
      | Some e => ([it], s, inl e)
      | None => ([it], s, inr (r_ret r))
      end.

  (* Machine.callbacks: every callback of the list, in order. *)
  Fixpoint run_cbs (sl : slot) (err : option exn) (cbs : list cbid) : M (V:=V) (S:=S) unit :=
    match cbs with
    | [] => ret tt
    | cb :: rest => call sl err cb ;;; run_cbs sl err rest
    end.

  (* Transition._eval_conditions: conditions then unless-checks, in order, stop at the
     first whose value differs from its target. *)
  Fixpoint eval_conds (conds : list (cbid * bool)) : M (V:=V) (S:=S) bool :=
    match conds with
    | [] => ret true
    | (cb, target) :: rest =>
        v <- call (if target then SCond else SUnless) None cb ;;
        if Bool.eqb v target then eval_conds rest else ret false
    end.
End Callbacks.
