(* Build.v — construction scripts for flat machines (transitions/core.py: Machine.__init__,
   add_states, initial setter, add_transition, add_transitions, add_ordered_transitions,
   _prep_ordered_arg, remove_transition, listify, resolve_callable; the flat part of
   extensions/nesting.py: add_states/_add_*_state duplicate checks, remove_transition).
   A script is a list of public API calls; [exec] runs it and yields the machine the
   library ends up with (ordered states, per event the source-keyed ordered transition
   lists).  [flatten] maps that to the abstract machine of Flat.v on which behaviour is
   defined.  Identifiers are naturals: states s<n>, callbacks <n>; event number 2k is a
   user event, 2s+1 is the automatic event to_s<s>.  Definitions only. *)
From Coq Require Import List Arith Bool.
From M Require Import Base Flat.
Import ListNotations.

(* ---------------------------------------------------------------- representations *)
(* a callback: method name on the model / callable / dotted import path / property name *)
Inductive cbref : Type := ByName (c : cbid) | ByRef (c : cbid) | ByPath (c : cbid) | ByProp (c : cbid).
Definition cb_id (r : cbref) : cbid :=
  match r with ByName c | ByRef c | ByPath c | ByProp c => c end.
(* a callback argument: None, one value, or a list (listify) *)
Inductive cbspec : Type := CNone | COne (r : cbref) | CList (l : list cbref).
Definition cbs (s : cbspec) : list cbid :=
  match s with CNone => [] | COne r => [cb_id r] | CList l => map cb_id l end.

(* a reference to a state: its name, an Enum member, a State object *)
Inductive sref : Type := RName (n : state) | REnum (n : state) | RObj (n : state).
Definition ref_id (r : sref) : state := match r with RName n | REnum n | RObj n => n end.

(* a state definition handed to add_states *)
Inductive sform : Type :=
| SName (n : state)
| SEnum (n : state)
| SDict (n : state) (en ex : cbspec) (fin : bool) (ign : option (option bool))  (* key absent / value *)
| SObj (n : state) (en ex : cbspec) (fin : bool) (ign : option bool).

Inductive srcspec : Type := SrcWild | SrcOne (r : sref) | SrcMany (l : list sref).
Inductive dstspec : Type := DstSame | DstTo (r : sref) | DstNone.

Record tcbs : Type := mkTcbs {
  c_conditions : cbspec; c_unless : cbspec; c_before : cbspec; c_after : cbspec; c_prepare : cbspec }.
Definition no_cbs : tcbs := mkTcbs CNone CNone CNone CNone CNone.

Record tspec : Type := mkT { ts_trig : event; ts_src : srcspec; ts_dst : dstspec; ts_cbs : tcbs }.
(* an element of add_transitions: positional list or keyword dict *)
Inductive tform : Type := TPos (t : tspec) | TKw (t : tspec).
Definition tf_spec (f : tform) : tspec := match f with TPos t | TKw t => t end.

(* an argument of add_ordered_transitions: None / one non-list value / a list of per-edge values *)
Inductive oarg : Type := ONone | OSingle (r : cbref) | OList (l : list cbspec).
Record ospec : Type := mkO {
  o_states : option (list sref); o_trig : event; o_loop : bool; o_incl : bool;
  o_conds : oarg; o_unless : oarg; o_before : oarg; o_after : oarg; o_prepare : oarg }.

Inductive filt (A : Type) : Type := FWild | FList (l : list A).
Arguments FWild {A}.
Arguments FList {A} l.

Inductive op : Type :=
| AddStates (l : list sform) (en ex : cbspec) (ign : option bool) (fin : bool)
| SetInitial (r : sref)
| AddTransition (t : tspec)
| AddTransitions (l : list tform)
| AddOrdered (o : ospec)
| RemoveTransition (trig : event) (src : filt sref) (dst : filt (option sref))
| AddModel.

Inductive berr : Type := EKey | EValue | EAttr.

(* ---------------------------------------------------------------- the machine being built *)
Record hdr : Type := mkHdr {
  h_hsm : bool;                    (* HierarchicalMachine instead of Machine *)
  h_auto : bool;                   (* auto_transitions *)
  h_ignore : option bool;          (* Machine.ignore_invalid_triggers: None / True / False *)
  h_send : bool;
  h_pe : cbspec; h_bsc : cbspec; h_asc : cbspec; h_fin : cbspec; h_oe : cbspec; h_of : cbspec
}.

Definition groups := list (state * list trans).      (* Event.transitions: source -> list *)

Record bm : Type := mkBm {
  b_hdr : hdr;
  b_states : list (state * sdef);                    (* Machine.states (OrderedDict) *)
  b_events : list (event * groups);                  (* Machine.events (OrderedDict) *)
  b_initial : option state;                          (* Machine._initial *)
  b_model : option state;                            (* the model, with the state it was given *)
  b_enums : list state                               (* states whose value is an Enum member *)
}.

Definition empty (h : hdr) : bm := mkBm h [] [] None None [].
Definition set_states (b : bm) (s : list (state * sdef)) : bm :=
  mkBm (b_hdr b) s (b_events b) (b_initial b) (b_model b) (b_enums b).
Definition set_events (b : bm) (e : list (event * groups)) : bm :=
  mkBm (b_hdr b) (b_states b) e (b_initial b) (b_model b) (b_enums b).
Definition set_init (b : bm) (i : option state) : bm :=
  mkBm (b_hdr b) (b_states b) (b_events b) i (b_model b) (b_enums b).
Definition set_enums (b : bm) (l : list state) : bm :=
  mkBm (b_hdr b) (b_states b) (b_events b) (b_initial b) (b_model b) l.
Definition set_model (b : bm) (m : option state) : bm :=
  mkBm (b_hdr b) (b_states b) (b_events b) (b_initial b) m (b_enums b).

Definition to_ev (s : state) : event := S (2 * s).

Fixpoint has_key {A} (k : nat) (l : list (nat * A)) : bool :=
  match l with [] => false | (k', _) :: r => Nat.eqb k k' || has_key k r end.

(* d[k] = v on an ordered dict: in place when the key exists, else appended *)
Fixpoint set_entry {A} (k : nat) (v : A) (l : list (nat * A)) : list (nat * A) :=
  match l with
  | [] => [(k, v)]
  | (k', v') :: r => if Nat.eqb k k' then (k, v) :: r else (k', v') :: set_entry k v r
  end.

Definition registered (b : bm) (n : state) : bool := has_key n (b_states b).
Definition state_names (b : bm) : list state := map fst (b_states b).

(* ---------------------------------------------------------------- add_transition *)
Definition mk_trans (s : state) (d : option state) (c : tcbs) : trans :=
  mkTrans s d (cbs (c_prepare c))
          (map (fun x => (x, true)) (cbs (c_conditions c)) ++ map (fun x => (x, false)) (cbs (c_unless c)))
          (cbs (c_before c)) (cbs (c_after c)).

(* Event.add_transition: self.transitions[source].append(t) *)
Fixpoint add_to_group (s : state) (t : trans) (g : groups) : groups :=
  match g with
  | [] => [(s, [t])]
  | (s', ts) :: r => if Nat.eqb s s' then (s', ts ++ [t]) :: r else (s', ts) :: add_to_group s t r
  end.

(* if trigger not in self.events: create; then events[trigger].add_transition *)
Fixpoint add_trans1 (trig : event) (s : state) (t : trans) (evs : list (event * groups))
  : list (event * groups) :=
  match evs with
  | [] => [(trig, [(s, [t])])]
  | (e, g) :: r => if Nat.eqb trig e then (e, add_to_group s t g) :: r else (e, g) :: add_trans1 trig s t r
  end.

Definition ensure_event (trig : event) (evs : list (event * groups)) : list (event * groups) :=
  if has_key trig evs then evs else evs ++ [(trig, [])].

(* a State object must be registered (ValueError otherwise); names and Enum members are
   checked lazily, i.e. not at all *)
Definition resolve_ref (b : bm) (r : sref) : option state :=
  match r with
  | RObj n => if registered b n then Some n else None
  | _ => Some (ref_id r)
  end.
Fixpoint resolve_refs (b : bm) (l : list sref) : option (list state) :=
  match l with
  | [] => Some []
  | r :: rest => match resolve_ref b r with
                 | None => None
                 | Some n => match resolve_refs b rest with None => None | Some ns => Some (n :: ns) end
                 end
  end.
Definition sources (b : bm) (s : srcspec) : option (list state) :=
  match s with
  | SrcWild => Some (state_names b)
  | SrcOne r => resolve_refs b [r]
  | SrcMany l => resolve_refs b l
  end.
Definition dst_bad (b : bm) (d : dstspec) : bool :=
  match d with DstTo (RObj n) => negb (registered b n) | _ => false end.
Definition dst_of (d : dstspec) (s : state) : option state :=
  match d with DstSame => Some s | DstTo r => Some (ref_id r) | DstNone => None end.

Definition add_edges (trig : event) (d : dstspec) (c : tcbs) (srcs : list state)
                     (evs : list (event * groups)) : list (event * groups) :=
  fold_left (fun e s => add_trans1 trig s (mk_trans s (dst_of d s) c) e) srcs evs.

(* HierarchicalMachine.add_transition first converts Enum members to state paths
   (_get_enum_path: ValueError unless a state with that Enum value exists), except for
   the combination source='*', dest='='. *)
Definition enum_bad (b : bm) (r : sref) : bool :=
  match r with REnum n => negb (existsb (Nat.eqb n) (b_enums b)) | _ => false end.
Definition hsm_enum_bad (b : bm) (t : tspec) : bool :=
  match ts_src t, ts_dst t with
  | SrcWild, DstSame => false
  | s, d =>
      (match s with SrcWild => false | SrcOne r => enum_bad b r | SrcMany l => existsb (enum_bad b) l end)
      || (match d with DstTo r => enum_bad b r | _ => false end)
  end.

Definition add_transition (t : tspec) (b : bm) : bm * option berr :=
  if h_hsm (b_hdr b) && hsm_enum_bad b t then (b, Some EValue) else
  let evs1 := ensure_event (ts_trig t) (b_events b) in
  match sources b (ts_src t) with
  | None => (set_events b evs1, Some EValue)
  | Some [] => (set_events b evs1, None)
  | Some srcs =>
      if dst_bad b (ts_dst t) then (set_events b evs1, Some EValue)
      else (set_events b (add_edges (ts_trig t) (ts_dst t) (ts_cbs t) srcs evs1), None)
  end.

(* a sequence of add_transition calls, stopping at the first that raises *)
Fixpoint exec_ts (l : list tspec) (b : bm) : bm * option berr :=
  match l with
  | [] => (b, None)
  | t :: r => match add_transition t b with
              | (b', None) => exec_ts r b'
              | res => res
              end
  end.

(* ---------------------------------------------------------------- add_states *)
Definition auto_ts (n : state) (keys : list state) : list tspec :=
  map (fun a => if Nat.eqb a n
                then mkT (to_ev a) SrcWild (DstTo (RName a)) no_cbs
                else mkT (to_ev a) (SrcOne (RName n)) (DstTo (RName a)) no_cbs) keys.

(* what one element of add_states(states, on_enter, on_exit, ignore_invalid_triggers, final=..)
   becomes: (name, State, does HierarchicalMachine refuse a duplicate?) *)
Definition state_of_form (h : hdr) (cen cex : cbspec) (cign : option bool) (cfin : bool) (f : sform)
  : state * sdef * bool :=
  let ign0 := match cign with None => h_ignore h | Some _ => cign end in
  match f with
  | SName n | SEnum n => (n, mkSdef (cbs cen) (cbs cex) cfin ign0, true)
  | SDict n en ex fin ign =>
      (n, mkSdef (cbs en) (cbs ex) fin (match ign with None => ign0 | Some v => v end), false)
  | SObj n en ex fin ign => (n, mkSdef (cbs en) (cbs ex) fin ign, true)
  end.

Definition add_state1 (cen cex : cbspec) (cign : option bool) (cfin : bool) (f : sform) (b : bm)
  : bm * option berr :=
  let h := b_hdr b in
  match state_of_form h cen cex cign cfin f with
  | (n, sd, chk) =>
      if h_hsm h && chk && registered b n then (b, Some EValue)
      else
        let en := filter (fun k => negb (Nat.eqb k n)) (b_enums b) in
        let b1 := set_enums (set_states b (set_entry n sd (b_states b)))
                            (match f with SEnum _ => n :: en | _ => en end) in
        if h_auto h then exec_ts (auto_ts n (state_names b1)) b1 else (b1, None)
  end.

Fixpoint add_states (l : list sform) (cen cex : cbspec) (cign : option bool) (cfin : bool) (b : bm)
  : bm * option berr :=
  match l with
  | [] => (b, None)
  | f :: r => match add_state1 cen cex cign cfin f b with
              | (b', None) => add_states r cen cex cign cfin b'
              | res => res
              end
  end.

(* ---------------------------------------------------------------- initial setter *)
Definition set_initial (r : sref) (b : bm) : bm * option berr :=
  let n := ref_id r in
  let res :=
    if registered b n then (b, None)
    else add_state1 CNone CNone None false
           (match r with RObj _ => SObj n CNone CNone false None | _ => SName n end) b in
  match res with
  | (b', None) => (set_init b' (Some n), None)
  | _ => res
  end.

(* ---------------------------------------------------------------- add_ordered_transitions *)
(* _prep_ordered_arg *)
Definition prep (n : nat) (a : oarg) : option (list cbspec) :=
  match a with
  | ONone => Some (repeat CNone n)
  | OSingle r => Some (repeat (COne r) n)
  | OList l => if Nat.eqb (length l) 1 then Some (repeat (hd CNone l) n)
               else if Nat.eqb (length l) n then Some l else None
  end.

(* [s.name if hasattr(s, 'name') else s for s in states].index(self._initial): every form
   of state reference is compared by its name *)
Definition is_init (i : option state) (r : sref) : bool :=
  match i with Some n => Nat.eqb (ref_id r) n | None => false end.
Fixpoint index_of {A} (p : A -> bool) (l : list A) : option nat :=
  match l with
  | [] => None
  | x :: r => if p x then Some 0 else match index_of p r with Some k => Some (S k) | None => None end
  end.
Definition rotate {A} (k : nat) (l : list A) : list A := skipn k l ++ firstn k l.

Definition ordered_ts (b : bm) (o : ospec) : berr + list tspec :=
  let sts := match o_states o with None => map RName (state_names b) | Some l => l end in
  let n := length sts in
  if Nat.ltb n 2 then inl EValue else
  let lt := if o_loop o then n else n - 1 in
  match prep lt (o_conds o), prep lt (o_unless o), prep lt (o_before o), prep lt (o_after o),
        prep lt (o_prepare o) with
  | Some c, Some u, Some bf, Some af, Some pr =>
      let d := RName 0 in
      let rf := match index_of (is_init (b_initial b)) sts with
                | Some idx => let r := rotate idx sts in (r, nth (if o_incl o then 0 else 1) r d)
                | None => (sts, nth 0 sts d)
                end in
      let sts' := fst rf in
      let edge := fun i dst =>
        mkT (o_trig o) (SrcOne (nth i sts' d)) (DstTo dst)
            (mkTcbs (nth i c CNone) (nth i u CNone) (nth i bf CNone) (nth i af CNone) (nth i pr CNone)) in
      inr (map (fun i => edge i (nth (S i) sts' d)) (seq 0 (n - 1))
           ++ (if o_loop o then [edge (n - 1) (snd rf)] else []))
  | _, _, _, _, _ => inl EValue
  end.

Definition add_ordered (o : ospec) (b : bm) : bm * option berr :=
  match ordered_ts b o with
  | inl e => (b, Some e)
  | inr ts => exec_ts ts b
  end.

(* ---------------------------------------------------------------- remove_transition *)
(* Machine.remove_transition maps the filter elements to names (State objects and Enum
   members by their .name) and compares them with transition.source / .dest;
   HierarchicalMachine.remove_transition converts them to state paths first. *)
Definition name_matches (r : sref) (n : state) : bool := Nat.eqb (ref_id r) n.
Definition src_match (f : filt sref) (s : state) : bool :=
  match f with FWild => true | FList l => existsb (fun r => name_matches r s) l end.
Definition dst_match (f : filt (option sref)) (d : option state) : bool :=
  match f with
  | FWild => true
  | FList l => existsb (fun o => match o, d with
                                 | None, None => true
                                 | Some r, Some n => name_matches r n
                                 | _, _ => false
                                 end) l
  end.
Definition t_match (fs : filt sref) (fd : filt (option sref)) (t : trans) : bool :=
  src_match fs (t_src t) && dst_match fd (t_dst t).

Definition is_nil {A} (l : list A) : bool := match l with [] => true | _ => false end.

Definition remove_groups (m : trans -> bool) (g : groups) : groups :=
  filter (fun p => negb (is_nil (snd p)))
         (map (fun p => (fst p, filter (fun t => negb (m t)) (snd p))) g).

Fixpoint remove_ev (m : trans -> bool) (trig : event) (evs : list (event * groups))
  : list (event * groups) :=
  match evs with
  | [] => []
  | (e, g) :: r =>
      if Nat.eqb trig e
      then (let g' := remove_groups m g in if is_nil g' then r else (e, g') :: r)
      else (e, g) :: remove_ev m trig r
  end.

Definition filt_enum_bad (b : bm) (fs : filt sref) (fd : filt (option sref)) : bool :=
  (match fs with FWild => false | FList l => existsb (enum_bad b) l end)
  || (match fd with FWild => false
      | FList l => existsb (fun o => match o with Some r => enum_bad b r | None => false end) l end).

Definition remove_transition (trig : event) (fs : filt sref) (fd : filt (option sref)) (b : bm)
  : bm * option berr :=
  let hsm := h_hsm (b_hdr b) in
  if hsm && filt_enum_bad b fs fd then (b, Some EValue) else
  if has_key trig (b_events b)
  then (set_events b (remove_ev (t_match fs fd) trig (b_events b)), None)
  else if hsm
       then (b, match b_model b with Some _ => Some EAttr | None => None end)  (* delattr(model, trigger) *)
       else (b, Some EKey).                                                     (* self.events[trigger] *)

(* ---------------------------------------------------------------- scripts *)
Definition add_model (b : bm) : bm * option berr :=
  match b_model b with
  | Some _ => (b, None)                       (* already registered: nothing happens *)
  | None => match b_initial b with
            | None => (b, Some EValue)
            | Some i => (set_model b (Some i), None)
            end
  end.

Definition run_op (o : op) (b : bm) : bm * option berr :=
  match o with
  | AddStates l en ex ign fin => add_states l en ex ign fin b
  | SetInitial r => set_initial r b
  | AddTransition t => add_transition t b
  | AddTransitions l => exec_ts (map tf_spec l) b
  | AddOrdered o => add_ordered o b
  | RemoveTransition trig fs fd => remove_transition trig fs fd b
  | AddModel => add_model b
  end.

(* a script runs until the first call that raises; what that call did before raising stays *)
Fixpoint exec (s : list op) (b : bm) : bm * option berr :=
  match s with
  | [] => (b, None)
  | o :: r => match run_op o b with
              | (b', None) => exec r b'
              | res => res
              end
  end.

(* position of the failing call *)
Fixpoint exec_idx (s : list op) (b : bm) (i : nat) : bm * option (berr * nat) :=
  match s with
  | [] => (b, None)
  | o :: r => match run_op o b with
              | (b', None) => exec_idx r b' (S i)
              | (b', Some e) => (b', Some (e, i))
              end
  end.

(* Machine.__init__(states, initial, transitions, ordered_transitions, model) *)
Record ctor : Type := mkCtor {
  k_states : option (list sform); k_initial : option sref; k_transitions : option (list tform);
  k_ordered : bool; k_model : bool }.
Definition default_ordered : ospec := mkO None 0 true true ONone ONone ONone ONone ONone.
Definition ctor_script (k : ctor) : list op :=
  (match k_states k with Some l => [AddStates l CNone CNone None false] | None => [] end)
  ++ (match k_initial k with Some r => [SetInitial r] | None => [] end)
  ++ (match k_transitions k with Some l => [AddTransitions l] | None => [] end)
  ++ (if k_ordered k then [AddOrdered default_ordered] else [])
  ++ (if k_model k then [AddModel] else []).
Definition construct (h : hdr) (k : ctor) : bm * option berr := exec (ctor_script k) (empty h).

(* ---------------------------------------------------------------- the abstract machine *)
Definition eff_ignore (h : hdr) (o : option bool) : bool :=
  match o with
  | Some v => v
  | None => match h_ignore h with Some v => v | None => false end
  end.

(* The machine of Flat.v.  A state's own ignore flag, when unset, falls back to the
   machine's at trigger time; flatten records the effective value. *)
Definition flatten (b : bm) : machine :=
  let h := b_hdr b in
  mkMachine
    (map (fun p => (fst p, mkSdef (s_enter (snd p)) (s_exit (snd p)) (s_final (snd p))
                                  (Some (eff_ignore h (s_ignore (snd p)))))) (b_states b))
    (map (fun p => (fst p, concat (map snd (snd p)))) (b_events b))
    (cbs (h_pe h)) (cbs (h_bsc h)) (cbs (h_asc h)) (cbs (h_fin h)) (cbs (h_oe h)) (cbs (h_of h))
    (eff_ignore h None) (h_send h).

(* get_triggers(state) *)
Definition get_triggers (b : bm) (s : state) : list event :=
  map fst (filter (fun p => has_key s (snd p)) (b_events b)).

(* ---------------------------------------------------------------- behavioural equivalence *)
Definition ev_equiv (a b : option (list trans)) : Prop :=
  match a, b with
  | Some t1, Some t2 => forall s, candidates t1 s = candidates t2 s
  | None, None => True
  | _, _ => False
  end.

(* same states and machine-level callbacks/flags; the same events; per event and source
   the same candidate list *)
Definition mequiv (m1 m2 : machine) : Prop :=
  m_states m1 = m_states m2 /\
  m_prepare_event m1 = m_prepare_event m2 /\ m_before_sc m1 = m_before_sc m2 /\
  m_after_sc m1 = m_after_sc m2 /\ m_finalize m1 = m_finalize m2 /\
  m_on_exception m1 = m_on_exception m2 /\ m_on_final m1 = m_on_final m2 /\
  m_ignore m1 = m_ignore m2 /\ m_send_event m1 = m_send_event m2 /\
  forall e, ev_equiv (lookup (m_events m1) e) (lookup (m_events m2) e).

Definition beq (b1 b2 : bm) : Prop :=
  mequiv (flatten b1) (flatten b2) /\ b_initial b1 = b_initial b2 /\ b_model b1 = b_model b2.

(* ---------------------------------------------------------------- canonical representations
   (used only to state the laws) *)
Definition canon_cbspec (s : cbspec) : cbspec := CList (map ByRef (cbs s)).
Definition canon_tcbs (c : tcbs) : tcbs :=
  mkTcbs (canon_cbspec (c_conditions c)) (canon_cbspec (c_unless c)) (canon_cbspec (c_before c))
         (canon_cbspec (c_after c)) (canon_cbspec (c_prepare c)).
Definition name_ref (r : sref) : sref := RName (ref_id r).
Definition name_src (s : srcspec) : srcspec :=
  match s with SrcWild => SrcWild | SrcOne r => SrcOne (name_ref r) | SrcMany l => SrcMany (map name_ref l) end.
Definition name_dst (d : dstspec) : dstspec :=
  match d with DstTo r => DstTo (name_ref r) | _ => d end.
(* all references usable at this point: State objects registered, and on a
   HierarchicalMachine Enum members only for states created from that member *)
Definition ref_ok (b : bm) (r : sref) : bool :=
  match r with
  | RName _ => true
  | REnum _ => negb (h_hsm (b_hdr b) && enum_bad b r)
  | RObj n => registered b n
  end.
Definition refs_ok (b : bm) (t : tspec) : bool :=
  (match ts_src t with SrcWild => true | SrcOne r => ref_ok b r | SrcMany l => forallb (ref_ok b) l end)
  && (match ts_dst t with DstTo r => ref_ok b r | _ => true end).
Definition is_enum_form (f : sform) : bool := match f with SEnum _ => true | _ => false end.
Definition plain_dst (d : dstspec) : bool :=
  match d with DstTo (RName _) | DstSame | DstNone => true | _ => false end.

Definition name_filt_src (f : filt sref) : filt sref :=
  match f with FWild => FWild | FList l => FList (map name_ref l) end.
Definition name_filt_dst (f : filt (option sref)) : filt (option sref) :=
  match f with
  | FWild => FWild
  | FList l => FList (map (fun o => match o with Some r => Some (name_ref r) | None => None end) l)
  end.
Definition with_states (o : ospec) (l : option (list sref)) : ospec :=
  mkO l (o_trig o) (o_loop o) (o_incl o) (o_conds o) (o_unless o) (o_before o) (o_after o) (o_prepare o).
Definition name_tspec (t : tspec) : tspec :=
  mkT (ts_trig t) (name_src (ts_src t)) (name_dst (ts_dst t)) (ts_cbs t).
