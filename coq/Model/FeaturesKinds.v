(* FeaturesKinds.v — the callback kinds of a decorated state class and stacked decorators.
   add_state_features(args...)(cls) builds CustomState(type('CustomState', args, {}), cls.state_cls)
   and sets its dynamic_methods to those of EVERY class in its MRO: the mix-ins of this
   decorator and the previous state class — the machine's own one (State: on_enter, on_exit;
   NestedState: also on_final) or the class an inner decorator built.  A kind in
   dynamic_methods is what makes machine.on_<kind>_<state>(cb) exist and a model method named
   on_<kind>_<state> be registered.  Timeout (on_timeout) is carried as an argument of the
   decorators; with timeout=0 its enter/exit do nothing, so it is no part of the enter chain
   (timers: C17).  Definitions only. *)
From Coq Require Import List Arith Bool.
From M Require Import Features.
Import ListNotations.

Inductive mixin : Type := MFeat (f : feature) | MTimeout.
Inductive kind : Type := KEnter | KExit | KFinal | KTimeout.
Definition kind_code (k : kind) : nat :=
  match k with KEnter => 0 | KExit => 1 | KFinal => 2 | KTimeout => 3 end.
Definition kind_eqb (a b : kind) : bool := Nat.eqb (kind_code a) (kind_code b).
Definition has_kind (k : kind) (l : list kind) : bool := existsb (kind_eqb k) l.

Definition mixin_kinds (x : mixin) : list kind :=
  match x with MTimeout => [KTimeout] | MFeat _ => [] end.
Definition base_kinds (hier : bool) : list kind :=
  if hier then [KEnter; KExit; KFinal] else [KEnter; KExit].

(* one decorator *)
Definition decorate_kinds (args : list mixin) (prev : list kind) : list kind :=
  flat_map mixin_kinds args ++ prev.
(* a stack of decorators, the outermost first *)
Fixpoint stack_kinds (ds : list (list mixin)) (base : list kind) : list kind :=
  match ds with
  | [] => base
  | outer :: inner => decorate_kinds outer (stack_kinds inner base)
  end.

(* the MRO of the stacked class: the outer decorator's mix-ins, then the inner ones; the
   enter chain of Features.v runs over the features among them *)
Definition mixin_feature (x : mixin) : list feature :=
  match x with MFeat f => [f] | MTimeout => [] end.
Definition stack_order (ds : list (list mixin)) : list feature := flat_map mixin_feature (concat ds).

(* Envelope of [stack_order]: Error derives from Tags, so when two decorators of a stack both
   bring Tags (explicitly or through Error) Python's C3 linearisation interleaves their
   mix-ins — (Error, Volatile) over (Retry, Tags) yields Error, Retry, Tags, Volatile.
   [stack_wf]: at most one decorator of the stack brings Tags; then the linearisations share
   nothing but State and the MRO is the outer arguments followed by the inner ones. *)
Definition brings_tags (args : list mixin) : bool :=
  existsb (fun x => match x with MFeat FTags | MFeat FError => true | _ => false end) args.
Definition stack_wf (ds : list (list mixin)) : bool :=
  Nat.leb (length (filter brings_tags ds)) 1.
