(* TimerSpec.v — the property C17 as a readable boolean statement over an observed trace.

   The checker reads the marker items of a trace from left to right and keeps, per model,
     None                 the model is between the exit of one state and the entry of the next
     Some (s, None)       the model is in s and no timeout is outstanding (s has none, the model was
                          placed in s as its initial state, or the timeout of this stay has fired)
     Some (s, Some dl)    the model entered s at dl - timeout(s) and its timeout has not fired yet.
   Clauses (the conjunction is [spec_C17]):
     entered   TEntered m s t  : m is between states; from now on a timeout is outstanding for t + timeout(s)
                                 iff timeout(s) > 0            — every (re-)entry starts a fresh period
     fired     TFired m s t    : a timeout of m in s is outstanding and t is exactly its deadline; afterwards
                                 none is outstanding           — on time, at most once, only while still in s,
                                                                 never for a stay that has ended
     exited    TExited m s t   : m is in s, and an outstanding timeout is not overdue (t <= deadline); the
                                 stay ends and with it the outstanding timeout
     user      TUser _ _ t     : no model has an outstanding timeout with deadline <= t — the due timeouts
                                 have fired before the caller's event at the same instant (at least once)
     end       the same at the final clock value
     time      marker times never decrease.
     reconfig  TSetTimeout s v t : from now on ENTERING s starts a period of v (none if v = 0); a stay that is
                                   under way keeps the deadline it was given on entry, and still loses it on
                                   exit whatever the attribute says then.
   An internal transition produces no marker, hence cannot restart or stop a period; the state is per
   model, hence timers of different models are independent.  Definitions only. *)
From Coq Require Import List Arith Bool.
From M Require Import Timer.
Import ListNotations.

Record ck : Type := mkCk {
  ck_ok : bool;
  ck_last : nat;
  ck_open : tmodel -> option (tstate * option nat);
  ck_tout : tstate -> nat        (* the timeout attribute of every state as last assigned *)
}.
Definition ck_init (c : tcfg) (s0 : tstate) : ck := mkCk true 0 (fun _ => Some (s0, None)) (timeout_of c).

Definition none_overdue (nm : nat) (k : ck) (t : nat) : bool :=
  forallb (fun m => match ck_open k m with Some (_, Some dl) => Nat.ltb t dl | _ => true end) (seq 0 nm).

Definition period (tout : tstate -> nat) (s : tstate) (t : nat) : option nat :=
  if Nat.ltb 0 (tout s) then Some (t + tout s) else None.

Definition ck_step (c : tcfg) (nm : nat) (k : ck) (it : titem) : ck :=
  match it with
  | TEntered m s t =>
      mkCk (ck_ok k && Nat.leb (ck_last k) t &&
            match ck_open k m with None => true | Some _ => false end)
           t (upd (ck_open k) m (Some (s, period (ck_tout k) s t))) (ck_tout k)
  | TFired m s t =>
      mkCk (ck_ok k && Nat.leb (ck_last k) t &&
            match ck_open k m with
            | Some (s', Some dl) => Nat.eqb s' s && Nat.eqb t dl
            | _ => false
            end)
           t (upd (ck_open k) m (Some (s, None))) (ck_tout k)
  | TExited m s t =>
      mkCk (ck_ok k && Nat.leb (ck_last k) t &&
            match ck_open k m with
            | Some (s', a) => Nat.eqb s' s && match a with Some dl => Nat.leb t dl | None => true end
            | None => false
            end)
           t (upd (ck_open k) m None) (ck_tout k)
  | TUser _ _ t =>
      mkCk (ck_ok k && Nat.leb (ck_last k) t && none_overdue nm k t) t (ck_open k) (ck_tout k)
  | TSetTimeout s v t =>
      mkCk (ck_ok k && Nat.leb (ck_last k) t) t (ck_open k) (upd (ck_tout k) s v)
  | _ => k
  end.

Definition ck_run (c : tcfg) (nm : nat) (k : ck) (tr : list titem) : ck := fold_left (ck_step c nm) tr k.

Definition ck_end (nm : nat) (k : ck) (clock : nat) : bool :=
  ck_ok k && Nat.leb (ck_last k) clock && none_overdue nm k clock.

(* the trace tr of a machine with nm models that all start in s0, observed until [clock] *)
Definition spec_C17 (c : tcfg) (nm : nat) (s0 : tstate) (tr : list titem) (clock : nat) : bool :=
  ck_end nm (ck_run c nm (ck_init c s0) tr) clock.

(* ----------------------------------------------------------------- the handler's contract
   the items of a trace that a timeout handler produces itself (as opposed to the transitions its
   callbacks trigger); err = 0 marks an on_exception call for a MachineError of a transition *)
Definition handler_kind (it : titem) : bool :=
  match it with
  | TFired _ _ _ | CTimeout _ _ _ _ | CEscape _ _ _ => true
  | COnExc _ _ err _ => negb (Nat.eqb err 0)
  | _ => false
  end.
Definition is_cres (it : titem) : bool := match it with CRes _ _ _ _ => true | _ => false end.
Definition has_act (cb : ocb) : bool := match oc_act cb with Some _ => true | None => false end.

(* what one asyncio firing for model m in state s at time t must contribute: the marker, EVERY on_timeout
   callback in order (whatever the transitions triggered by earlier ones did to the timer), then the
   machine's on_exception callbacks with the first failing callback iff one failed *)
Definition async_firing (c : tcfg) (ot : tstate -> list ocb) (m : tmodel) (s : tstate) (t : nat) : list titem :=
  let cbs := ot s in
  TFired m s t :: map (fun cb => CTimeout (oc_id cb) m s t) cbs ++
  match first_raising cbs with
  | Some k => map (fun h => COnExc h m k t) (tc_onexc c)
  | None => []
  end.

Definition ids_positive (ot : tstate -> list ocb) (s : tstate) : bool :=
  forallb (fun cb => Nat.ltb 0 (oc_id cb)) (ot s).
Definition is_ctimeout (it : titem) : bool := match it with CTimeout _ _ _ _ => true | _ => false end.
Definition is_user_onexc (it : titem) : bool :=
  match it with COnExc _ _ err _ => negb (Nat.eqb err 0) | _ => false end.

(* ----------------------------------------------------------------- the envelope of C17_once_on_time
   A trigger issued by an on_exit callback of an UNQUEUED machine runs inside the exit of the running
   transition, while the model's state is still the source: if it changes the state, the source's exit —
   and with it the same callback — runs again, for ever (Python: RecursionError).  The terminating uses
   are the inert ones: unknown / invalid events, failing conditions, internal transitions.  Queued
   machines defer the trigger, any event is fine. *)
Definition inert (c : tcfg) (s : tstate) (e : tevent) : bool :=
  negb (event_known c e) ||
  match first_ok (cands c e s) with
  | Some t => match tt_dst t with None => true | Some _ => false end
  | None => true
  end.
Definition exit_acts_inert (c : tcfg) (s : tstate) (d : tsdef) : bool :=
  forallb (fun cb => match ec_act cb with None => true | Some e => inert c s e end) (ts_exit d).
Definition guard_C17 (c : tcfg) : bool :=
  tc_queued c || forallb (fun p => exit_acts_inert c (fst p) (snd p)) (tc_states c).
