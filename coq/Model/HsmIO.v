(* HsmIO.v — decoding of hierarchical cases / encoding of observations. *)
From Coq Require Import List Arith Bool.
From M Require Import Sx Base Flat FlatIO Hsm.
Import ListNotations.

Definition d_path := d_list d_nat.
Definition d_htrans (x : sx) : option htrans :=
  match x with
  | L [src; dst; prep; conds; bef; aft] =>
      do s <- d_path src; do d <- d_option d_path dst; do p <- d_list d_nat prep;
      do cs <- d_list (d_pair d_nat d_bool) conds;
      do b <- d_list d_nat bef; do a <- d_list d_nat aft;
      Some (mkHT s d p cs b a)
  | _ => None
  end.
Definition d_hevents := d_list (d_pair d_nat (d_list d_htrans)).

Fixpoint d_sdefn (fuel : nat) (x : sx) : option sdefn :=
  match fuel with
  | 0 => None
  | S f =>
      match x with
      | L [N n; en; ex; onf; fin; ign; ini; evs; ch] =>
          do en' <- d_list d_nat en; do ex' <- d_list d_nat ex; do onf' <- d_list d_nat onf;
          do fin' <- d_bool fin; do ign' <- d_option d_bool ign; do ini' <- d_list d_nat ini;
          do evs' <- d_hevents evs; do ch' <- d_list (d_sdefn f) ch;
          Some (SDef n en' ex' onf' fin' ign' ini' evs' ch')
      | _ => None
      end
  end.

Definition d_hmachine (x : sx) : option hmachine :=
  match x with
  | L [sts; evs; pe; bsc; asc; fin; oe; ofi; ign; send] =>
      do sts' <- d_list (d_sdefn 64) sts;
      do evs' <- d_hevents evs;
      do pe' <- d_list d_nat pe; do bsc' <- d_list d_nat bsc; do asc' <- d_list d_nat asc;
      do fin' <- d_list d_nat fin; do oe' <- d_list d_nat oe; do ofi' <- d_list d_nat ofi;
      do ign' <- d_bool ign; do send' <- d_bool send;
      Some (mkHM sts' evs' pe' bsc' asc' fin' oe' ofi' ign' send')
  | _ => None
  end.

Fixpoint e_tree (t : tree) : sx :=
  match t with Node n ch => L [N n; L (map e_tree ch)] end.
Definition e_forest (f : forest) : sx := L (map e_tree f).

Definition e_hitem (it : gitem forest) : sx :=
  L [e_slot (it_slot it); N (it_cb it); N (it_model it); e_forest (it_state it); e_arg (it_arg it);
     e_option e_exn (it_err it); e_bool (it_ret it); e_list e_action (it_acts it)].

(* the configuration add_model puts a model in: the initial path, then initial substates
   (HierarchicalMachine._resolve_initial), no callbacks *)
Definition initial_config (hm : hmachine) (ini : path) : forest :=
  match find_def (hm_states hm) ini with
  | Some d => chain_tree ini (initial_tree def_depth_bound d)
  | None => []
  end.

Definition hrun_one (hm : hmachine) (ev : env) (m : model) (h : hcall)
  : M (V:=forest) (S:=forest) bool :=
  let c := mkCtx m (h_payload h) (hm_send_event hm) in
  match h_kind h with
  | KMay => Hsm.can_trigger hm ev c (h_event h)
  | _ => Hsm.trigger_event hm ev c (h_event h)
  end.

Fixpoint hrun_history (hm : hmachine) (ev : env) (m : model) (hs : list hcall)
                      (p : nat) (s : forest) : list sx :=
  match hs with
  | [] => []
  | h :: rest =>
      match hrun_one hm ev m h p s with
      | (tr, s', r) =>
          L [e_list e_hitem tr; e_result r; e_forest s'] :: hrun_history hm ev m rest (p + length tr) s'
      end
  end.

(* case := [hmachine; env; model id; initial path; history] *)
Definition run_hsm_case (x : sx) : sx :=
  match x with
  | L [mcx; evx; N m; inix; hx] =>
      match d_hmachine mcx, d_env evx, d_path inix, d_list d_call hx with
      | Some hm, Some ev, Some ini, Some hs =>
          let f0 := initial_config hm ini in
          L [N 1; e_forest f0; L (hrun_history hm ev m hs 0 f0)]
      | _, _, _, _ => L [N 0]
      end
  | _ => L [N 0]
  end.
