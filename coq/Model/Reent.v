(* Reent.v — the flat machine WITHOUT a queue and with several models, where callbacks may
   call back into the machine: model.trigger(event) on any model is processed immediately
   and completely inside the calling callback (Machine._process with queued=False),
   remove_model just drops the model from the list.  Recursion on explicit fuel (Python would
   raise RecursionError); fuel exhaustion is signalled by the exception [out_of_fuel] and
   excluded in the theorems.  Definitions only. *)
From Coq Require Import List Arith Bool.
From M Require Import Base Flat.
Import ListNotations.

Record rworld : Type := mkRW { rw_states : list (model * state); rw_models : list model }.

Fixpoint rset (l : list (model * state)) (m : model) (s : state) : list (model * state) :=
  match l with
  | [] => [(m, s)]
  | (m', s') :: r => if Nat.eqb m m' then (m, s) :: r else (m', s') :: rset r m s
  end.
Definition rstate_of (w : rworld) (m : model) : state :=
  match lookup (rw_states w) m with Some s => s | None => 0 end.
Definition rput (m : model) (s : state) (w : rworld) : rworld :=
  mkRW (rset (rw_states w) m s) (rw_models w).

Definition out_of_fuel : exn := BaseExn 99.
Definition nested_payload_r (pos k : nat) : nat := 2000 + 8 * pos + k.

Notation RM := (M (V:=state) (S:=rworld)).

Section Level.
  Variable mc : machine.
  Variable ev : env.
  (* model.trigger(event, payload) issued from a callback: the engine one fuel level below *)
  Variable nested : model -> event -> nat -> RM bool.

  Section OneModel.
    Variable c : ctx.
    Let m := c_model c.

    (* perform the actions of one callback, in order; a raising nested trigger propagates *)
    Fixpoint perform (pos k : nat) (acts : list action) : RM unit :=
      match acts with
      | [] => ret tt
      | ATrigger m' e' :: r => nested m' e' (nested_payload_r pos k) ;;; perform pos (S k) r
      | ARemoveModel m' :: r =>
          (fun _ w => ([], mkRW (rw_states w) (filter (fun x => negb (Nat.eqb x m')) (rw_models w)), inr tt)) ;;;
          perform pos (S k) r
      end.

    Definition rcall (sl : slot) (err : option exn) (cb : cbid) : RM bool :=
      fun p w =>
        let r := ev cb p in
        let it := mkItem sl cb m (rstate_of w m) (ctx_arg c) (if c_send c then err else None) (r_ret r) (r_acts r) in
        match perform p 0 (r_acts r) (S p) w with
        | (t, w', inl e) => (it :: t, w', inl e)
        | (t, w', inr _) =>
            match r_raise r with
            | Some e => (it :: t, w', inl e)
            | None => (it :: t, w', inr (r_ret r))
            end
        end.

    Fixpoint rrun_cbs (sl : slot) (err : option exn) (cbs : list cbid) : RM unit :=
      match cbs with
      | [] => ret tt
      | cb :: rest => rcall sl err cb ;;; rrun_cbs sl err rest
      end.

    Fixpoint reval_conds (conds : list (cbid * bool)) : RM bool :=
      match conds with
      | [] => ret true
      | (cb, target) :: rest =>
          v <- rcall (if target then SCond else SUnless) None cb ;;
          if Bool.eqb v target then reval_conds rest else ret false
      end.

    Definition rchange_state (t : trans) (dst : state) : RM unit :=
      match get_state mc (t_src t) with
      | None => raise ValueError
      | Some src_def =>
          rrun_cbs SExit None (s_exit src_def) ;;;
          match get_state mc dst with
          | None => raise ValueError
          | Some dst_def =>
              (fun _ w => ([], rput m dst w, inr tt)) ;;;
              rrun_cbs SEnter None (s_enter dst_def) ;;;
              if s_final dst_def then rrun_cbs SOnFinal None (m_on_final mc) else ret tt
          end
      end.

    Definition rexecute (t : trans) : RM bool :=
      rrun_cbs SPrepare None (t_prepare t) ;;;
      ok <- reval_conds (t_conds t) ;;
      if ok then
        rrun_cbs SBeforeSC None (m_before_sc mc) ;;;
        rrun_cbs SBefore None (t_before t) ;;;
        match t_dst t with Some d => rchange_state t d | None => ret tt end ;;;
        rrun_cbs SAfter None (t_after t) ;;;
        rrun_cbs SAfterSC None (m_after_sc mc) ;;;
        ret true
      else ret false.

    Fixpoint rtry_transitions (ts : list trans) : RM bool :=
      match ts with
      | [] => ret false
      | t :: rest => ok <- rexecute t ;; if ok then ret true else rtry_transitions rest
      end.

    Definition rprocess (ts : list trans) (cur : state) : RM bool :=
      rrun_cbs SPrepareEvent None (m_prepare_event mc) ;;;
      rtry_transitions (candidates ts cur).

    Definition rchecked_process (ts : list trans) (cur : state) (sd : sdef) : RM bool :=
      match candidates ts cur with
      | [] => if ignores mc sd then ret false else raise MachineError
      | _ => rprocess ts cur
      end.

    Definition rtrigger_event (ts : list trans) : RM bool :=
      w <- get ;;
      let cur := rstate_of w m in
      match get_state mc cur with
      | None => raise ValueError
      | Some sd =>
          try_except_finally
            (rchecked_process ts cur sd)
            (fun e =>
               match m_on_exception mc with
               | [] => raise e
               | hs => rrun_cbs SOnException (Some e) hs ;;; ret false
               end)
            (fun err => rrun_cbs SFinalize err (m_finalize mc))
      end.

    Definition rtrigger_named (e : event) : RM bool :=
      match lookup (m_events mc) e with
      | Some ts => rtrigger_event ts
      | None =>
          w <- get ;;
          match get_state mc (rstate_of w m) with
          | None => raise ValueError
          | Some sd => if ignores mc sd then ret false else raise AttributeError
          end
      end.
  End OneModel.
End Level.

(* model.trigger(event, payload) with [fuel] levels of re-entrancy left *)
Fixpoint rtrigger (mc : machine) (ev : env) (fuel : nat) (m : model) (e : event) (a : nat) : RM bool :=
  match fuel with
  | 0 => raise out_of_fuel
  | S f => rtrigger_named mc ev (rtrigger mc ev f) (mkCtx m a (m_send_event mc)) e
  end.
