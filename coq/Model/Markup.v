(* Markup.v - model of transitions/extensions/markup.py (MarkupMachine and
   HierarchicalMarkupMachine): the description of a machine with NAMED callbacks, the
   exported markup ([to_markup]: _convert_states_and_transitions, _convert, rep,
   _convert_models, the machine-level lists/options captured by __init__), the
   [markup=] constructor path ([of_markup] + _add_markup_model), the modifying operations
   (add_states / add_transition / remove_transition / dynamic callback registration)
   and the cache automaton (_markup, _needs_update).  Definitions only.

   A machine is described by what the user declared: the state tree, per scope the
   ordered event table  trigger -> source -> [transition]  (the OrderedDict of Event
   objects, each with its defaultdict(list) keyed by source), machine-level lists and
   options, models.  Automatic `to_<state>` events are NOT stored: they are implied by
   [m_auto] and omitted from the markup by the code's heuristic (validated by the
   correspondence check inside the envelope, see wf_machine) - except for flat machines
   with a custom model_attribute, whose automatic events `to_<attr>_<state>` escape the
   heuristic: there ([exports_auto]) add_states stores them like the code does.  State paths of model
   states are lists of names; the IO layer joins them with the separator "_". *)
From Coq Require Import List Arith Bool String Ascii.
From G Require Import AttrLists.
Import ListNotations.
Open Scope string_scope.
Open Scope list_scope.

(* ------------------------------------------------------------------ descriptions *)
(* `initial`: None | 'x' | ['x'; 'y'] (parallel) *)
Definition init := option (string + list string).

Record trans := mkTrans {
  t_source : string; t_dest : option string;        (* dest None = internal transition *)
  t_conditions : list string; t_unless : list string;
  t_prepare : list string; t_before : list string; t_after : list string }.

Definition srcmap := list (string * list trans).     (* Event.transitions, insertion order *)
Definition events := list (string * srcmap).         (* machine.events / state.events *)

Inductive state := State {
  s_name : string;
  s_on_enter : list string; s_on_exit : list string; s_on_final : list string;
  s_ignore : option bool;          (* State.ignore_invalid_triggers: None / False / True *)
  s_final : bool;
  s_initial : init;
  s_children : list state;         (* NestedState.states *)
  s_events : events }.             (* NestedState.events: transitions declared in this scope *)

(* the `queued` option: False, True, or 'model' (asyncio machines: one event queue per model) *)
Inductive qmode := QFalse | QTrue | QModel.

Inductive mstate := MS (p : list string) | ML (l : list mstate).
Record model := mkModel { md_state : mstate; md_class : string }.

Record machine := mkMachine {
  m_hsm : bool;                    (* HierarchicalMarkupMachine? *)
  m_states : list state; m_events : events; m_initial : init; m_name : string;
  m_bsc : list string; m_asc : list string; m_pe : list string; m_fe : list string;
  m_oe : list string; m_of : list string;
  m_send : bool; m_auto : bool; m_attr : string; m_override : bool;
  m_ignore : option bool; m_queued : qmode;
  m_models : list model }.

(* ------------------------------------------------------------------ the markup dict *)
Inductive aval := AStr (s : string) | ABool (b : bool) | AList (l : list string).
Definition attrs := list (string * aval).           (* key/value pairs in insertion order *)

Record ktrans := mkKT {
  kt_attrs : attrs;                                 (* whitelisted attributes that are truthy *)
  kt_trigger : string;
  kt_conditions : option (list string);             (* key absent when empty *)
  kt_unless : option (list string) }.

Inductive kstate := KState {
  ks_name : string;
  ks_attrs : attrs;
  ks_scope : bool;                 (* are the keys 'transitions' and 'children' present? *)
  ks_initial : init;               (* key 'initial' (absent = None) *)
  ks_transitions : list ktrans;
  ks_children : list kstate }.

Record kmodel := mkKM { km_state : mstate; km_class : string }.

Record markup := mkMarkup {
  k_bsc : list string; k_asc : list string; k_pe : list string; k_fe : list string;
  k_oe : list string; k_of : list string;
  k_send : bool; k_auto : bool; k_attr : string; k_override : bool;
  k_ignore : option bool; k_queued : qmode;
  k_models : list kmodel;
  k_initial : init; k_name : option string;
  k_transitions : list ktrans; k_states : list kstate }.

(* ------------------------------------------------------------------ small helpers *)
Definition nonempty_str (s : string) : bool := negb (s =? "").
Definition clean (l : list string) : list string := filter nonempty_str l.   (* [x for x in ... if x] *)
Definition truthy_list (l : list string) : option aval :=
  match l with [] => None | _ => Some (AList l) end.
Definition truthy_str (s : string) : option aval := if s =? "" then None else Some (AStr s).
Definition truthy_init (i : init) : init :=
  match i with
  | Some (inl s) => if s =? "" then None else i
  | Some (inr []) => None
  | _ => i
  end.
Definition opt_list (l : list string) : option (list string) :=
  match l with [] => None | _ => Some l end.

Fixpoint assoc (k : string) (a : attrs) : option aval :=
  match a with
  | [] => None
  | (k', v) :: r => if k' =? k then Some v else assoc k r
  end.
Definition a_list (k : string) (a : attrs) : list string :=
  match assoc k a with Some (AList l) => l | Some (AStr s) => [s] | _ => [] end.
Definition a_str (k : string) (a : attrs) : string :=
  match assoc k a with Some (AStr s) => s | _ => "" end.
Definition a_optstr (k : string) (a : attrs) : option string :=
  match assoc k a with Some (AStr s) => Some s | _ => None end.

(* _convert(obj, attributes, format_references): falsy attributes are skipped *)
Definition convert (get : string -> option aval) (keys : list string) : attrs :=
  flat_map (fun k => match get k with Some v => [(k, v)] | None => [] end) keys.

Fixpoint memb (x : string) (l : list string) : bool :=
  match l with [] => false | y :: r => (y =? x) || memb x r end.

(* ------------------------------------------------------------------ event tables *)
(* Event.add_transition: self.transitions[transition.source].append(transition) *)
Fixpoint ins_src (t : trans) (sm : srcmap) : srcmap :=
  match sm with
  | [] => [(t_source t, [t])]
  | (s, ts) :: r => if s =? t_source t then (s, ts ++ [t]) :: r else (s, ts) :: ins_src t r
  end.
(* Machine.add_transition for one source: create the event if the trigger is new *)
Fixpoint ins_ev (trg : string) (t : trans) (evs : events) : events :=
  match evs with
  | [] => [(trg, [(t_source t, [t])])]
  | (e, sm) :: r => if e =? trg then (e, ins_src t sm) :: r else (e, sm) :: ins_ev trg t r
  end.
Definition add_all (l : list (string * trans)) (evs : events) : events :=
  fold_left (fun acc et => ins_ev (fst et) (snd et) acc) l evs.

(* iteration order of _convert_transitions: events, then sources, then the list *)
Definition flat_sm (e : string) (sm : srcmap) : list (string * trans) :=
  flat_map (fun st => map (pair e) (snd st)) sm.
Definition flatten (evs : events) : list (string * trans) :=
  flat_map (fun ev => flat_sm (fst ev) (snd ev)) evs.

(* ------------------------------------------------------------------ to_markup *)
Definition state_attr (hsm : bool) (s : state) (k : string) : option aval :=
  if k =? "on_exit" then truthy_list (s_on_exit s)
  else if k =? "on_enter" then truthy_list (s_on_enter s)
  else if k =? "ignore_invalid_triggers" then
         match s_ignore s with Some true => Some (ABool true) | _ => None end
  else if k =? "final" then (if s_final s then Some (ABool true) else None)
  else if k =? "on_final" then (if hsm then truthy_list (s_on_final s) else None)  (* core.State has no on_final *)
  else None.     (* timeout, on_timeout, tags, label: attributes of feature mixins, absent here *)

Definition trans_attr (t : trans) (k : string) : option aval :=
  if k =? "source" then truthy_str (t_source t)
  else if k =? "dest" then match t_dest t with Some d => truthy_str d | None => None end
  else if k =? "prepare" then truthy_list (t_prepare t)
  else if k =? "before" then truthy_list (t_before t)
  else if k =? "after" then truthy_list (t_after t)
  else None.     (* label: absent *)

Definition conv_trans (et : string * trans) : ktrans :=
  let t := snd et in
  mkKT (convert (trans_attr t) transition_attributes) (fst et)
       (opt_list (clean (t_conditions t))) (opt_list (clean (t_unless t))).

(* all state paths below a list of states (get_nested_state_names without the prefix) *)
Fixpoint paths_st (s : state) : list (list string) :=
  [s_name s] :: map (cons (s_name s)) (flat_map paths_st (s_children s)).
Definition paths (sts : list state) : list (list string) := flat_map paths_st sts.
Definition join (p : list string) : string := String.concat "_" p.

(* get_state(name) succeeds?  flat: a registered name.  HSM: the name split at the
   separator resolves in the current scope, or (more than one element) from the root. *)
Definition is_state_name (hsm : bool) (scope root : list state) (n : string) : bool :=
  if hsm then
    existsb (fun p => join p =? n) (paths scope)
    || existsb (fun p => Nat.ltb 1 (List.length p) && (join p =? n)) (paths root)
  else existsb (fun s => s_name s =? n) scope.

(* _is_auto_transition: 'to_' prefix, as many sources as states in scope, suffix is a state *)
Definition is_auto (hsm : bool) (scope root : list state) (ev : string * srcmap) : bool :=
  prefix "to_" (fst ev)
  && Nat.eqb (List.length (snd ev)) (List.length scope)
  && is_state_name hsm scope root (substring 3 (String.length (fst ev) - 3) (fst ev)).

Definition conv_events (omit : string * srcmap -> bool) (evs : events) : list ktrans :=
  map conv_trans (flatten (filter (fun ev => negb (omit ev)) evs)).

Fixpoint conv_state (hsm : bool) (root : list state) (s : state) : kstate :=
  let a := convert (state_attr hsm s) state_attributes in
  match s_children s with
  | [] => KState (s_name s) a false None [] []
  | ch => KState (s_name s) a true (truthy_init (s_initial s))
                 (conv_events (is_auto hsm ch root) (s_events s))
                 (map (conv_state hsm root) ch)
  end.

Definition conv_model (md : model) : kmodel := mkKM (md_state md) (md_class md).

Definition conv_transitions (m : machine) : list ktrans :=
  conv_events (is_auto (m_hsm m) (m_states m) (m_states m)) (m_events m).
Definition conv_states (m : machine) : list kstate :=
  map (conv_state (m_hsm m) (m_states m)) (m_states m).
Definition conv_name (m : machine) : option string :=
  if m_name m =? "" then None else Some (m_name m).

(* The specification: the markup of machine [m] computed from scratch. *)
Definition to_markup (m : machine) : markup :=
  mkMarkup (clean (m_bsc m)) (clean (m_asc m)) (clean (m_pe m)) (clean (m_fe m))
           (clean (m_oe m)) (clean (m_of m))
           (m_send m) (m_auto m) (m_attr m) (m_override m) (m_ignore m) (m_queued m)
           (map conv_model (m_models m))
           (truthy_init (m_initial m)) (conv_name m)
           (conv_transitions m) (conv_states m).

(* ------------------------------------------------------------------ automatic events *)
(* core.Machine.add_states names the automatic events to_<attr>_<state> when
   model_attribute <> 'state'; _is_auto_transition does not recognise them, so they are
   exported.  Only in that mode they are kept in the event table. *)
Definition exports_auto (hsm auto : bool) (attr : string) : bool :=
  negb hsm && auto && negb (attr =? "state").
Definition auto_name (attr x : string) : string := ("to_" ++ attr ++ "_" ++ x)%string.
Definition auto_trans (s d : string) : trans := mkTrans s (Some d) [] [] [] [] [].
(* the loop of add_states after registering the new state [n] ([olds]: names before it) *)
Definition auto_add (attr : string) (olds : list string) (n : string) (evs : events) : events :=
  fold_left (fun acc a =>
               if a =? n then
                 fold_left (fun acc' s => ins_ev (auto_name attr n) (auto_trans s n) acc') (olds ++ [n]) acc
               else ins_ev (auto_name attr a) (auto_trans n a) acc)
            (olds ++ [n]) evs.
Fixpoint auto_add_all (attr : string) (olds news : list string) (evs : events) : events :=
  match news with
  | [] => evs
  | n :: r => auto_add_all attr (olds ++ [n]) r (auto_add attr olds n evs)
  end.

(* ------------------------------------------------------------------ of_markup *)
Definition of_ktrans (k : ktrans) : string * trans :=
  (kt_trigger k,
   mkTrans (a_str "source" (kt_attrs k)) (a_optstr "dest" (kt_attrs k))
           (match kt_conditions k with Some l => l | None => [] end)
           (match kt_unless k with Some l => l | None => [] end)
           (a_list "prepare" (kt_attrs k)) (a_list "before" (kt_attrs k)) (a_list "after" (kt_attrs k))).

Definition build_events (l : list ktrans) : events := add_all (map of_ktrans l) [].

(* add_states on a dict: 'ignore_invalid_triggers' defaults to the machine's flag *)
Fixpoint of_kstate (mign : option bool) (k : kstate) : state :=
  State (ks_name k)
        (a_list "on_enter" (ks_attrs k)) (a_list "on_exit" (ks_attrs k)) (a_list "on_final" (ks_attrs k))
        (match assoc "ignore_invalid_triggers" (ks_attrs k) with Some (ABool b) => Some b | _ => mign end)
        (match assoc "final" (ks_attrs k) with Some (ABool b) => b | _ => false end)
        (ks_initial k)
        (map (of_kstate mign) (ks_children k))
        (build_events (ks_transitions k)).

(* add_model(cls(), initial): HierarchicalMachine resolves a state name down its
   initial substates (_resolve_initial); a list (parallel configuration) is taken as is *)
Fixpoint find_state (n : string) (l : list state) : option state :=
  match l with
  | [] => None
  | s :: r => if s_name s =? n then Some s else find_state n r
  end.
Fixpoint descend (p : list string) (sts : list state) : option state :=
  match p with
  | [] => None
  | [n] => find_state n sts
  | n :: r => match find_state n sts with Some s => descend r (s_children s) | None => None end
  end.
Definition init_names (i : init) : list string :=
  match i with None => [] | Some (inl s) => if s =? "" then [] else [s] | Some (inr l) => l end.
Fixpoint resolve_st (fuel : nat) (s : state) (prefix : list string) : mstate :=
  let p := prefix ++ [s_name s] in
  match fuel with
  | 0 => MS p
  | S f =>
      match init_names (s_initial s) with
      | [] => MS p
      | names =>
          let ent := flat_map (fun n => match find_state n (s_children s) with
                                        | Some c => [resolve_st f c p] | None => [] end) names in
          match ent with [x] => x | _ => ML ent end
      end
  end.
Fixpoint depth_st (s : state) : nat := S (fold_right Nat.max 0 (map depth_st (s_children s))).
Definition depth (sts : list state) : nat := fold_right Nat.max 0 (map depth_st sts).
Definition resolve_model (hsm : bool) (sts : list state) (ms : mstate) : mstate :=
  match ms with
  | MS p => if hsm then match descend p sts with
                        | Some s => resolve_st (depth sts) s (removelast p)
                        | None => ms end
            else ms
  | ML _ => ms
  end.
Definition of_kmodel (hsm : bool) (sts : list state) (k : kmodel) : model :=
  mkModel (resolve_model hsm sts (km_state k)) (km_class k).

Definition default_initial_state (mign : option bool) : state :=
  State "initial" [] [] [] mign false None [] [].

(* Machine.__init__(model=None, **markup) followed by _add_markup_model for each model.
   A missing 'initial' key means the constructor default 'initial', which is added as a
   state when it is not registered. *)
Definition of_markup (hsm : bool) (k : markup) : machine :=
  let sts0 := map (of_kstate (k_ignore k)) (k_states k) in
  let sts := match k_initial k with
             | None => if existsb (fun s => s_name s =? "initial") sts0 then sts0
                       else sts0 ++ [default_initial_state (k_ignore k)]
             | Some _ => sts0 end in
  let ini := match k_initial k with None => Some (inl "initial") | i => i end in
  let evs0 := if exports_auto hsm (k_auto k) (k_attr k)
              then auto_add_all (k_attr k) [] (map s_name sts) [] else [] in
  mkMachine hsm sts (add_all (map of_ktrans (k_transitions k)) evs0) ini
            (match k_name k with Some n => n | None => "" end)
            (k_bsc k) (k_asc k) (k_pe k) (k_fe k) (k_oe k) (k_of k)
            (k_send k) (k_auto k) (k_attr k) (k_override k) (k_ignore k) (k_queued k)
            (map (of_kmodel hsm sts) (k_models k)).

(* ------------------------------------------------------------------ operations *)
Inductive dest_spec := DSame | DNone | DTo (s : string).

Inductive op :=
| OGet                                                   (* read machine.markup *)
| OAddState (scope : list string) (k : kstate)           (* [with machine(scope):] add_states(dict) *)
| OAddTrans (scope : list string) (trg : string) (src : option (list string)) (dst : dest_spec)
            (conds unl prep bef aft : list string)       (* add_transition; src None = '*' *)
| ORemTrans (trg : string) (src dst : option (list string))   (* remove_transition; None = '*' *)
| ORegState (kind : nat) (path : list string) (cb : string)   (* machine.on_enter_<state>(cb) / on_exit_ / on_final_ *)
| ORegEvent (kind : nat) (trg : string) (cb : string)         (* machine.before_<trigger>(cb) / after_ / prepare_ *)
| OSetModel (i : nat) (st : mstate)                      (* a model moved to another state *)
| OAddModel (cls : string) (st : mstate)                 (* add_model(cls(), initial=st) *)
| ODirectState (kind : nat) (path : list string) (cb : string)  (* HSM machine.on_enter(state, cb) / on_exit(state, cb) *)
| OSetList (which : nat) (l : list string).              (* machine.<list> = l after construction *)

(* apply [f] to the scope (states, events) reached by [p] *)
Fixpoint upd_at (p : list string) (f : list state * events -> list state * events)
                (sc : list state * events) : list state * events :=
  match p with
  | [] => f sc
  | n :: r =>
      (map (fun s => if s_name s =? n then
                       let sc' := upd_at r f (s_children s, s_events s) in
                       State (s_name s) (s_on_enter s) (s_on_exit s) (s_on_final s) (s_ignore s)
                             (s_final s) (s_initial s) (fst sc') (snd sc')
                     else s) (fst sc), snd sc)
  end.

Definition add_transition_sc (trg : string) (src : option (list string)) (dst : dest_spec)
           (conds unl prep bef aft : list string) (sc : list state * events) : list state * events :=
  let srcs := match src with None => map s_name (fst sc) | Some l => l end in
  (fst sc,
   fold_left (fun evs s =>
                ins_ev trg (mkTrans s (match dst with DSame => Some s | DNone => None | DTo d => Some d end)
                                    conds unl prep bef aft) evs) srcs (snd sc)).

(* core.Machine.remove_transition *)
Definition keep_trans (src dst : option (list string)) (t : trans) : bool :=
  (match src with Some l => negb (memb (t_source t) l) | None => false end)
  || (match dst with
      | Some l => match t_dest t with Some d => negb (memb d l) | None => true end
      | None => false end).
Definition rem_flat (trg : string) (src dst : option (list string)) (evs : events) : events :=
  flat_map (fun ev =>
    if fst ev =? trg then
      let sm := filter (fun st => match snd st with [] => false | _ => true end)
                       (map (fun st => (fst st, filter (keep_trans src dst) (snd st))) (snd ev)) in
      match sm with [] => [] | _ => [(fst ev, sm)] end
    else [ev]) evs.
(* HierarchicalMachine.remove_transition(trigger): the trigger disappears from every scope *)
Definition rem_key (trg : string) (evs : events) : events :=
  filter (fun ev => negb (fst ev =? trg)) evs.
Fixpoint rem_all_st (trg : string) (s : state) : state :=
  State (s_name s) (s_on_enter s) (s_on_exit s) (s_on_final s) (s_ignore s) (s_final s) (s_initial s)
        (map (rem_all_st trg) (s_children s)) (rem_key trg (s_events s)).

Definition add_cb_state (kind : nat) (cb : string) (s : state) : state :=
  State (s_name s)
        (if Nat.eqb kind 0 then s_on_enter s ++ [cb] else s_on_enter s)
        (if Nat.eqb kind 1 then s_on_exit s ++ [cb] else s_on_exit s)
        (if Nat.eqb kind 2 then s_on_final s ++ [cb] else s_on_final s)
        (s_ignore s) (s_final s) (s_initial s) (s_children s) (s_events s).
Fixpoint upd_state (p : list string) (f : state -> state) (sts : list state) : list state :=
  match p with
  | [] => sts
  | [n] => map (fun s => if s_name s =? n then f s else s) sts
  | n :: r => map (fun s => if s_name s =? n then
                              State (s_name s) (s_on_enter s) (s_on_exit s) (s_on_final s) (s_ignore s)
                                    (s_final s) (s_initial s) (upd_state r f (s_children s)) (s_events s)
                            else s) sts
  end.
Definition add_cb_trans (kind : nat) (cb : string) (t : trans) : trans :=
  mkTrans (t_source t) (t_dest t) (t_conditions t) (t_unless t)
          (if Nat.eqb kind 2 then t_prepare t ++ [cb] else t_prepare t)
          (if Nat.eqb kind 0 then t_before t ++ [cb] else t_before t)
          (if Nat.eqb kind 1 then t_after t ++ [cb] else t_after t).
Definition reg_event (kind : nat) (trg cb : string) (evs : events) : events :=
  map (fun ev => if fst ev =? trg then
                   (fst ev, map (fun st => (fst st, map (add_cb_trans kind cb) (snd st))) (snd ev))
                 else ev) evs.

Fixpoint set_nth {A} (i : nat) (x : A) (l : list A) : list A :=
  match l, i with
  | [], _ => []
  | _ :: r, 0 => x :: r
  | y :: r, S j => y :: set_nth j x r
  end.

(* every operation of the envelope changes only states / events / models *)
Definition set_body (m : machine) (sts : list state) (evs : events) (mds : list model) : machine :=
  mkMachine (m_hsm m) sts evs (m_initial m) (m_name m) (m_bsc m) (m_asc m) (m_pe m) (m_fe m)
            (m_oe m) (m_of m) (m_send m) (m_auto m) (m_attr m) (m_override m) (m_ignore m)
            (m_queued m) mds.
Definition set_list (m : machine) (which : nat) (l : list string) : machine :=
  mkMachine (m_hsm m) (m_states m) (m_events m) (m_initial m) (m_name m)
            (if Nat.eqb which 0 then l else m_bsc m) (if Nat.eqb which 1 then l else m_asc m)
            (if Nat.eqb which 2 then l else m_pe m) (if Nat.eqb which 3 then l else m_fe m)
            (if Nat.eqb which 4 then l else m_oe m) (if Nat.eqb which 5 then l else m_of m)
            (m_send m) (m_auto m) (m_attr m) (m_override m) (m_ignore m) (m_queued m) (m_models m).

Definition apply_op (o : op) (m : machine) : machine :=
  match o with
  | OGet => m
  | OAddState sc k =>
      let r := upd_at sc (fun x => (fst x ++ [of_kstate (m_ignore m) k], snd x)) (m_states m, m_events m) in
      set_body m (fst r)
               (if exports_auto (m_hsm m) (m_auto m) (m_attr m)
                then auto_add (m_attr m) (map s_name (m_states m)) (ks_name k) (snd r) else snd r)
               (m_models m)
  | OAddTrans sc trg src dst c u p b a =>
      let r := upd_at sc (add_transition_sc trg src dst c u p b a) (m_states m, m_events m) in
      set_body m (fst r) (snd r) (m_models m)
  | ORemTrans trg src dst =>
      if m_hsm m then set_body m (map (rem_all_st trg) (m_states m)) (rem_key trg (m_events m)) (m_models m)
      else set_body m (m_states m) (rem_flat trg src dst (m_events m)) (m_models m)
  | ORegState kind p cb | ODirectState kind p cb =>
      set_body m (upd_state p (add_cb_state kind cb) (m_states m)) (m_events m) (m_models m)
  | ORegEvent kind trg cb => set_body m (m_states m) (reg_event kind trg cb (m_events m)) (m_models m)
  | OSetModel i st =>
      set_body m (m_states m) (m_events m)
               (match nth_error (m_models m) i with
                | Some md => set_nth i (mkModel st (md_class md)) (m_models m)
                | None => m_models m end)
  | OAddModel cls st =>
      set_body m (m_states m) (m_events m)
               (m_models m ++ [mkModel (resolve_model (m_hsm m) (m_states m) st) cls])
  | OSetList w l => set_list m w l
  end.

(* does the operation set _needs_update? *)
Definition invalidates (o : op) : bool :=
  match o with
  | OAddState _ _ | OAddTrans _ _ _ _ _ _ _ _ _ | ORemTrans _ _ _ | ORegState _ _ _ | ORegEvent _ _ _
  | ODirectState _ _ _ => true
  | _ => false
  end.
(* operations the property speaks about (states, transitions, callbacks added or removed
   through the machine's API; models moving) *)
Definition op_in_envelope (o : op) : bool :=
  match o with OSetList _ _ => false | _ => true end.

(* ------------------------------------------------------------------ the cache automaton *)
Record mm := mkMM { mach : machine; cache : markup; dirty : bool }.

Definition set_models (c : markup) (l : list kmodel) : markup :=
  mkMarkup (k_bsc c) (k_asc c) (k_pe c) (k_fe c) (k_oe c) (k_of c) (k_send c) (k_auto c) (k_attr c)
           (k_override c) (k_ignore c) (k_queued c) l (k_initial c) (k_name c) (k_transitions c) (k_states c).
(* _convert_states_and_transitions(self._markup) at the root *)
Definition refresh (m : machine) (c : markup) : markup :=
  mkMarkup (k_bsc c) (k_asc c) (k_pe c) (k_fe c) (k_oe c) (k_of c) (k_send c) (k_auto c) (k_attr c)
           (k_override c) (k_ignore c) (k_queued c) (k_models c)
           (match truthy_init (m_initial m) with None => k_initial c | i => i end)
           (match conv_name m with None => k_name c | n => n end)
           (conv_transitions m) (conv_states m).

(* the `markup` property *)
Definition getter (x : mm) : mm * markup :=
  let c1 := set_models (cache x) (map conv_model (m_models (mach x))) in
  let c2 := if dirty x then refresh (mach x) c1 else c1 in
  (mkMM (mach x) c2 false, c2).

Definition step (x : mm) (o : op) : mm :=
  match o with
  | OGet => fst (getter x)
  | _ => mkMM (apply_op o (mach x)) (cache x) (dirty x || invalidates o)
  end.
Definition run_ops (ops : list op) (x : mm) : mm := fold_left step ops x.

(* MarkupMachine(states=..., transitions=..., **options): the description is given in the
   shape of a markup dict; machine-level lists and options are captured here, once *)
Definition construct (hsm : bool) (d : markup) : mm :=
  let m := of_markup hsm d in
  mkMM m (mkMarkup (clean (m_bsc m)) (clean (m_asc m)) (clean (m_pe m)) (clean (m_fe m))
                   (clean (m_oe m)) (clean (m_of m)) (m_send m) (m_auto m) (m_attr m) (m_override m)
                   (m_ignore m) (m_queued m) [] None None [] [])
       true.
(* MarkupMachine(markup=d): the passed dict itself becomes the cache *)
Definition construct_markup (hsm : bool) (d : markup) : mm := mkMM (of_markup hsm d) d true.

(* ------------------------------------------------------------------ the envelope (wf) *)
Definition names_ok (l : list string) : bool := forallb nonempty_str l.

Definition wf_trans (src : string) (t : trans) : bool :=
  (t_source t =? src) && nonempty_str src
  && (match t_dest t with Some d => nonempty_str d | None => true end)
  && names_ok (t_conditions t) && names_ok (t_unless t).
Fixpoint nodupb (l : list string) : bool :=
  match l with [] => true | x :: r => negb (memb x r) && nodupb r end.
Definition wf_srcmap (sm : srcmap) : bool :=
  nodupb (map fst sm)
  && forallb (fun st => match snd st with [] => false | _ => true end && forallb (wf_trans (fst st)) (snd st)) sm.
(* canonical event table: distinct triggers, distinct sources, no empty entry, and no user
   event that the auto-transition heuristic would swallow *)
Definition wf_events (omit : string * srcmap -> bool) (evs : events) : bool :=
  nodupb (map fst evs)
  && forallb (fun ev => match snd ev with [] => false | _ => true end && wf_srcmap (snd ev) && negb (omit ev)) evs.

Definition flag_ok (mign : option bool) (f : option bool) : bool :=
  match f, mign with
  | Some true, _ => true
  | Some false, Some false => true
  | None, None => true
  | _, _ => false
  end.
Definition wf_init (i : init) : bool :=
  match i with Some (inl s) => nonempty_str s | Some (inr []) => false | _ => true end.

Fixpoint wf_state (hsm : bool) (mign : option bool) (root : list state) (s : state) : bool :=
  flag_ok mign (s_ignore s) && wf_init (s_initial s)
  && (if hsm then true else match s_on_final s with [] => true | _ => false end)
  && match s_children s with
     | [] => match s_initial s, s_events s with None, [] => true | _, _ => false end
     | ch => hsm && wf_events (is_auto hsm ch root) (s_events s)
             && forallb (wf_state hsm mign root) ch
     end.

Fixpoint strs_eqb (x y : list string) : bool :=
  match x, y with
  | [], [] => true
  | u :: x', v :: y' => (u =? v) && strs_eqb x' y'
  | _, _ => false
  end.
Fixpoint mstate_eqb (a b : mstate) : bool :=
  match a, b with
  | MS p, MS q => strs_eqb p q
  | ML l, ML k => (fix eq (x y : list mstate) : bool :=
                     match x, y with
                     | [], [] => true
                     | u :: x', v :: y' => mstate_eqb u v && eq x' y'
                     | _, _ => false end) l k
  | _, _ => false
  end.

Definition wf_machine (m : machine) : bool :=
  forallb (wf_state (m_hsm m) (m_ignore m) (m_states m)) (m_states m)
  && wf_events (is_auto (m_hsm m) (m_states m) (m_states m)) (m_events m)
  && names_ok (m_bsc m) && names_ok (m_asc m) && names_ok (m_pe m) && names_ok (m_fe m)
  && names_ok (m_oe m) && names_ok (m_of m)
  && match m_initial m with None => false | i => wf_init i end
  && forallb (fun md => mstate_eqb (resolve_model (m_hsm m) (m_states m) (md_state md)) (md_state md))
             (m_models m)
  (* flat machines with auto transitions and a custom model_attribute export their auto
     transitions (to_<attr>_<state> escapes the heuristic): outside the envelope *)
  && (m_hsm m || negb (m_auto m) || (m_attr m =? "state")).

(* the effective flag read by Event._is_valid_source / _check_event_result *)
Definition eff_ignore (mign : option bool) (f : option bool) : bool :=
  match f with Some b => b | None => match mign with Some b => b | None => false end end.
