(* Queue.v — Machine._process with queued=True, and Machine.remove_model, over an abstract
   "process one event" step.  Entries carry a ghost arrival number (the n-th trigger call
   of the history, counted from 0) so that FIFO / exactly-once can be stated.
   Definitions only. *)
From Coq Require Import List Arith Bool.
From M Require Import Base.
Import ListNotations.

Record qentry : Type := mkQ {
  q_id : nat;            (* ghost: arrival number *)
  q_model : model;
  q_event : event;
  q_payload : nat
}.

(* why a pending entry never ran *)
Inductive drop_reason : Type :=
| DroppedByRemove (m : model) (during : nat)     (* remove_model m performed while entry [during] was in progress *)
| DroppedByRaise (during : nat).                 (* entry [during] raised: queue cleared *)

Record block (T : Type) : Type := mkBlock {
  b_entry : qentry;
  b_trace : T;                       (* what processing the entry produced *)
  b_raised : option exn
}.
Arguments mkBlock {T}. Arguments b_entry {T}. Arguments b_trace {T}. Arguments b_raised {T}.

Section Queue.
  Context {W T : Type}.
  (* processing one entry in world w: its trace, the actions its callbacks performed (in
     order), whether it raised, and the new world *)
  Variable step : W -> qentry -> (T * list action * option exn * W).
  (* payload attached to the k-th action of entry e *)
  Variable act_payload : qentry -> nat -> nat.

  Record qstate : Type := mkQS {
    qs_queue : list qentry;                    (* head = entry in progress while draining *)
    qs_models : list model;                    (* registered models *)
    qs_next : nat;                             (* next arrival number *)
    qs_dropped : list (qentry * drop_reason)   (* ghost log *)
  }.

  Definition remove_model_list (ms : list model) (m : model) : list model :=
    filter (fun x => negb (Nat.eqb x m)) ms.

  (* one action performed by a callback while [cur] (the head) is in progress *)
  Definition apply_action (cur : qentry) (k : nat) (a : action) (s : qstate) : qstate :=
    match a with
    | ATrigger m e =>
        (* Machine._process: append; another entry is in the queue -> return True *)
        mkQS (qs_queue s ++ [mkQ (qs_next s) m e (act_payload cur k)]) (qs_models s)
             (S (qs_next s)) (qs_dropped s)
    | ARemoveModel m =>
        (* (the harness only removes registered models) Machine.remove_model: keep the head,
           drop the pending entries of m *)
        if negb (existsb (Nat.eqb m) (qs_models s)) then s else
        match qs_queue s with
        | [] => mkQS [] (remove_model_list (qs_models s) m) (qs_next s) (qs_dropped s)
        | h :: tl =>
            mkQS (h :: filter (fun x => negb (Nat.eqb (q_model x) m)) tl)
                 (remove_model_list (qs_models s) m) (qs_next s)
                 (qs_dropped s ++
                  map (fun x => (x, DroppedByRemove m (q_id cur)))
                      (filter (fun x => Nat.eqb (q_model x) m) tl))
        end
    end.

  Fixpoint apply_actions (cur : qentry) (k : nat) (acts : list action) (s : qstate) : qstate :=
    match acts with
    | [] => s
    | a :: r => apply_actions cur (S k) r (apply_action cur k a s)
    end.

  (* the drain loop of Machine._process; fuel bounds the number of processed entries *)
  Fixpoint drain (fuel : nat) (w : W) (s : qstate) : option (list (block T) * option exn * W * qstate) :=
    match fuel with
    | 0 => None
    | S f =>
        match qs_queue s with
        | [] => Some ([], None, w, s)
        | h :: _ =>
            match step w h with
            | (tr, acts, r, w') =>
                let s1 := apply_actions h 0 acts s in
                match r with
                | Some e =>
                    (* clear the queue, re-raise *)
                    let s2 := mkQS [] (qs_models s1) (qs_next s1)
                                   (qs_dropped s1 ++ map (fun x => (x, DroppedByRaise (q_id h))) (tl (qs_queue s1))) in
                    Some ([mkBlock h tr (Some e)], Some e, w', s2)
                | None =>
                    let s2 := mkQS (tl (qs_queue s1)) (qs_models s1) (qs_next s1) (qs_dropped s1) in
                    match drain f w' s2 with
                    | None => None
                    | Some (bs, r', w'', s3) => Some (mkBlock h tr None :: bs, r', w'', s3)
                    end
                end
            end
        end
    end.

  (* a trigger call arriving from outside while the queue is empty *)
  Definition top_trigger (fuel : nat) (w : W) (s : qstate) (m : model) (e : event) (a : nat)
    : option (list (block T) * option exn * W * qstate) :=
    let s1 := mkQS (qs_queue s ++ [mkQ (qs_next s) m e a]) (qs_models s) (S (qs_next s)) (qs_dropped s) in
    drain fuel w s1.
End Queue.
