(* Flat.v — the flat machine of transitions/core.py: Event.trigger/_trigger/_process/
   _is_valid_source, Transition.execute/_eval_conditions/_change_state,
   Machine._get_trigger/_can_trigger.  One event on one model, callbacks given by env.
   Definitions only. *)
From Coq Require Import List Arith Bool.
From M Require Import Base.
Import ListNotations.

Record trans : Type := mkTrans {
  t_src : state;
  t_dst : option state;                (* None: internal transition *)
  t_prepare : list cbid;
  t_conds : list (cbid * bool);        (* conditions (target true) then unless (target false) *)
  t_before : list cbid;
  t_after : list cbid
}.

Record sdef : Type := mkSdef {
  s_enter : list cbid;
  s_exit : list cbid;
  s_final : bool;
  s_ignore : option bool               (* State.ignore_invalid_triggers *)
}.

Record machine : Type := mkMachine {
  m_states : list (state * sdef);              (* registered states *)
  m_events : list (event * list trans);        (* per event, transitions in definition order *)
  m_prepare_event : list cbid;
  m_before_sc : list cbid;
  m_after_sc : list cbid;
  m_finalize : list cbid;
  m_on_exception : list cbid;
  m_on_final : list cbid;
  m_ignore : bool;                             (* Machine.ignore_invalid_triggers *)
  m_send_event : bool
}.

Fixpoint lookup {A} (l : list (nat * A)) (k : nat) : option A :=
  match l with
  | [] => None
  | (k', v) :: r => if Nat.eqb k k' then Some v else lookup r k
  end.

Definition get_state (mc : machine) (s : state) : option sdef := lookup (m_states mc) s.

(* Event.transitions[source]: the transitions of the event whose source is [s], in
   definition order. *)
Definition candidates (ts : list trans) (s : state) : list trans :=
  filter (fun t => Nat.eqb (t_src t) s) ts.

Definition ignores (mc : machine) (sd : sdef) : bool :=
  match s_ignore sd with Some b => b | None => m_ignore mc end.

Section Engine.
  Variable mc : machine.
  Variable ev : env.
  Variable c : ctx.

  Notation call := (call (S:=state) (fun s => s) ev c).
  Notation run_cbs := (run_cbs (S:=state) (fun s => s) ev c).
  Notation eval_conds := (eval_conds (S:=state) (fun s => s) ev c).

  (* Transition._change_state *)
  Definition change_state (t : trans) (dst : state) : M (S:=state) unit :=
    match get_state mc (t_src t) with
    | None => raise ValueError
    | Some src_def =>
        run_cbs SExit None (s_exit src_def) ;;;
        match get_state mc dst with
        | None => raise ValueError                      (* set_state -> get_state fails *)
        | Some dst_def =>
            put dst ;;;
            run_cbs SEnter None (s_enter dst_def) ;;;
            if s_final dst_def then run_cbs SOnFinal None (m_on_final mc) else ret tt
        end
    end.

  (* Transition.execute *)
  Definition execute (t : trans) : M (S:=state) bool :=
    run_cbs SPrepare None (t_prepare t) ;;;
    ok <- eval_conds (t_conds t) ;;
    if ok then
      run_cbs SBeforeSC None (m_before_sc mc) ;;;
      run_cbs SBefore None (t_before t) ;;;
      match t_dst t with Some d => change_state t d | None => ret tt end ;;;
      run_cbs SAfter None (t_after t) ;;;
      run_cbs SAfterSC None (m_after_sc mc) ;;;
      ret true
    else ret false.

  (* the loop of Event._process *)
  Fixpoint try_transitions (ts : list trans) : M (S:=state) bool :=
    match ts with
    | [] => ret false
    | t :: rest => ok <- execute t ;; if ok then ret true else try_transitions rest
    end.

  (* Event._process *)
  Definition process (ts : list trans) (cur : state) : M (S:=state) bool :=
    run_cbs SPrepareEvent None (m_prepare_event mc) ;;;
    try_transitions (candidates ts cur).

  (* Event._is_valid_source followed by _process *)
  Definition checked_process (ts : list trans) (cur : state) (sd : sdef) : M (S:=state) bool :=
    match candidates ts cur with
    | [] => if ignores mc sd then ret false else raise MachineError
    | _ => process ts cur
    end.

  (* Event._trigger *)
  Definition trigger_event (ts : list trans) : M (S:=state) bool :=
    cur <- get ;;
    match get_state mc cur with
    | None => raise ValueError                          (* get_model_state, outside the try *)
    | Some sd =>
        try_except_finally
          (checked_process ts cur sd)
          (fun e =>
             match m_on_exception mc with
             | [] => raise e
             | hs => run_cbs SOnException (Some e) hs ;;; ret false
             end)
          (fun err => run_cbs SFinalize err (m_finalize mc))
    end.

  (* Machine._get_trigger: model.trigger(name) *)
  Definition trigger (e : event) : M (S:=state) bool :=
    match lookup (m_events mc) e with
    | Some ts => trigger_event ts
    | None =>
        cur <- get ;;
        match get_state mc cur with
        | None => raise ValueError
        | Some sd => if ignores mc sd then ret false else raise AttributeError
        end
    end.

  (* Machine._can_trigger: may_<event>() / may_trigger(name) *)
  Definition dest_ok (t : trans) : bool :=
    match t_dst t with
    | None => true
    | Some d => match get_state mc d with Some _ => true | None => false end
    end.

  (* all(c.check(..) for c in conditions): stops at the first failing check *)
  (* one iteration of the candidate loop *)
  Definition can_one (t : trans) : M (S:=state) bool :=
    try_catch
      (run_cbs SPrepareEvent None (m_prepare_event mc) ;;;
       run_cbs SPrepare None (t_prepare t) ;;;
       eval_conds (t_conds t))
      (fun e =>
         match m_on_exception mc with
         | [] => raise e
         | hs => run_cbs SOnException (Some e) hs ;;; ret false
         end).

  Fixpoint can_loop (ts : list trans) : M (S:=state) bool :=
    match ts with
    | [] => ret false
    | t :: rest =>
        if dest_ok t then (ok <- can_one t ;; if ok then ret true else can_loop rest)
        else can_loop rest
    end.

  Definition can_trigger (e : event) : M (S:=state) bool :=
    cur <- get ;;
    match get_state mc cur with
    | None => raise ValueError
    | Some _ =>
        match lookup (m_events mc) e with
        | Some ts => can_loop (candidates ts cur)
        | None => ret false
        end
    end.
End Engine.

(* Running a whole call: result as an outcome. *)
Definition run_call {A} (m : M (S:=state) A) (pos : nat) (s : state)
  : list item * state * (exn + A) := m pos s.

Definition to_outcome (r : exn + bool) : outcome :=
  match r with inl e => OExn e | inr b => ORet b end.

Definition of_outcome (o : outcome) : exn + bool :=
  match o with OExn e => inl e | ORet b => inr b end.
