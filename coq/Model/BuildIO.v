(* BuildIO.v — decoding of construction-script cases and encoding of the observation
   (structure of the machine built by each of the two scripts + a history run on it). *)
From Coq Require Import List Arith Bool.
From M Require Import Sx Base Flat FlatIO Build.
Import ListNotations.

Definition d_cbref (x : sx) : option cbref :=
  match x with
  | L [N 0; N c] => Some (ByName c) | L [N 1; N c] => Some (ByRef c)
  | L [N 2; N c] => Some (ByPath c) | L [N 3; N c] => Some (ByProp c)
  | _ => None
  end.
Definition d_cbspec (x : sx) : option cbspec :=
  match x with
  | L [N 0] => Some CNone
  | L [N 1; r] => do r' <- d_cbref r; Some (COne r')
  | L [N 2; l] => do l' <- d_list d_cbref l; Some (CList l')
  | _ => None
  end.
Definition d_sref (x : sx) : option sref :=
  match x with
  | L [N 0; N n] => Some (RName n) | L [N 1; N n] => Some (REnum n) | L [N 2; N n] => Some (RObj n)
  | _ => None
  end.
Definition d_sform (x : sx) : option sform :=
  match x with
  | L [N 0; N n] => Some (SName n)
  | L [N 1; N n] => Some (SEnum n)
  | L [N 2; N n; en; ex; fin; ign] =>
      do en' <- d_cbspec en; do ex' <- d_cbspec ex; do f <- d_bool fin;
      do i <- d_option (d_option d_bool) ign; Some (SDict n en' ex' f i)
  | L [N 3; N n; en; ex; fin; ign] =>
      do en' <- d_cbspec en; do ex' <- d_cbspec ex; do f <- d_bool fin;
      do i <- d_option d_bool ign; Some (SObj n en' ex' f i)
  | _ => None
  end.
Definition d_srcspec (x : sx) : option srcspec :=
  match x with
  | L [N 0] => Some SrcWild
  | L [N 1; r] => do r' <- d_sref r; Some (SrcOne r')
  | L [N 2; l] => do l' <- d_list d_sref l; Some (SrcMany l')
  | _ => None
  end.
Definition d_dstspec (x : sx) : option dstspec :=
  match x with
  | L [N 0] => Some DstSame
  | L [N 1; r] => do r' <- d_sref r; Some (DstTo r')
  | L [N 2] => Some DstNone
  | _ => None
  end.
Definition d_tcbs (x : sx) : option tcbs :=
  match x with
  | L [c; u; b; a; p] =>
      do c' <- d_cbspec c; do u' <- d_cbspec u; do b' <- d_cbspec b; do a' <- d_cbspec a;
      do p' <- d_cbspec p; Some (mkTcbs c' u' b' a' p')
  | _ => None
  end.
Definition d_tspec (x : sx) : option tspec :=
  match x with
  | L [N trig; s; d; c] =>
      do s' <- d_srcspec s; do d' <- d_dstspec d; do c' <- d_tcbs c; Some (mkT trig s' d' c')
  | _ => None
  end.
Definition d_tform (x : sx) : option tform :=
  match x with
  | L [N 0; t] => do t' <- d_tspec t; Some (TPos t')
  | L [N 1; t] => do t' <- d_tspec t; Some (TKw t')
  | _ => None
  end.
Definition d_oarg (x : sx) : option oarg :=
  match x with
  | L [N 0] => Some ONone
  | L [N 1; r] => do r' <- d_cbref r; Some (OSingle r')
  | L [N 2; l] => do l' <- d_list d_cbspec l; Some (OList l')
  | _ => None
  end.
Definition d_ospec (x : sx) : option ospec :=
  match x with
  | L [sts; N trig; lp; incl; c; u; b; a; p] =>
      do sts' <- d_option (d_list d_sref) sts; do lp' <- d_bool lp; do incl' <- d_bool incl;
      do c' <- d_oarg c; do u' <- d_oarg u; do b' <- d_oarg b; do a' <- d_oarg a; do p' <- d_oarg p;
      Some (mkO sts' trig lp' incl' c' u' b' a' p')
  | _ => None
  end.
Definition d_filt {A} (d : sx -> option A) (x : sx) : option (filt A) :=
  match x with
  | L [N 0] => Some FWild
  | L [N 1; l] => do l' <- d_list d l; Some (FList l')
  | _ => None
  end.
Definition d_op (x : sx) : option op :=
  match x with
  | L [N 0; l; en; ex; ign; fin] =>
      do l' <- d_list d_sform l; do en' <- d_cbspec en; do ex' <- d_cbspec ex;
      do i <- d_option d_bool ign; do f <- d_bool fin; Some (AddStates l' en' ex' i f)
  | L [N 1; r] => do r' <- d_sref r; Some (SetInitial r')
  | L [N 2; t] => do t' <- d_tspec t; Some (AddTransition t')
  | L [N 3; l] => do l' <- d_list d_tform l; Some (AddTransitions l')
  | L [N 4; o] => do o' <- d_ospec o; Some (AddOrdered o')
  | L [N 5; N trig; fs; fd] =>
      do fs' <- d_filt d_sref fs; do fd' <- d_filt (d_option d_sref) fd;
      Some (RemoveTransition trig fs' fd')
  | L [N 6] => Some AddModel
  | _ => None
  end.
Definition d_hdr (x : sx) : option hdr :=
  match x with
  | L [hsm; auto; ign; send; pe; bsc; asc; fin; oe; ofi] =>
      do hsm' <- d_bool hsm; do auto' <- d_bool auto; do ign' <- d_option d_bool ign;
      do send' <- d_bool send; do pe' <- d_cbspec pe; do bsc' <- d_cbspec bsc; do asc' <- d_cbspec asc;
      do fin' <- d_cbspec fin; do oe' <- d_cbspec oe; do ofi' <- d_cbspec ofi;
      Some (mkHdr hsm' auto' ign' send' pe' bsc' asc' fin' oe' ofi')
  | _ => None
  end.

Definition e_trans (t : trans) : sx :=
  L [N (t_src t); e_option e_nat (t_dst t); e_list e_nat (t_prepare t);
     e_list (e_pair e_nat e_bool) (t_conds t); e_list e_nat (t_before t); e_list e_nat (t_after t)].
Definition e_sdef (p : state * sdef) : sx :=
  L [N (fst p); e_list e_nat (s_enter (snd p)); e_list e_nat (s_exit (snd p)); e_bool (s_final (snd p));
     e_option e_bool (s_ignore (snd p))].
Definition e_berr (e : berr) : sx := match e with EKey => N 0 | EValue => N 1 | EAttr => N 2 end.

(* machine.states, per trigger the source-keyed transition lists, machine.initial,
   get_triggers per state, the model's state *)
Definition structure (b : bm) : sx :=
  L [e_list e_sdef (b_states b);
     e_list (e_pair e_nat (e_list (e_pair e_nat (e_list e_trans)))) (b_events b);
     e_option e_nat (b_initial b);
     e_list (fun s => L [N s; e_list e_nat (get_triggers b s)]) (state_names b);
     e_option e_nat (b_model b)].

Definition observe (h : hdr) (ev : env) (hs : list hcall) (ctor_len : nat) (ops : list op) : sx :=
  match exec_idx ops (empty h) 0 with
  | (b, None) =>
      L [N 1; structure b;
         match b_model b with
         | Some s0 => L (run_history (flatten b) ev 0 hs 0 s0)
         | None => L []
         end]
  | (b, Some (e, i)) =>
      L [N 0; e_berr e; N i; if Nat.leb ctor_len i then L [structure b] else L []]
  end.

(* case := [hdr; [ctor_len_A; ops_A]; [ctor_len_B; ops_B]; env; history] *)
Definition run_build_case (x : sx) : sx :=
  match x with
  | L [hx; L [N la; ax]; L [N lb; bx]; evx; hsx] =>
      match d_hdr hx, d_list d_op ax, d_list d_op bx, d_env evx, d_list d_call hsx with
      | Some h, Some a, Some b, Some ev, Some hs =>
          L [N 1; observe h ev hs la a; observe h ev hs lb b]
      | _, _, _, _, _ => L [N 0]
      end
  | _ => L [N 0]
  end.
