(* Sx.v — a universal first-order data format (nested lists of naturals) used to
   carry generated cases into the extracted model and observations out of it.
   All per-model decoding is written in Gallina so that the OCaml driver stays a
   fixed, tiny, trusted reader/printer. *)
From Coq Require Import List Arith Bool.
Import ListNotations.

Inductive sx : Type := N (n : nat) | L (l : list sx).

Definition d_nat (x : sx) : option nat := match x with N n => Some n | L _ => None end.
Definition d_bool (x : sx) : option bool :=
  match x with N 0 => Some false | N 1 => Some true | _ => None end.
Definition d_list {A} (d : sx -> option A) (x : sx) : option (list A) :=
  match x with
  | N _ => None
  | L l => fold_right (fun y acc => match d y, acc with
                                     | Some a, Some r => Some (a :: r)
                                     | _, _ => None end) (Some []) l
  end.
Definition d_option {A} (d : sx -> option A) (x : sx) : option (option A) :=
  match x with
  | L [] => Some None
  | L [y] => match d y with Some a => Some (Some a) | None => None end
  | _ => None
  end.
Definition d_pair {A B} (da : sx -> option A) (db : sx -> option B) (x : sx) : option (A * B) :=
  match x with
  | L [a; b] => match da a, db b with Some u, Some v => Some (u, v) | _, _ => None end
  | _ => None
  end.

Definition e_nat (n : nat) : sx := N n.
Definition e_bool (b : bool) : sx := N (if b then 1 else 0).
Definition e_list {A} (e : A -> sx) (l : list A) : sx := L (map e l).
Definition e_option {A} (e : A -> sx) (o : option A) : sx :=
  match o with None => L [] | Some a => L [e a] end.
Definition e_pair {A B} (ea : A -> sx) (eb : B -> sx) (p : A * B) : sx :=
  L [ea (fst p); eb (snd p)].

(* option-monad notation used by decoders *)
Notation "'do' x <- m ; k" := (match m with Some x => k | None => None end)
  (at level 200, x pattern, m at level 100, k at level 200, right associativity).

(* finite-function decoders: association list with default *)
Fixpoint assoc_nat {A} (l : list (nat * A)) (k : nat) : option A :=
  match l with
  | [] => None
  | (k', v) :: r => if Nat.eqb k k' then Some v else assoc_nat r k
  end.
