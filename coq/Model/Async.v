(* Async.v — the flat asynchronous machine of transitions/extensions/asyncio.py, awaited
   one trigger at a time: AsyncMachine.await_all (asyncio.gather) / callbacks / callback,
   AsyncCondition.check, AsyncTransition._eval_conditions / execute / _change_state,
   AsyncEvent.trigger / _trigger / _process, AsyncMachine._can_trigger, process_context /
   _process_async (queued = False, True, 'model').  It is written separately from Flat.v
   because asyncio.py is a hand copy of core.py.

   What a user callback may do in addition to Base.reply is to SUSPEND: [susp cb = k] means
   that the callback is a coroutine that yields to the event loop k times (await
   asyncio.sleep(0)) before it returns or raises; k = 0 is a plain function or a coroutine
   that never yields (AsyncMachine.callback wraps both in one task, so they behave alike).

   ASSUMPTION (asyncio, not modelled further): the ready queue of the event loop is FIFO;
   gather() wraps its arguments in tasks in argument order; a task that yields with
   sleep(0) is re-queued behind every task that is already ready; the awaiting task resumes
   only when every gathered task has finished (or one has raised).  Under this assumption
   one gathered stage runs in ROUNDS: in round 0 every callback is started in list order and
   those that never yield finish at once; in round r >= 1 the callbacks with exactly r
   suspensions finish, in list order.

   Raising inside a gathered stage: all callbacks of the stage have been scheduled before
   the first one runs, so the callbacks registered AFTER a raising one still run (this is a
   difference to the synchronous machine, which stops at the raising callback); the first
   exception (in list order) is what the awaiting code sees.  This is exact when no callback
   of that stage suspends (envelope [stage_raise_ok]); with suspending survivors the
   survivors would finish during later stages, which is outside the model.
   Definitions only. *)
From Coq Require Import List Arith Bool.
From M Require Import Base Flat.
Import ListNotations.

(* ------------------------------------------------------------------ observations *)
(* one observable event of a callback: it starts (the item is what the recorder logs on
   entry: slot, id, model, state seen, argument, error, value it will return, actions),
   and it finishes normally *)
Inductive sev : Type :=
| SStart (it : item)
| SEnd (sl : slot) (cb : cbid).

(* one call of await_all = one stage; the conditions of a candidate are one stage *)
Inductive skind : Type := KCbs | KChecks.
Record stage : Type := mkStage { sg_kind : skind; sg_evs : list sev }.

(* the async engine monad: state -> (stages, final state, exception or value); an
   exception does not roll the state back *)
Definition AM (A : Type) := state -> (list stage * state * (exn + A))%type.

Definition aret {A} (a : A) : AM A := fun s => ([], s, inr a).
Definition araise {A} (e : exn) : AM A := fun s => ([], s, inl e).
Definition abind {A B} (m : AM A) (f : A -> AM B) : AM B :=
  fun s =>
    match m s with
    | (t1, s1, inl e) => (t1, s1, inl e)
    | (t1, s1, inr a) => match f a s1 with (t2, s2, r) => (t1 ++ t2, s2, r) end
    end.
Definition aget : AM state := fun s => ([], s, inr s).
Definition aput (s' : state) : AM unit := fun _ => ([], s', inr tt).

(* try: m  except BaseException as e: h e *)
Definition atry_catch {A} (m : AM A) (h : exn -> AM A) : AM A :=
  fun s =>
    match m s with
    | (t1, s1, inl e) => match h e s1 with (t2, s2, r) => (t1 ++ t2, s2, r) end
    | r => r
    end.
(* try: m  except BaseException as e: (error := e; h e)  finally: swallow (fin error) *)
Definition atry_except_finally {A} (m : AM A) (h : exn -> AM A) (fin : option exn -> AM unit) : AM A :=
  fun s =>
    match m s with
    | (t1, s1, inl e) =>
        match h e s1 with
        | (t2, s2, r2) => match fin (Some e) s2 with (t3, s3, _) => (t1 ++ t2 ++ t3, s3, r2) end
        end
    | (t1, s1, inr a) => match fin None s1 with (t3, s3, _) => (t1 ++ t3, s3, inr a) end
    end.

Notation "x <-- m ;; k" := (abind m (fun x => k))
  (at level 61, m at next level, right associativity).
Notation "m ;;;; k" := (abind m (fun _ => k))
  (at level 61, right associativity).

(* ------------------------------------------------------------------ gather *)
Section Gather.
  Variable rp : cbid -> reply.       (* what each callback does in this event *)
  Variable susp : cbid -> nat.       (* how often it yields before finishing *)
  Variable c : ctx.

  Definition mk_item (sl : slot) (err : option exn) (s : state) (cb : cbid) : item :=
    mkItem sl cb (c_model c) s (ctx_arg c) (if c_send c then err else None)
           (r_ret (rp cb)) (r_acts (rp cb)).

  Definition raises (cb : cbid) : bool :=
    match r_raise (rp cb) with Some _ => true | None => false end.

  (* the End event of a callback, if it is the one finishing in round k *)
  Definition end_in_round (k : nat) (x : slot * cbid) : list sev :=
    if Nat.eqb (susp (snd x)) k && negb (raises (snd x)) then [SEnd (fst x) (snd x)] else [].

  (* round 0: every callback is started, in list order *)
  Fixpoint round0 (err : option exn) (s : state) (cbs : list (slot * cbid)) : list sev :=
    match cbs with
    | [] => []
    | x :: r => SStart (mk_item (fst x) err s (snd x)) :: end_in_round 0 x ++ round0 err s r
    end.

  (* round k >= 1 *)
  Definition roundk (cbs : list (slot * cbid)) (k : nat) : list sev := flat_map (end_in_round k) cbs.

  Fixpoint max_susp (cbs : list (slot * cbid)) : nat :=
    match cbs with [] => 0 | x :: r => Nat.max (susp (snd x)) (max_susp r) end.

  Definition gather_evs (err : option exn) (s : state) (cbs : list (slot * cbid)) : list sev :=
    round0 err s cbs ++ flat_map (roundk cbs) (seq 1 (max_susp cbs)).

  (* the first exception in list order *)
  Fixpoint first_exn (cbs : list (slot * cbid)) : option exn :=
    match cbs with
    | [] => None
    | x :: r => match r_raise (rp (snd x)) with Some e => Some e | None => first_exn r end
    end.

  (* AsyncMachine.await_all *)
  Definition gather (k : skind) (err : option exn) (cbs : list (slot * cbid)) : AM unit :=
    fun s => ([mkStage k (gather_evs err s cbs)], s,
              match first_exn cbs with Some e => inl e | None => inr tt end).

  (* AsyncMachine.callbacks *)
  Definition acallbacks (sl : slot) (err : option exn) (cbs : list cbid) : AM unit :=
    gather KCbs err (map (fun cb => (sl, cb)) cbs).

  Definition check_slot (x : cbid * bool) : slot * cbid := (if snd x then SCond else SUnless, fst x).
  Definition check_passes (x : cbid * bool) : bool := Bool.eqb (r_ret (rp (fst x))) (snd x).

  (* AsyncTransition._eval_conditions: ALL checks are gathered; all(res) *)
  Definition aeval_conds (conds : list (cbid * bool)) : AM bool :=
    gather KChecks None (map check_slot conds) ;;;;
    aret (forallb check_passes conds).

  (* envelope of the exactness claim for raising callbacks: a stage in which a callback raises
     contains no suspending callback *)
  Definition stage_raise_ok (cbs : list cbid) : bool :=
    negb (existsb raises cbs) || forallb (fun cb => Nat.eqb (susp cb) 0) cbs.
End Gather.

(* ------------------------------------------------------------------ the engine *)
Section Engine.
  Variable mc : machine.
  Variable rp : cbid -> reply.
  Variable susp : cbid -> nat.
  Variable c : ctx.

  Notation acallbacks := (acallbacks rp susp c).
  Notation aeval_conds := (aeval_conds rp susp c).

  (* AsyncTransition._change_state *)
  Definition achange_state (t : trans) (dst : state) : AM unit :=
    match get_state mc (t_src t) with
    | None => araise ValueError
    | Some src_def =>
        acallbacks SExit None (s_exit src_def) ;;;;
        match get_state mc dst with
        | None => araise ValueError                     (* set_state -> get_state fails *)
        | Some dst_def =>
            aput dst ;;;;
            acallbacks SEnter None (s_enter dst_def) ;;;;
            if s_final dst_def then acallbacks SOnFinal None (m_on_final mc) else aret tt
        end
    end.

  (* AsyncTransition.execute; cancel_running_transitions finds no other task when triggers
     are awaited one at a time (C08 models it) *)
  Definition aexecute (t : trans) : AM bool :=
    acallbacks SPrepare None (t_prepare t) ;;;;
    ok <-- aeval_conds (t_conds t) ;;
    if ok then
      acallbacks SBeforeSC None (m_before_sc mc) ;;;;
      acallbacks SBefore None (t_before t) ;;;;
      match t_dst t with Some d => achange_state t d | None => aret tt end ;;;;
      acallbacks SAfter None (t_after t) ;;;;
      acallbacks SAfterSC None (m_after_sc mc) ;;;;
      aret true
    else aret false.

  (* the loop of AsyncEvent._process *)
  Fixpoint atry_transitions (ts : list trans) : AM bool :=
    match ts with
    | [] => aret false
    | t :: rest => ok <-- aexecute t ;; if ok then aret true else atry_transitions rest
    end.

  (* AsyncEvent._process *)
  Definition aprocess (ts : list trans) (cur : state) : AM bool :=
    acallbacks SPrepareEvent None (m_prepare_event mc) ;;;;
    atry_transitions (candidates ts cur).

  (* Event._is_valid_source (inherited, synchronous) followed by _process *)
  Definition achecked_process (ts : list trans) (cur : state) (sd : sdef) : AM bool :=
    match candidates ts cur with
    | [] => if ignores mc sd then aret false else araise MachineError
    | _ => aprocess ts cur
    end.

  (* AsyncEvent._trigger *)
  Definition atrigger_event (ts : list trans) : AM bool :=
    cur <-- aget ;;
    match get_state mc cur with
    | None => araise ValueError
    | Some sd =>
        atry_except_finally
          (achecked_process ts cur sd)
          (fun e =>
             match m_on_exception mc with
             | [] => araise e
             | hs => acallbacks SOnException (Some e) hs ;;;; aret false
             end)
          (fun err => acallbacks SFinalize err (m_finalize mc))
    end.

  (* AsyncMachine._can_trigger: may_<event>() / may_trigger(name) *)
  Definition acan_one (t : trans) : AM bool :=
    atry_catch
      (acallbacks SPrepareEvent None (m_prepare_event mc) ;;;;
       acallbacks SPrepare None (t_prepare t) ;;;;
       aeval_conds (t_conds t))
      (fun e =>
         match m_on_exception mc with
         | [] => araise e
         | hs => acallbacks SOnException (Some e) hs ;;;; aret false
         end).

  Fixpoint acan_loop (ts : list trans) : AM bool :=
    match ts with
    | [] => aret false
    | t :: rest =>
        if dest_ok mc t then (ok <-- acan_one t ;; if ok then aret true else acan_loop rest)
        else acan_loop rest
    end.

  Definition acan_trigger (e : event) : AM bool :=
    cur <-- aget ;;
    match get_state mc cur with
    | None => araise ValueError
    | Some _ =>
        match lookup (m_events mc) e with
        | Some ts => acan_loop (candidates ts cur)
        | None => aret false
        end
    end.
End Engine.

(* What `await model.trigger(name)` yields.  AsyncMachine._get_trigger is a coroutine function
   that calls the inherited Machine._get_trigger and awaits its result only when that is
   awaitable: for an unknown event name the base function raises AttributeError or — when the
   state ignores invalid triggers — returns the plain value False, which is handed through. *)
Inductive aresult : Type :=
| AwRet (b : bool)
| AwExn (e : exn).

Definition aresult_of (r : exn + bool) : aresult :=
  match r with inl e => AwExn e | inr b => AwRet b end.

Definition atrigger (mc : machine) (rp : cbid -> reply) (susp : cbid -> nat) (c : ctx) (e : event)
  : state -> (list stage * state * aresult) :=
  fun s =>
    match lookup (m_events mc) e with
    | Some ts => match atrigger_event mc rp susp c ts s with (tr, s', r) => (tr, s', aresult_of r) end
    | None =>
        match get_state mc s with
        | None => ([], s, AwExn ValueError)
        | Some sd => if ignores mc sd then ([], s, AwRet false) else ([], s, AwExn AttributeError)
        end
    end.

(* ------------------------------------------------------------------ views used by the theorems *)
Definition starts (evs : list sev) : list item :=
  flat_map (fun e => match e with SStart it => [it] | SEnd _ _ => [] end) evs.
Definition ends (evs : list sev) : list (slot * cbid) :=
  flat_map (fun e => match e with SStart _ => [] | SEnd sl cb => [(sl, cb)] end) evs.

(* a check that did not pass: condition returned false / unless returned true *)
Definition check_failed (it : item) : bool :=
  match it_slot it with
  | SCond => negb (it_ret it)
  | SUnless => it_ret it
  | _ => false
  end.
Fixpoint upto_first_failed (l : list item) : list item :=
  match l with
  | [] => []
  | it :: r => if check_failed it then [it] else it :: upto_first_failed r
  end.

(* stage_view: what a synchronous machine would have logged for the same stages — the
   callbacks in the order in which they were STARTED (the order of the Ends inside a stage
   is forgotten), and, as the only licensed difference, of the checks of a candidate only
   those up to and including the first that fails *)
Definition stage_view1 (sg : stage) : list item :=
  match sg_kind sg with
  | KCbs => starts (sg_evs sg)
  | KChecks => upto_first_failed (starts (sg_evs sg))
  end.
Definition stage_view (tr : list stage) : list item := flat_map stage_view1 tr.

(* the flat sequence of events, each tagged with the index of its stage *)
Fixpoint tagged_from (n : nat) (tr : list stage) : list (nat * sev) :=
  match tr with
  | [] => []
  | sg :: r => map (fun e => (n, e)) (sg_evs sg) ++ tagged_from (S n) r
  end.
Definition tagged (tr : list stage) : list (nat * sev) := tagged_from 0 tr.

(* ------------------------------------------------------------------ _process_async *)
Inductive qmode : Type := QOff | QAll | QPerModel.     (* queued = False | True | 'model' *)

Record aentry : Type := mkAE {
  ae_id : nat;           (* ghost: arrival number *)
  ae_model : model;
  ae_event : event;
  ae_payload : nat
}.

Record ablock : Type := mkAB {
  ab_entry : aentry;
  ab_trace : list stage;
  ab_result : aresult
}.

(* the key of _transition_queue_dict: one shared deque (_DictionaryMock) or one per model *)
Definition qkey (md : qmode) (m : model) : nat := match md with QPerModel => S m | _ => 0 end.

Fixpoint qget (qs : list (nat * list aentry)) (k : nat) : list aentry :=
  match qs with
  | [] => []
  | (k', q) :: r => if Nat.eqb k k' then q else qget r k
  end.
Fixpoint qset (qs : list (nat * list aentry)) (k : nat) (q : list aentry) : list (nat * list aentry) :=
  match qs with
  | [] => [(k, q)]
  | (k', q') :: r => if Nat.eqb k k' then (k, q) :: r else (k', q') :: qset r k q
  end.

Record aworld : Type := mkAW {
  aw_states : list (model * state);
  aw_queues : list (nat * list aentry);
  aw_next : nat;                             (* next arrival number *)
  aw_models : list model                     (* machine.models: the registered models *)
}.

Fixpoint set_mstate (l : list (model * state)) (m : model) (s : state) : list (model * state) :=
  match l with
  | [] => [(m, s)]
  | (m', s') :: r => if Nat.eqb m m' then (m, s) :: r else (m', s') :: set_mstate r m s
  end.
Definition mstate_of (w : aworld) (m : model) : state :=
  match lookup (aw_states w) m with Some s => s | None => 0 end.

Definition acts_of_trace (tr : list stage) : list action :=
  flat_map (fun sg => flat_map it_acts (starts (sg_evs sg))) tr.

Section Queue.
  Variable mc : machine.
  Variable ev : env.                 (* reply of a callback, keyed by the PAYLOAD of the event it serves *)
  Variable suspf : cbid -> nat -> nat.
  Variable md : qmode.

  Definition nested_payload (q : aentry) (k : nat) : nat := 1000 + 16 * ae_id q + k.

  (* partial(self._trigger, EventData(...)) awaited: one event on one model *)
  Definition astep (w : aworld) (q : aentry) : list stage * aresult * aworld :=
    let c := mkCtx (ae_model q) (ae_payload q) (m_send_event mc) in
    match atrigger mc (fun cb => ev cb (ae_payload q)) (fun cb => suspf cb (ae_payload q)) c
                   (ae_event q) (mstate_of w (ae_model q)) with
    | (tr, st', r) => (tr, r, mkAW (set_mstate (aw_states w) (ae_model q) st') (aw_queues w) (aw_next w) (aw_models w))
    end.

  (* AsyncMachine.remove_model(m) called from a callback (a synchronous method).  queued=True: the model is
     unregistered and the shared deque keeps its head (the event in progress) and loses exactly the pending
     events of m; a call remove_model([m1; m2; ...]) has the effect of the single calls in sequence.  The
     harness only removes registered models.  (queued='model' / False: not performed by the harness.) *)
  Definition aremove_model (m : model) (w : aworld) : aworld :=
    match md with
    | QAll =>
        if negb (existsb (Nat.eqb m) (aw_models w)) then w else
        mkAW (aw_states w)
             (qset (aw_queues w) 0
                   (match qget (aw_queues w) 0 with
                    | [] => []
                    | h :: tl => h :: filter (fun x => negb (Nat.eqb (ae_model x) m)) tl
                    end))
             (aw_next w)
             (filter (fun x => negb (Nat.eqb x m)) (aw_models w))
    | _ => w
    end.

  (* a callback of entry [cur] awaits model.trigger(e) while a queue is being drained:
     appended, returns True at once (len > 1) — no suspension.  Only triggers whose queue is
     the one being drained are inside the envelope (see wf in AsyncIO). *)
  Fixpoint enqueue_acts (cur : aentry) (k : nat) (acts : list action) (w : aworld) : aworld :=
    match acts with
    | [] => w
    | ATrigger m e :: r =>
        let key := qkey md m in
        enqueue_acts cur (S k) r
          (mkAW (aw_states w)
                (qset (aw_queues w) key (qget (aw_queues w) key ++ [mkAE (aw_next w) m e (nested_payload cur k)]))
                (S (aw_next w)) (aw_models w))
    | ARemoveModel m :: r => enqueue_acts cur (S k) r (aremove_model m w)
    end.

  (* the while loop of _process_async on the deque [key]; fuel bounds the number of events *)
  Fixpoint adrain (fuel : nat) (key : nat) (w : aworld) : option (list ablock * option exn * aworld) :=
    match fuel with
    | 0 => None
    | S f =>
        match qget (aw_queues w) key with
        | [] => Some ([], None, w)
        | h :: _ =>
            match astep w h with
            | (tr, r, w1) =>
                let w2 := enqueue_acts h 0 (acts_of_trace tr) w1 in
                match r with
                | AwRet _ =>
                    let w3 := mkAW (aw_states w2) (qset (aw_queues w2) key (tl (qget (aw_queues w2) key))) (aw_next w2) (aw_models w2) in
                    match adrain f key w3 with
                    | None => None
                    | Some (bs, x, w4) => Some (mkAB h tr r :: bs, x, w4)
                    end
                | AwExn e =>
                    (* clear this deque, re-raise *)
                    Some ([mkAB h tr r], Some e,
                          mkAW (aw_states w2) (qset (aw_queues w2) key []) (aw_next w2) (aw_models w2))
                end
            end
        end
    end.

  (* `await model.trigger(name)` arriving from outside, nothing else running *)
  Definition atop_trigger (fuel : nat) (w : aworld) (m : model) (e : event) (a : nat)
    : option (list ablock * aresult * aworld) :=
    let q := mkAE (aw_next w) m e a in
    let w0 := mkAW (aw_states w) (aw_queues w) (S (aw_next w)) (aw_models w) in
    match lookup (m_events mc) e with
    | None =>
        (* AsyncMachine._get_trigger -> Machine._get_trigger, before any queue is touched *)
        match astep w0 q with (tr, r, w1) => Some ([mkAB q tr r], r, w1) end
    | Some _ =>
        match md with
        | QOff =>
            (* return await trigger(); triggers awaited from callbacks are not modelled here *)
            match astep w0 q with (tr, r, w1) => Some ([mkAB q tr r], r, w1) end
        | _ =>
            let key := qkey md m in
            let w1 := mkAW (aw_states w0) (qset (aw_queues w0) key (qget (aw_queues w0) key ++ [q])) (aw_next w0) (aw_models w0) in
            match qget (aw_queues w0) key with
            | _ :: _ => Some ([], AwRet true, w1)           (* len > 1: return True *)
            | [] =>
                match adrain fuel key w1 with
                | None => None
                | Some (bs, Some e, w2) => Some (bs, AwExn e, w2)
                | Some (bs, None, w2) => Some (bs, AwRet true, w2)
                end
            end
        end
    end.
End Queue.
