(* Pickle.v — what the library adds on top of `pickle` (C15).

   A machine is an ordinary object: pickle copies its __dict__ (configuration, options,
   list of model OBJECTS, list of context OBJECTS) into fresh objects.  Three side tables
   are keyed by the INTEGER id(model) and therefore do not survive as they are:

     model_context_map       (LockedMachine,  locking.py)   id(model) -> [context objects]
     model_graphs            (GraphMachine,   diagrams.py)  id(model) -> graph
     _transition_queue_dict  (AsyncMachine with queued='model', asyncio.py)  id(model) -> deque

   and the library repairs (some of) them in __getstate__/__setstate__:

     LockedMachine.__getstate__ : del state['model_context_map'];
                                  state['_model_context_map_store'] = [(mod, map[id(mod)]) for mod in models]
     LockedMachine.__setstate__ : map = defaultdict(list); for model, contexts in store: map[id(model)] = contexts
                                  (a list of pairs: models need not be hashable — fix 3c0ca68)
     GraphMachine.__getstate__  : drop 'model_graphs'
     GraphMachine.__setstate__  : __dict__.update(state); model_graphs = {};
                                  for model in models: _get_graph(model)      (regenerated)
     PicklableLock.__getstate__/__setstate__ : state discarded, re-created UNLOCKED
     AsyncMachine.__getstate__  : if queued == 'model': state['_transition_queue_dict'] =
                                    [(mod, queues[id(mod)]) for mod in models]          (fix 9fbcaa5)
     AsyncMachine.__setstate__  : ... = {id(mod): queue for mod, queue in that list}
     (AsyncGraphMachine / HierarchicalAsyncGraphMachine run AsyncMachine's and GraphMachine's protocols)

   Which pair of hooks a class uses is decided by the MRO; GraphMachine's pair does not call
   super(), so LockedGraphMachine(GraphMachine, LockedMachine) and LockedHierarchicalGraphMachine
   define their own pair that runs both protocols (fix 74ef53e):
     __getstate__ : LockedMachine.__getstate__ minus 'model_graphs'
     __setstate__ : LockedMachine.__setstate__(state); GraphMachine.__setstate__({})
   [effective_hooks].

   ASSUMED (not modelled further): what pickle does to the object graph, given as the
   function [transport]: every object reachable from the machine is re-created under a fresh
   identity (renamings [rm] for model objects, [rl] for context objects), references are
   redirected consistently (sharing preserved), integers are copied verbatim, the
   configuration is deep-copied.

   Objects live in a world (two heaps: model objects and context objects); a machine holds
   references (identities) and the integer-keyed tables.  Definitions only. *)
From Coq Require Import List Arith Bool.
Import ListNotations.

Definition ident := nat.

Fixpoint nmem (n : nat) (l : list nat) : bool :=
  match l with [] => false | k :: r => Nat.eqb n k || nmem n r end.
Fixpoint nodupb (l : list nat) : bool :=
  match l with [] => true | k :: r => negb (nmem k r) && nodupb r end.
(* f is injective on l *)
Definition inj_onb (f : nat -> nat) (l : list nat) : bool :=
  forallb (fun a => forallb (fun b => implb (Nat.eqb (f a) (f b)) (Nat.eqb a b)) l) l.

(* ----------------------------------------------------------------- tables (dicts / heaps) *)
Section Tab.
  Context {A : Type}.
  Fixpoint lookup (t : list (ident * A)) (i : ident) : option A :=
    match t with
    | [] => None
    | (k, v) :: r => if Nat.eqb i k then Some v else lookup r i
    end.
  (* d[i] = v : replace in place or append *)
  Fixpoint tset (t : list (ident * A)) (i : ident) (v : A) : list (ident * A) :=
    match t with
    | [] => [(i, v)]
    | (k, w) :: r => if Nat.eqb i k then (k, v) :: r else (k, w) :: tset r i v
    end.
  (* del d[i] *)
  Definition tdel (t : list (ident * A)) (i : ident) : list (ident * A) :=
    filter (fun p => negb (Nat.eqb i (fst p))) t.
  Definition keys (t : list (ident * A)) : list ident := map fst t.
  (* mutation of an existing object: every entry of that identity is replaced *)
  Definition upd (t : list (ident * A)) (i : ident) (v : A) : list (ident * A) :=
    map (fun p => if Nat.eqb (fst p) i then (fst p, v) else p) t.
  (* { f x : g x for x in l } built by successive assignment *)
  Definition build {B} (f : B -> ident) (g : B -> A) (l : list B) : list (ident * A) :=
    fold_left (fun t x => tset t (f x) (g x)) l [].
End Tab.

(* defaultdict(list).__getitem__ / dict.get(i, []) *)
Definition lookup_list {A} (t : list (ident * list A)) (i : ident) : list A :=
  match lookup t i with Some l => l | None => [] end.

(* ----------------------------------------------------------------- classes *)
(* the key of factory._CLASS_MAP: (graph, nested, locked, asyncio) *)
Record cls : Type := mkCls { k_graph : bool; k_nested : bool; k_locked : bool; k_async : bool }.
Inductive hooks : Type := HDefault | HLocked | HGraph | HLockedGraph | HAsync | HAsyncGraph.
Definition hooks_code (h : hooks) : nat :=
  match h with HDefault => 0 | HLocked => 1 | HGraph => 2 | HLockedGraph => 3 | HAsync => 4 | HAsyncGraph => 5 end.
(* first class of the MRO that defines __getstate__/__setstate__ *)
Definition effective_hooks (k : cls) : hooks :=
  if k_async k then (if k_graph k then HAsyncGraph else HAsync)
  else if k_graph k then (if k_locked k then HLockedGraph else HGraph) else if k_locked k then HLocked else HDefault.
(* what the hooks in effect do to the context table and the graph table (the async hooks treat them like the
   default / GraphMachine's; the per-model queue table is handled apart, by every async class) *)
Definition table_hooks (k : cls) : hooks :=
  if k_graph k then (if k_locked k then HLockedGraph else HGraph) else if k_locked k then HLocked else HDefault.
Definition base_hooks (h : hooks) : hooks :=
  match h with HAsync => HDefault | HAsyncGraph => HGraph | x => x end.

(* context objects: PicklableLock (lo_picklable: state discarded by pickling), IdentManager
   and user contexts (pickled like any object) *)
Record lobj : Type := mkLobj { lo_name : nat; lo_held : bool; lo_picklable : bool }.
Definition transport_lock (o : lobj) : lobj :=
  if lo_picklable o then mkLobj (lo_name o) false true else o.
Definition unheld (o : lobj) : lobj := mkLobj (lo_name o) false (lo_picklable o).

Section Pickle.
  Variables C S G : Type.
  (* the graph of a model as (re)generated from the machine and the model's state
     (None: the model has no state attribute — "could not set active state") *)
  Variable render : C -> option S -> G.

  Record mobj : Type := mkMobj { mo_state : S; mo_hashable : bool }.
  Record world : Type := mkW { w_models : list (ident * mobj); w_locks : list (ident * lobj) }.

  Record machine : Type := mkM {
    m_cls : cls;
    m_cfg : C;                               (* states, transitions, callbacks by name, options *)
    m_qmodel : bool;                         (* queued='model' *)
    m_models : list ident;                   (* self.models: references *)
    m_mctx : list ident;                     (* self.machine_context: references *)
    m_cmap : list (ident * list ident);      (* model_context_map: id(model) -> context references *)
    m_graphs : list (ident * G);             (* model_graphs: id(model) -> graph *)
    m_qkeys : list ident                     (* keys of _transition_queue_dict (queues empty) *)
  }.

  Definition state_of (w : world) (i : ident) : option S := option_map mo_state (lookup (w_models w) i).

  (* ------------------------------------------------------------- table maintenance (reachability) *)
  Definition init_machine (k : cls) (c : C) (q : bool) (mctx : list ident) : machine :=
    mkM k c q [] mctx [] [] [].

  (* Machine.add_model / LockedMachine.add_model / GraphMachine.add_model / AsyncMachine.add_model
     for ONE new model object i with model_context ctx (a registered model: nothing changes) *)
  Definition add_model (w : world) (m : machine) (i : ident) (ctx : list ident) : machine :=
    if nmem i (m_models m) then m else
    let k := m_cls m in
    mkM k (m_cfg m) (m_qmodel m) (m_models m ++ [i]) (m_mctx m)
        (if k_locked k
         then match lookup_list (m_cmap m) i with
              | [] => tset (m_cmap m) i (m_mctx m ++ ctx)
              | _ :: _ => m_cmap m          (* already has contexts: `continue` *)
              end
         else m_cmap m)
        (if k_graph k then tset (m_graphs m) i (render (m_cfg m) (state_of w i)) else m_graphs m)
        (if k_async k && m_qmodel m then (if nmem i (m_qkeys m) then m_qkeys m else m_qkeys m ++ [i])
         else m_qkeys m).

  (* remove_model of one model; None = the call raises (KeyError / ValueError), nothing modelled after *)
  Definition remove_model (m : machine) (i : ident) : option machine :=
    let k := m_cls m in
    if k_locked k && negb (nmem i (keys (m_cmap m))) then None          (* del map[id(mod)] : KeyError *)
    else if k_async k && m_qmodel m && negb (nmem i (m_qkeys m)) then None
    else if negb (nmem i (m_models m)) then None                        (* models.remove: ValueError *)
    else Some (mkM k (m_cfg m) (m_qmodel m)
                   (filter (fun j => negb (Nat.eqb i j)) (m_models m)) (m_mctx m)
                   (if k_locked k then tdel (m_cmap m) i else m_cmap m)
                   (m_graphs m)                                         (* GraphMachine keeps the entry *)
                   (if k_async k && m_qmodel m then filter (fun j => negb (Nat.eqb i j)) (m_qkeys m)
                    else m_qkeys m)).

  Inductive tabop : Type := TAdd (i : ident) (ctx : list ident) | TRemove (i : ident).
  Definition tab_step (w : world) (m : machine) (o : tabop) : machine :=
    match o with
    | TAdd i ctx => add_model w m i ctx
    | TRemove i => match remove_model m i with Some m' => m' | None => m end
    end.

  (* ------------------------------------------------------------- __getstate__ *)
  Record pstate : Type := mkP {
    p_cls : cls; p_cfg : C; p_qmodel : bool;
    p_models : list ident;                          (* references *)
    p_mctx : list ident;                            (* references *)
    p_cmap : list (ident * list ident);             (* INTEGER keys, reference values *)
    p_store : option (list (ident * list ident));   (* list of (model OBJECT, contexts) pairs: references *)
    p_graphs : list (ident * G);
    p_qkeys : list ident;                           (* INTEGER keys *)
    p_qstore : option (list ident)                  (* (model OBJECT, queue) pairs of the async classes: references *)
  }.

  (* never raises (the option is kept for the callers: None would be an exception in __getstate__);
     in particular the hashability of the models plays no role any more *)
  Definition locked_store (m : machine) : list (ident * list ident) :=
    map (fun i => (i, lookup_list (m_cmap m) i)) (m_models m).
  Definition getstate (w : world) (m : machine) : option pstate :=
    let qm := k_async (m_cls m) && m_qmodel m in
    let qk := if qm then [] else m_qkeys m in
    let qs := if qm then Some (m_models m) else None in
    match table_hooks (m_cls m) with
    | HDefault =>
        Some (mkP (m_cls m) (m_cfg m) (m_qmodel m) (m_models m) (m_mctx m) (m_cmap m) None
                  (m_graphs m) qk qs)
    | HGraph =>
        Some (mkP (m_cls m) (m_cfg m) (m_qmodel m) (m_models m) (m_mctx m) (m_cmap m) None
                  [] qk qs)
    | HLocked =>
        Some (mkP (m_cls m) (m_cfg m) (m_qmodel m) (m_models m) (m_mctx m) []
                  (Some (locked_store m)) (m_graphs m) qk qs)
    | HLockedGraph =>
        Some (mkP (m_cls m) (m_cfg m) (m_qmodel m) (m_models m) (m_mctx m) []
                  (Some (locked_store m)) [] qk qs)
    | HAsync | HAsyncGraph => None      (* not values of table_hooks *)
    end.

  (* ------------------------------------------------------------- the assumption about pickle *)
  Definition reach_locks (p : pstate) : list ident :=
    p_mctx p ++ concat (map snd (p_cmap p)) ++
    match p_store p with Some s => concat (map snd s) | None => [] end.

  Definition ren_tab (fk : ident -> ident) (rl : ident -> ident) (t : list (ident * list ident)) :=
    map (fun e => (fk (fst e), map rl (snd e))) t.

  Definition transport (rm rl : ident -> ident) (w : world) (p : pstate) : world * pstate :=
    let ms := filter (fun e => nmem (fst e) (p_models p)) (w_models w) in
    let ls := filter (fun e => nmem (fst e) (reach_locks p)) (w_locks w) in
    (mkW (w_models w ++ map (fun e => (rm (fst e), snd e)) ms)
         (w_locks w ++ map (fun e => (rl (fst e), transport_lock (snd e))) ls),
     mkP (p_cls p) (p_cfg p) (p_qmodel p)
         (map rm (p_models p)) (map rl (p_mctx p))
         (ren_tab (fun i => i) rl (p_cmap p))                     (* integer keys: verbatim *)
         (option_map (ren_tab rm rl) (p_store p))                 (* object keys: redirected *)
         (p_graphs p) (p_qkeys p) (option_map (map rm) (p_qstore p))).

  (* ------------------------------------------------------------- __setstate__ *)
  (* [seen i]: the state attribute of model i as the machine's __setstate__ sees it while the
     object graph is being rebuilt.  When unpickling ENTERS through the machine every model is
     complete by then; when it enters through a model (pickle.dumps(model): model -> trigger
     partial -> machine -> models) that model is still an empty shell (no attributes). *)
  Definition setstate_gen (seen : ident -> option S) (p : pstate) : machine :=
    let qk := match p_qstore p with Some l => l | None => p_qkeys p end in
    match table_hooks (p_cls p) with
    | HDefault =>
        mkM (p_cls p) (p_cfg p) (p_qmodel p) (p_models p) (p_mctx p) (p_cmap p) (p_graphs p) qk
    | HLocked =>
        let store := match p_store p with Some s => s | None => [] end in
        mkM (p_cls p) (p_cfg p) (p_qmodel p) (p_models p) (p_mctx p)
            (build fst snd store)                       (* for model, contexts in store: map[id(model)] = contexts *)
            (p_graphs p) qk
    | HLockedGraph =>
        let store := match p_store p with Some s => s | None => [] end in
        mkM (p_cls p) (p_cfg p) (p_qmodel p) (p_models p) (p_mctx p)
            (build fst snd store)
            (build (fun i => i) (fun i => render (p_cfg p) (seen i)) (p_models p))
            qk
    | HGraph =>
        mkM (p_cls p) (p_cfg p) (p_qmodel p) (p_models p) (p_mctx p) (p_cmap p)
            (build (fun i => i) (fun i => render (p_cfg p) (seen i)) (p_models p))
            qk
    | HAsync | HAsyncGraph =>
        mkM (p_cls p) (p_cfg p) (p_qmodel p) (p_models p) (p_mctx p) (p_cmap p) (p_graphs p) qk
    end.
  Definition setstate (w : world) (p : pstate) : machine := setstate_gen (state_of w) p.

  (* pickle.loads(pickle.dumps(machine)) *)
  Definition snapshot (rm rl : ident -> ident) (w : world) (m : machine) : option (world * machine) :=
    match getstate w m with
    | None => None
    | Some p => let wp := transport rm rl w p in Some (fst wp, setstate (fst wp) (snd wp))
    end.

  (* pickle.loads(pickle.dumps(model j)), the machine taken from the unpickled model: the same object
     graph, but the machine is restored while the copy of j is an empty shell *)
  Definition snapshot_via (j : ident) (rm rl : ident -> ident) (w : world) (m : machine)
    : option (world * machine) :=
    match getstate w m with
    | None => None
    | Some p =>
        let wp := transport rm rl w p in
        Some (fst wp, setstate_gen (fun i => if Nat.eqb i (rm j) then None else state_of (fst wp) i) (snd wp))
    end.

  (* ------------------------------------------------------------- what an event on a model finds *)
  (* the machine as its code sees it: every identity-keyed table resolved through the machine's own
     model list (LockedEvent.trigger: model_context_map[id(model)]; _get_graph: model_graphs[id(model)];
     _process_async: _transition_queue_dict[id(model)]) *)
  Record pmodel : Type := mkPM {
    pm_obj : option mobj;
    pm_ctx : list (option lobj);          (* the contexts an event on this model enters *)
    pm_graph : option G;
    pm_queue : bool                       (* has a queue entry *)
  }.
  Record pview : Type := mkPV {
    pv_cls : cls; pv_cfg : C; pv_qmodel : bool;
    pv_mctx : list (option lobj);
    pv_models : list pmodel
  }.
  Definition resolve_model (w : world) (m : machine) (i : ident) : pmodel :=
    mkPM (lookup (w_models w) i)
         (map (lookup (w_locks w)) (lookup_list (m_cmap m) i))
         (lookup (m_graphs m) i)
         (nmem i (m_qkeys m)).
  Definition resolve (w : world) (m : machine) : pview :=
    mkPV (m_cls m) (m_cfg m) (m_qmodel m) (map (lookup (w_locks w)) (m_mctx m))
         (map (resolve_model w m) (m_models m)).

  (* what pickling is allowed to change: PicklableLocks come back unlocked, graphs regenerated *)
  Definition norm_model (k : cls) (c : C) (x : pmodel) : pmodel :=
    mkPM (pm_obj x) (map (option_map transport_lock) (pm_ctx x))
         (if k_graph k then Some (render c (option_map mo_state (pm_obj x))) else pm_graph x)
         (pm_queue x).
  Definition normalize (v : pview) : pview :=
    mkPV (pv_cls v) (pv_cfg v) (pv_qmodel v) (map (option_map transport_lock) (pv_mctx v))
         (map (norm_model (pv_cls v) (pv_cfg v)) (pv_models v)).

  (* ------------------------------------------------------------- envelope *)
  Definition all_locks (m : machine) : list ident := m_mctx m ++ concat (map snd (m_cmap m)).

  (* side tables exist only in the classes that maintain them; models are distinct objects *)
  Definition wf (m : machine) : bool :=
    nodupb (m_models m) &&
    (k_locked (m_cls m) || match m_cmap m with [] => true | _ => false end) &&
    (k_graph (m_cls m) || match m_graphs m with [] => true | _ => false end) &&
    ((k_async (m_cls m) && m_qmodel m) || match m_qkeys m with [] => true | _ => false end) &&
    negb (k_locked (m_cls m) && k_async (m_cls m)).

  (* the renamings produce fresh, pairwise distinct identities *)
  Definition fresh (rm rl : ident -> ident) (w : world) (m : machine) : bool :=
    inj_onb rm (m_models m) && inj_onb rl (all_locks m) &&
    forallb (fun i => negb (nmem (rm i) (keys (w_models w))) && negb (nmem (rm i) (m_models m))) (m_models m) &&
    forallb (fun l => negb (nmem (rl l) (keys (w_locks w))) && negb (nmem (rl l) (all_locks m))) (all_locks m).

  (* every class repairs every table it owns now (the async queue table since fix 9fbcaa5).  What is left of the
     guard is an invariant of the original: with queued='model' every registered model has its queue
     (add_model creates it, remove_model deletes it: [guard_reachable]) *)
  Definition guard (m : machine) : bool :=
    negb (k_async (m_cls m) && m_qmodel m) || forallb (fun i => nmem i (m_qkeys m)) (m_models m).

  (* ------------------------------------------------------------- runs over the resolved machine *)
  Variables E O : Type.
  (* ANY engine that reads the machine through its resolved view *)
  Definition run_view (step : pview -> E -> pview * O) (v : pview) (h : list E) : pview * list O :=
    fold_left (fun acc e => let r := step (fst acc) e in (fst r, snd acc ++ [snd r])) h (v, []).

  (* mutations of objects in the world *)
  Inductive write : Type := WModel (i : ident) (o : mobj) | WLock (l : ident) (o : lobj).
  Definition apply_write (w : world) (x : write) : world :=
    match x with
    | WModel i o => mkW (upd (w_models w) i o) (w_locks w)
    | WLock l o => mkW (w_models w) (upd (w_locks w) l o)
    end.
  Definition write_in (m : machine) (x : write) : bool :=
    match x with WModel i _ => nmem i (m_models m) | WLock l _ => nmem l (all_locks m) end.

  (* an event / reconfiguration on machine m: ANY engine [eng] reads the resolved view and answers with a new
     configuration, new contents for the machine's own model objects (by position), new contents for
     its own context objects (acquire / release; by position in all_locks) and an observation *)
  Definition engine : Type := pview -> E -> C * list mobj * list lobj * O.
  Definition exec (eng : engine) (w : world) (m : machine) (e : E) : world * machine * O :=
    match eng (resolve w m) e with
    | (c, ms, ls, o) =>
        (fold_left apply_write
           (map (fun p => WModel (fst p) (snd p)) (combine (m_models m) ms) ++
            map (fun p => WLock (fst p) (snd p)) (combine (all_locks m) ls)) w,
         mkM (m_cls m) c (m_qmodel m) (m_models m) (m_mctx m) (m_cmap m) (m_graphs m) (m_qkeys m),
         o)
    end.
  Definition run (eng : engine) (w : world) (m : machine) (h : list E) : world * machine * list O :=
    fold_left (fun acc e => match acc with
                            | (w1, m1, os) => match exec eng w1 m1 e with
                                              | (w2, m2, o) => (w2, m2, os ++ [o])
                                              end
                            end) h (w, m, []).
End Pickle.


Arguments mkMobj {_}.
Arguments mo_state {_}.
Arguments mo_hashable {_}.
Arguments mkW {_}.
Arguments w_models {_}.
Arguments w_locks {_}.
Arguments mkM {_ _}.
Arguments m_cls {_ _}.
Arguments m_cfg {_ _}.
Arguments m_qmodel {_ _}.
Arguments m_models {_ _}.
Arguments m_mctx {_ _}.
Arguments m_cmap {_ _}.
Arguments m_graphs {_ _}.
Arguments m_qkeys {_ _}.
Arguments init_machine {_ _}.
Arguments add_model {_ _ _}.
Arguments remove_model {_ _}.
Arguments tab_step {_ _ _}.
Arguments getstate {_ _ _}.
Arguments transport {_ _ _}.
Arguments setstate {_ _ _}.
Arguments setstate_gen {_ _ _}.
Arguments snapshot_via {_ _ _}.
Arguments snapshot {_ _ _}.
Arguments resolve {_ _ _}.
Arguments resolve_model {_ _ _}.
Arguments normalize {_ _ _}.
Arguments norm_model {_ _ _}.
Arguments all_locks {_ _}.
Arguments wf {_ _}.
Arguments fresh {_ _ _}.
Arguments guard {_ _}.
Arguments state_of {_}.
Arguments mkPM {_ _}.
Arguments pm_obj {_ _}.
Arguments pm_ctx {_ _}.
Arguments pm_graph {_ _}.
Arguments pm_queue {_ _}.
Arguments mkPV {_ _ _}.
Arguments pv_cls {_ _ _}.
Arguments pv_cfg {_ _ _}.
Arguments pv_qmodel {_ _ _}.
Arguments pv_mctx {_ _ _}.
Arguments pv_models {_ _ _}.
Arguments mkP {_ _}.
Arguments p_cls {_ _}.
Arguments p_cfg {_ _}.
Arguments p_qmodel {_ _}.
Arguments p_models {_ _}.
Arguments p_mctx {_ _}.
Arguments p_cmap {_ _}.
Arguments p_store {_ _}.
Arguments p_graphs {_ _}.
Arguments p_qkeys {_ _}.
Arguments p_qstore {_ _}.
Arguments reach_locks {_ _}.
Arguments locked_store {_ _}.
Arguments run_view {_ _ _ _ _}.
Arguments WModel {_}.
Arguments WLock {_}.
Arguments apply_write {_}.
Arguments write_in {_ _ _}.
Arguments exec {_ _ _ _ _}.
Arguments run {_ _ _ _ _}.
