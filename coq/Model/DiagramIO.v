(* DiagramIO.v — decoding of generated diagram cases and encoding of the observation
   (abstract lines of the full and the region-of-interest view after every step). *)
From Coq Require Import List Arith Bool.
From M Require Import Sx Diagram.
Import ListNotations.

Definition d_str : sx -> option str := d_list d_nat.
Definition d_name : sx -> option name := d_list d_nat.

Definition d_ini (x : sx) : option sinit :=
  match x with
  | L [] => Some NoInit
  | L [N 0; N j] => Some (IniOne j)
  | L [N 1] => Some IniPar
  | _ => None
  end.

(* stree := [id; text; label option; final; enter; exit; comp; ini; kids] *)
Fixpoint d_stree (x : sx) : option stree :=
  match x with
  | L [N i; tx; lb; fin; en; ex; cp; ini; L ks] =>
      do tx' <- d_str tx; do lb' <- d_option d_str lb; do fin' <- d_bool fin;
      do en' <- d_list d_str en; do ex' <- d_list d_str ex; do cp' <- d_bool cp; do ini' <- d_ini ini;
      do ks' <- (fix go (l : list sx) : option (list stree) :=
                   match l with
                   | [] => Some []
                   | k :: r => match d_stree k, go r with
                               | Some k', Some r' => Some (k' :: r')
                               | _, _ => None
                               end
                   end) ks;
      Some (Node i tx' lb' fin' en' ex' cp' ini' ks')
  | _ => None
  end.

(* trans := [trigger; label option; src; dst option; conds; unless] *)
Definition d_trans (x : sx) : option trans :=
  match x with
  | L [tr; lb; src; dst; cs; us] =>
      do tr' <- d_str tr; do lb' <- d_option d_str lb; do s <- d_name src; do d <- d_option d_name dst;
      do cs' <- d_list (d_pair d_str d_bool) cs; do us' <- d_list (d_pair d_str d_bool) us;
      Some (mkT tr' lb' s d cs' us')
  | _ => None
  end.

Definition d_opts (x : sx) : option opts :=
  match x with
  | L [a; b; c; d; e; f] =>
      do a' <- d_bool a; do b' <- d_bool b; do c' <- d_bool c; do d' <- d_bool d; do e' <- d_bool e;
      do f' <- d_bool f; Some (mkO a' b' c' d' e' f')
  | _ => None
  end.

Definition d_op (x : sx) : option op :=
  match x with
  | L [N 0; e] => do e' <- d_str e; Some (Ev e')
  | L [N 1; s] => do s' <- d_stree s; Some (AddState s')
  | L [N 4; l] => do l' <- d_list d_stree l; Some (AddStates l')
  | L [N 2; t] => do t' <- d_trans t; Some (AddTrans t')
  | L [N 3; e; s; d] =>
      do e' <- d_str e; do s' <- d_option d_name s; do d' <- d_option d_name d; Some (RemTrans e' s' d')
  | _ => None
  end.

Definition e_name (n : name) : sx := e_list e_nat n.
Definition e_line (l : line) : sx :=
  match l with
  | Decl n lb => L [N 0; e_name n; e_name lb]
  | Final n => L [N 1; e_name n]
  | ClassOf n s => L [N 2; e_name n; N s]
  | Open n => L [N 3; e_name n]
  | Close => L [N 4]
  | Sep => L [N 5]
  | Init n => L [N 6; e_name n]
  | Edge s d ls => L [N 7; e_name s; e_name d; e_list e_name ls]
  end.

(* observation of one moment: current state(s), full view, roi view *)
Definition e_obs (d : dstate) : sx :=
  L [e_list e_name (d_cur d); e_list e_line (view d); e_list e_line (view_roi d)].

Fixpoint observe (d : dstate) (ops : list op) : list sx :=
  match ops with
  | [] => []
  | o :: r => let d' := step d o in e_obs d' :: observe d' r
  end.

(* case := [opts; states; transitions; initial; ops; acts; budget; regen; scoped] *)
Definition run_diagram_case (x : sx) : sx :=
  match x with
  | L [ox; sx_; tx; ix; opx; ax; N bud; rx; scx] =>
      match d_opts ox, d_list d_stree sx_, d_list d_trans tx, d_name ix, d_list d_op opx,
            d_list (d_pair d_str d_str) ax, d_list d_str rx, d_list (d_pair d_name d_trans) scx with
      | Some o, Some f, Some ts, Some i, Some ops, Some acts, Some rg, Some sc =>
          let d0 := init_state (mkM f ts i o acts bud rg sc) in
          L [N 1; L (e_obs d0 :: observe d0 ops)]
      | _, _, _, _, _, _, _, _ => L [N 0]
      end
  | _ => L [N 0]
  end.
