(* FlatIO.v — decoding of generated cases and encoding of observations for the flat
   engine (used by the extracted driver and by vm_compute cross-checks). *)
From Coq Require Import List Arith Bool.
From M Require Import Sx Base Flat FlatSpec.
Import ListNotations.

Definition d_exn (x : sx) : option exn :=
  match x with
  | L [N 0; N _] => Some MachineError
  | L [N 1; N _] => Some AttributeError
  | L [N 2; N _] => Some ValueError
  | L [N 3; N n] => Some (UserExn n)
  | L [N 4; N n] => Some (BaseExn n)
  | _ => None
  end.
Definition e_exn (e : exn) : sx :=
  match e with
  | MachineError => L [N 0; N 0] | AttributeError => L [N 1; N 0] | ValueError => L [N 2; N 0]
  | UserExn n => L [N 3; N n] | BaseExn n => L [N 4; N n]
  end.

Definition d_action (x : sx) : option action :=
  match x with
  | L [N 0; N m; N e] => Some (ATrigger m e)
  | L [N 1; N m] => Some (ARemoveModel m)
  | _ => None
  end.
Definition e_action (a : action) : sx :=
  match a with ATrigger m e => L [N 0; N m; N e] | ARemoveModel m => L [N 1; N m] end.

Definition d_reply (x : sx) : option reply :=
  match x with
  | L [r; ex; acts] =>
      do r' <- d_bool r; do ex' <- d_option d_exn ex; do a' <- d_list d_action acts;
      Some (mkReply r' ex' a')
  | _ => None
  end.

(* env := [default_ret; by_pos; by_cb]: the reply at a position, else the reply of the
   callback id, else (default_ret, no raise, no actions) *)
Definition d_env (x : sx) : option env :=
  match x with
  | L [dflt; bypos; bycb] =>
      do d <- d_bool dflt;
      do bp <- d_list (d_pair d_nat d_reply) bypos;
      do bc <- d_list (d_pair d_nat d_reply) bycb;
      Some (fun cb p =>
              match assoc_nat bp p with
              | Some r => r
              | None => match assoc_nat bc cb with
                        | Some r => r
                        | None => mkReply d None []
                        end
              end)
  | _ => None
  end.

Definition d_trans (x : sx) : option trans :=
  match x with
  | L [src; dst; prep; conds; bef; aft] =>
      do s <- d_nat src; do d <- d_option d_nat dst; do p <- d_list d_nat prep;
      do cs <- d_list (d_pair d_nat d_bool) conds;
      do b <- d_list d_nat bef; do a <- d_list d_nat aft;
      Some (mkTrans s d p cs b a)
  | _ => None
  end.

Definition d_sdef (x : sx) : option sdef :=
  match x with
  | L [en; ex; fin; ign] =>
      do en' <- d_list d_nat en; do ex' <- d_list d_nat ex; do f <- d_bool fin;
      do i <- d_option d_bool ign; Some (mkSdef en' ex' f i)
  | _ => None
  end.

Definition d_machine (x : sx) : option machine :=
  match x with
  | L [sts; evs; pe; bsc; asc; fin; oe; ofi; ign; send] =>
      do sts' <- d_list (d_pair d_nat d_sdef) sts;
      do evs' <- d_list (d_pair d_nat (d_list d_trans)) evs;
      do pe' <- d_list d_nat pe; do bsc' <- d_list d_nat bsc; do asc' <- d_list d_nat asc;
      do fin' <- d_list d_nat fin; do oe' <- d_list d_nat oe; do ofi' <- d_list d_nat ofi;
      do ign' <- d_bool ign; do send' <- d_bool send;
      Some (mkMachine sts' evs' pe' bsc' asc' fin' oe' ofi' ign' send')
  | _ => None
  end.

Definition e_slot (s : slot) : sx := N (slot_code s).
Definition e_arg (a : arg) : sx := match a with Plain n => L [N 0; N n] | EventObj n => L [N 1; N n] end.
Definition e_item (it : item) : sx :=
  L [e_slot (it_slot it); N (it_cb it); N (it_model it); N (it_state it); e_arg (it_arg it);
     e_option e_exn (it_err it); e_bool (it_ret it); e_list e_action (it_acts it)].
Definition e_result (r : exn + bool) : sx :=
  match r with inl e => L [N 1; e_exn e] | inr b => L [N 0; e_bool b] end.

(* one call of a history: kind 0 = model.trigger(name), 1 = model.may_trigger(name),
   2 = the event method model.<name>() (AttributeError if no such event) *)
Inductive callkind := KTrigger | KMay | KMethod.
Record hcall := mkCall { h_kind : callkind; h_event : event; h_payload : nat }.
Definition d_call (x : sx) : option hcall :=
  match x with
  | L [N 0; N e; N a] => Some (mkCall KTrigger e a)
  | L [N 1; N e; N a] => Some (mkCall KMay e a)
  | L [N 2; N e; N a] => Some (mkCall KMethod e a)
  | _ => None
  end.

Definition run_one (mc : machine) (ev : env) (m : model) (h : hcall)
  : M (S:=state) bool :=
  let c := mkCtx m (h_payload h) (m_send_event mc) in
  match h_kind h with
  | KTrigger => trigger mc ev c (h_event h)
  | KMay => can_trigger mc ev c (h_event h)
  | KMethod => match lookup (m_events mc) (h_event h) with
               | Some ts => trigger_event mc ev c ts
               | None => raise AttributeError
               end
  end.

Fixpoint run_history (mc : machine) (ev : env) (m : model) (hs : list hcall)
                     (p : nat) (s : state) : list sx :=
  match hs with
  | [] => []
  | h :: rest =>
      match run_one mc ev m h p s with
      | (tr, s', r) =>
          L [e_list e_item tr; e_result r; N s'] :: run_history mc ev m rest (p + length tr) s'
      end
  end.

(* case := [machine; env; model id; initial state; history] *)
Definition run_flat_case (x : sx) : sx :=
  match x with
  | L [mcx; evx; N m; N s0; hx] =>
      match d_machine mcx, d_env evx, d_list d_call hx with
      | Some mc, Some ev, Some hs => L [N 1; L (run_history mc ev m hs 0 s0)]
      | _, _, _ => L [N 0]
      end
  | _ => L [N 0]
  end.
