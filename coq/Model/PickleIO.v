(* PickleIO.v — decoding of generated cases and encoding of observations for the pickling
   model (dispatch kind 13).  Instance: configuration = a token, model state = the model's tag,
   graph = (configuration token, state it was generated for).
   case := [[graph; nested; locked; async]; qmodel; mctx; wmodels; wlocks; script; rmoff; rloff;
            ncont; nflags; nindep; entry]
     entry   : [] = pickle.dumps(machine); [identity] = pickle.dumps(that model) (snapshot_via)
     mctx    : identities of the machine_context objects
     wmodels : list of [identity; tag; hashable]
     wlocks  : list of [identity; name; held; picklable]
     script  : table operations before the snapshot: [0; identity; model_context identities] add_model,
               [1; identity] remove_model
     rmoff, rloff : the copy of object i gets identity i + offset
   observation := [1; hooks; [0]]                  pickling raises (no class does any more)
                | [1; hooks; [1; rekey; behaviour]]
     hooks  : 0 default / 1 LockedMachine / 2 GraphMachine / 3 LockedGraphMachine (both protocols)
              __getstate__/__setstate__ in effect
     rekey  : [tags of the copy's models; identities disjoint;
               keys of the ORIGINAL's model_context_map, model_graphs, queue dict, classified;
               keys of the COPY's model_context_map, classified; per model of the copy its contexts
               [name; held; position in the copy's machine_context or 99];
               keys of the copy's model_graphs; per model: graph present and equal to a regenerated one;
               keys of the copy's queue dict; per model: has a queue; the copy's machine_context [name; held]]
       a key is classified [0; k] = identity of the copy's k-th model, [1; k] = identity of the
       original's k-th model, [2; 0] = anything else
     behaviour : the prediction of theorems C15_same / C15_independent for the harness's
       comparison flags: all equal (ncont rows of nflags ones, nindep ones) *)
From Coq Require Import List Arith Bool.
From M Require Import Sx Pickle.
Import ListNotations.

Definition iC := nat.
Definition iS := nat.
Definition iG := (nat * option nat)%type.
Definition irender (c : iC) (s : option iS) : iG := (c, s).

Definition d_cls (x : sx) : option cls :=
  match x with
  | L [g; n; l; a] =>
      do g' <- d_bool g; do n' <- d_bool n; do l' <- d_bool l; do a' <- d_bool a;
      Some (mkCls g' n' l' a')
  | _ => None
  end.
Definition d_wmodel (x : sx) : option (ident * mobj iS) :=
  match x with
  | L [N i; N t; h] => do h' <- d_bool h; Some (i, mkMobj t h')
  | _ => None
  end.
Definition d_wlock (x : sx) : option (ident * lobj) :=
  match x with
  | L [N i; N n; h; p] => do h' <- d_bool h; do p' <- d_bool p; Some (i, mkLobj n h' p')
  | _ => None
  end.
Definition d_tabop (x : sx) : option tabop :=
  match x with
  | L [N 0; N i; c] => do c' <- d_list d_nat c; Some (TAdd i c')
  | L [N 1; N i] => Some (TRemove i)
  | _ => None
  end.

Fixpoint index_of (n : nat) (l : list nat) (k : nat) : option nat :=
  match l with
  | [] => None
  | x :: r => if Nat.eqb n x then Some k else index_of n r (S k)
  end.
Definition classify (newm oldm : list ident) (key : ident) : sx :=
  match index_of key newm 0 with
  | Some k => L [N 0; N k]
  | None => match index_of key oldm 0 with
            | Some k => L [N 1; N k]
            | None => L [N 2; N 0]
            end
  end.
Definition gen_eqb (a b : iG) : bool :=
  Nat.eqb (fst a) (fst b) &&
  match snd a, snd b with
  | Some x, Some y => Nat.eqb x y
  | None, None => true
  | _, _ => false
  end.
Definition disjointb (a b : list nat) : bool := forallb (fun x => negb (nmem x b)) a.

Definition e_ctx (w : world iS) (mctx : list ident) (l : ident) : sx :=
  match lookup (w_locks w) l with
  | Some o => L [N (lo_name o); e_bool (lo_held o);
                 N (match index_of l mctx 0 with Some k => k | None => 99 end)]
  | None => L [N 98; N 0; N 99]
  end.

Definition e_rekey (w : world iS) (m : machine iC iG) (w' : world iS) (m' : machine iC iG) : sx :=
  let newm := m_models m' in
  let oldm := m_models m in
  L [ L (map (fun i => e_option e_nat (state_of w' i)) newm);
      e_bool (disjointb newm oldm && disjointb (all_locks m') (all_locks m));
      L (map (classify [] oldm) (keys (m_cmap m)));
      L (map (classify [] oldm) (keys (m_graphs m)));
      L (map (classify [] oldm) (m_qkeys m));
      L (map (classify newm oldm) (keys (m_cmap m')));
      L (map (fun i => L (map (e_ctx w' (m_mctx m')) (lookup_list (m_cmap m') i))) newm);
      L (map (classify newm oldm) (keys (m_graphs m')));
      L (map (fun i => e_bool (match lookup (m_graphs m') i with
                               | Some g => gen_eqb g (irender (m_cfg m') (state_of w' i))
                               | None => false
                               end)) newm);
      L (map (classify newm oldm) (m_qkeys m'));
      L (map (fun i => e_bool (nmem i (m_qkeys m'))) newm);
      L (map (fun l => match lookup (w_locks w') l with
                       | Some o => L [N (lo_name o); e_bool (lo_held o)]
                       | None => L [N 98; N 0]
                       end) (m_mctx m')) ].

Definition run_pickle_case (x : sx) : sx :=
  match x with
  | L [kx; qx; cx; mx; lx; sx_; N rmoff; N rloff; N ncont; N nflags; N nindep; ex] =>
      match d_cls kx, d_bool qx, d_list d_nat cx, d_list d_wmodel mx, d_list d_wlock lx,
            d_list d_tabop sx_, d_option d_nat ex with
      | Some k, Some q, Some mctx, Some wm, Some wl, Some script, Some entry =>
          let w := mkW wm wl in
          let m := fold_left (tab_step irender w) script (init_machine k 0 q mctx) in
          L [N 1; N (hooks_code (effective_hooks k));
             match (match entry with
                    | None => snapshot irender (fun i => i + rmoff) (fun l => l + rloff) w m
                    | Some j => snapshot_via irender j (fun i => i + rmoff) (fun l => l + rloff) w m
                    end) with
             | None => L [N 0]
             | Some (w', m') =>
                 L [N 1; e_rekey w m w' m';
                    L [L (repeat (L (repeat (N 1) nflags)) ncont); L (repeat (N 1) nindep)]]
             end]
      | _, _, _, _, _, _, _ => L [N 0]
      end
  | _ => L [N 0]
  end.
