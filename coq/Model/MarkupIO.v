(* MarkupIO.v - decoding of generated C14 cases (a machine description in the shape of a
   markup dict + a script of operations) and encoding of the model's observation:
   every markup read during the script, the final markup, the markup of the machine
   rebuilt from it, and whether the rebuilt description behaves like the original. *)
From Coq Require Import List Arith Bool String Ascii.
From M Require Import Sx Markup.
Import ListNotations.
Open Scope list_scope.

(* strings travel as lists of character codes *)
Definition d_string (x : sx) : option string :=
  match x with
  | N _ => None
  | L l => fold_right (fun y acc => match y, acc with
                                    | N n, Some s => Some (String (ascii_of_nat n) s)
                                    | _, _ => None end) (Some EmptyString) l
  end.
Fixpoint e_string (s : string) : sx :=
  match s with
  | EmptyString => L []
  | String a r => match e_string r with L l => L (N (nat_of_ascii a) :: l) | x => x end
  end.
Definition d_strs := d_list d_string.
Definition e_strs := e_list e_string.

Definition d_qmode (x : sx) : option qmode :=
  match x with N 0 => Some QFalse | N 1 => Some QTrue | N 2 => Some QModel | _ => None end.
Definition e_qmode (q : qmode) : sx := match q with QFalse => N 0 | QTrue => N 1 | QModel => N 2 end.

Definition d_init (x : sx) : option init :=
  match x with
  | L [] => Some None
  | L [L [N 0; s]] => do s' <- d_string s; Some (Some (inl s'))
  | L [L [N 1; l]] => do l' <- d_strs l; Some (Some (inr l'))
  | _ => None
  end.
Definition e_init (i : init) : sx :=
  match i with
  | None => L []
  | Some (inl s) => L [L [N 0; e_string s]]
  | Some (inr l) => L [L [N 1; e_strs l]]
  end.

Definition d_aval (x : sx) : option aval :=
  match x with
  | L [N 0; s] => do s' <- d_string s; Some (AStr s')
  | L [N 1; b] => do b' <- d_bool b; Some (ABool b')
  | L [N 2; l] => do l' <- d_strs l; Some (AList l')
  | _ => None
  end.
Definition e_aval (a : aval) : sx :=
  match a with
  | AStr s => L [N 0; e_string s] | ABool b => L [N 1; e_bool b] | AList l => L [N 2; e_strs l]
  end.
Definition d_attrs := d_list (d_pair d_string d_aval).
Definition e_attrs := e_list (e_pair e_string e_aval).

Definition d_ktrans (x : sx) : option ktrans :=
  match x with
  | L [a; t; c; u] =>
      do a' <- d_attrs a; do t' <- d_string t; do c' <- d_option d_strs c; do u' <- d_option d_strs u;
      Some (mkKT a' t' c' u')
  | _ => None
  end.
Definition e_ktrans (k : ktrans) : sx :=
  L [e_attrs (kt_attrs k); e_string (kt_trigger k); e_option e_strs (kt_conditions k);
     e_option e_strs (kt_unless k)].

Fixpoint d_kstate (x : sx) : option kstate :=
  match x with
  | L [nm; a; sc; ini; trs; L ch] =>
      do n <- d_string nm; do a' <- d_attrs a; do sc' <- d_bool sc; do i <- d_init ini;
      do t <- d_list d_ktrans trs;
      do c <- (fix go (l : list sx) : option (list kstate) :=
                 match l with
                 | [] => Some []
                 | y :: r => match d_kstate y, go r with
                             | Some u, Some v => Some (u :: v) | _, _ => None end
                 end) ch;
      Some (KState n a' sc' i t c)
  | _ => None
  end.
Fixpoint e_kstate (k : kstate) : sx :=
  L [e_string (ks_name k); e_attrs (ks_attrs k); e_bool (ks_scope k); e_init (ks_initial k);
     e_list e_ktrans (ks_transitions k); L (map e_kstate (ks_children k))].

Fixpoint d_mstate (x : sx) : option mstate :=
  match x with
  | L [N 0; p] => do p' <- d_strs p; Some (MS p')
  | L [N 1; L l] =>
      do l' <- (fix go (l : list sx) : option (list mstate) :=
                  match l with
                  | [] => Some []
                  | y :: r => match d_mstate y, go r with
                              | Some u, Some v => Some (u :: v) | _, _ => None end
                  end) l;
      Some (ML l')
  | _ => None
  end.
Fixpoint e_mstate (m : mstate) : sx :=
  match m with
  | MS p => L [N 0; e_strs p]
  | ML l => L [N 1; L (map e_mstate l)]
  end.
Definition d_kmodel (x : sx) : option kmodel :=
  match x with
  | L [s; c] => do s' <- d_mstate s; do c' <- d_string c; Some (mkKM s' c')
  | _ => None
  end.
Definition e_kmodel (k : kmodel) : sx := L [e_mstate (km_state k); e_string (km_class k)].

Definition d_markup (x : sx) : option markup :=
  match x with
  | L [bsc; asc; pe; fe; oe; ofi; send; auto; attr; ovr; ign; qd; mds; ini; nm; trs; sts] =>
      do bsc' <- d_strs bsc; do asc' <- d_strs asc; do pe' <- d_strs pe; do fe' <- d_strs fe;
      do oe' <- d_strs oe; do of' <- d_strs ofi;
      do send' <- d_bool send; do auto' <- d_bool auto; do attr' <- d_string attr; do ovr' <- d_bool ovr;
      do ign' <- d_option d_bool ign; do qd' <- d_qmode qd;
      do mds' <- d_list d_kmodel mds; do ini' <- d_init ini; do nm' <- d_option d_string nm;
      do trs' <- d_list d_ktrans trs; do sts' <- d_list d_kstate sts;
      Some (mkMarkup bsc' asc' pe' fe' oe' of' send' auto' attr' ovr' ign' qd' mds' ini' nm' trs' sts')
  | _ => None
  end.
Definition e_markup (k : markup) : sx :=
  L [e_strs (k_bsc k); e_strs (k_asc k); e_strs (k_pe k); e_strs (k_fe k); e_strs (k_oe k); e_strs (k_of k);
     e_bool (k_send k); e_bool (k_auto k); e_string (k_attr k); e_bool (k_override k);
     e_option e_bool (k_ignore k); e_qmode (k_queued k);
     e_list e_kmodel (k_models k); e_init (k_initial k); e_option e_string (k_name k);
     e_list e_ktrans (k_transitions k); e_list e_kstate (k_states k)].

Definition d_dest (x : sx) : option dest_spec :=
  match x with
  | L [N 0] => Some DSame
  | L [N 1] => Some DNone
  | L [N 2; s] => do s' <- d_string s; Some (DTo s')
  | _ => None
  end.

Definition d_op (x : sx) : option op :=
  match x with
  | L [N 0] => Some OGet
  | L [N 1; sc; k] => do sc' <- d_strs sc; do k' <- d_kstate k; Some (OAddState sc' k')
  | L [N 2; sc; trg; src; dst; c; u; p; b; a] =>
      do sc' <- d_strs sc; do trg' <- d_string trg; do src' <- d_option d_strs src; do dst' <- d_dest dst;
      do c' <- d_strs c; do u' <- d_strs u; do p' <- d_strs p; do b' <- d_strs b; do a' <- d_strs a;
      Some (OAddTrans sc' trg' src' dst' c' u' p' b' a')
  | L [N 3; trg; src; dst] =>
      do trg' <- d_string trg; do src' <- d_option d_strs src; do dst' <- d_option d_strs dst;
      Some (ORemTrans trg' src' dst')
  | L [N 4; N k; p; cb] => do p' <- d_strs p; do cb' <- d_string cb; Some (ORegState k p' cb')
  | L [N 5; N k; trg; cb] => do trg' <- d_string trg; do cb' <- d_string cb; Some (ORegEvent k trg' cb')
  | L [N 6; N i; st] => do st' <- d_mstate st; Some (OSetModel i st')
  | L [N 7; cls; st] => do cls' <- d_string cls; do st' <- d_mstate st; Some (OAddModel cls' st')
  | L [N 8; N k; p; cb] => do p' <- d_strs p; do cb' <- d_string cb; Some (ODirectState k p' cb')
  | L [N 9; N w; l] => do l' <- d_strs l; Some (OSetList w l')
  | _ => None
  end.

(* the behaviour-relevant view of a description: everything, with each state's
   ignore_invalid_triggers replaced by the effective flag *)
Definition e_trans (t : trans) : sx :=
  L [e_string (t_source t); e_option e_string (t_dest t); e_strs (t_conditions t); e_strs (t_unless t);
     e_strs (t_prepare t); e_strs (t_before t); e_strs (t_after t)].
Definition e_events (evs : events) : sx :=
  e_list (e_pair e_string (e_list (e_pair e_string (e_list e_trans)))) evs.
Fixpoint e_state_view (mign : option bool) (s : state) : sx :=
  L [e_string (s_name s); e_strs (s_on_enter s); e_strs (s_on_exit s); e_strs (s_on_final s);
     e_bool (eff_ignore mign (s_ignore s)); e_bool (s_final s); e_init (s_initial s);
     L (map (e_state_view mign) (s_children s)); e_events (s_events s)].
Definition e_view (m : machine) : sx :=
  L [e_bool (m_hsm m); L (map (e_state_view (m_ignore m)) (m_states m)); e_events (m_events m);
     e_init (m_initial m); e_strs (m_bsc m); e_strs (m_asc m); e_strs (m_pe m); e_strs (m_fe m);
     e_strs (m_oe m); e_strs (m_of m); e_bool (m_send m); e_bool (m_auto m); e_string (m_attr m);
     e_bool (m_override m); e_bool (eff_ignore (m_ignore m) None); e_qmode (m_queued m);
     e_list (fun md => L [e_mstate (md_state md); e_string (md_class md)]) (m_models m)].

Fixpoint sx_eqb (a b : sx) : bool :=
  match a, b with
  | N n, N m => Nat.eqb n m
  | L l, L k => (fix eq (x y : list sx) : bool :=
                   match x, y with
                   | [], [] => true
                   | u :: x', v :: y' => sx_eqb u v && eq x' y'
                   | _, _ => false end) l k
  | _, _ => false
  end.

(* run the script, collecting the markup at every OGet *)
Fixpoint run_script (ops : list op) (x : mm) (acc : list sx) : mm * list sx :=
  match ops with
  | [] => (x, rev acc)
  | OGet :: r => let g := getter x in
      run_script r (fst g) (L [e_markup (snd g); e_markup (to_markup (mach x))] :: acc)
  | o :: r => run_script r (step x o) acc
  end.

(* case := [hsm; description; script] *)
Definition run_markup_case (x : sx) : sx :=
  match x with
  | L [h; d; os] =>
      match d_bool h, d_markup d, d_list d_op os with
      | Some hsm, Some d', Some ops =>
          let r := run_script ops (construct hsm d') [] in
          let g := getter (fst r) in
          let mk := snd g in
          let rebuilt := construct_markup hsm mk in
          L [N 1; L (snd r); L [e_markup mk; e_markup (to_markup (mach (fst r)))]; e_markup (snd (getter rebuilt));
             e_bool (sx_eqb (e_view (mach rebuilt)) (e_view (mach (fst g))));
             e_bool (wf_machine (mach (fst g)))]
      | _, _, _ => L [N 0]
      end
  | _ => L [N 0]
  end.
