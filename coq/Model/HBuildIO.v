(* HBuildIO.v — decoding of hierarchical construction scripts, encoding of the structure
   (state trees and scope events) they build. *)
From Coq Require Import List Arith Bool.
From M Require Import Sx Base Flat FlatIO Hsm HsmIO Build BuildIO HBuild.
Import ListNotations.

Definition d_hattrs (x : sx) : option hattrs :=
  match x with
  | L [en; ex; onf; fin; ign; ini] =>
      do en' <- d_list d_nat en; do ex' <- d_list d_nat ex; do onf' <- d_list d_nat onf;
      do fin' <- d_bool fin; do ign' <- d_option (d_option d_bool) ign; do ini' <- d_list d_nat ini;
      Some (mkHA en' ex' onf' fin' ign' ini')
  | _ => None
  end.
Definition d_ets := d_list (d_pair d_nat d_htrans).
Definition d_hsub (x : sx) : option hsub :=
  match x with
  | L [sts; evs; ini] =>
      do sts' <- d_list (d_sdefn 64) sts; do evs' <- d_hevents evs; do ini' <- d_list d_nat ini;
      Some (mkSub sts' evs' ini')
  | _ => None
  end.
Fixpoint d_hform (fuel : nat) (x : sx) : option hform :=
  match fuel with
  | 0 => None
  | S f =>
      match x with
      | L [N 0; p; a] => do p' <- d_path p; do a' <- d_hattrs a; Some (HName p' a')
      | L [N 1; N n; a; key; ch; ts] =>
          do a' <- d_hattrs a; do k <- d_bool key; do ch' <- d_list (d_hform f) ch; do ts' <- d_ets ts;
          Some (HDict n a' k ch' ts')
      | L [N 2; N n; a; sub; remap] =>
          do a' <- d_hattrs a; do s <- d_hsub sub; do r <- d_list (d_pair d_nat d_path) remap;
          Some (HEmbed n a' s r)
      | _ => None
      end
  end.
Definition d_hop (x : sx) : option hop :=
  match x with
  | L [N 0; l] => do l' <- d_list (d_hform 64) l; Some (HAddStates l')
  | L [N 1; l] => do l' <- d_ets l; Some (HAddTransitions l')
  | L [N 2; N trig; sp; dp] => do sp' <- d_path sp; do dp' <- d_path dp; Some (HRemove trig sp' dp')
  | _ => None
  end.

Definition e_path (p : path) : sx := e_list e_nat p.
Definition e_htrans (t : htrans) : sx :=
  L [e_path (ht_src t); e_option e_path (ht_dst t); e_list e_nat (ht_prepare t);
     e_list (e_pair e_nat e_bool) (ht_conds t); e_list e_nat (ht_before t); e_list e_nat (ht_after t)].
Definition e_hevents (evs : events) : sx := e_list (e_pair e_nat (e_list e_htrans)) evs.
Fixpoint e_sdefn (d : sdefn) : sx :=
  match d with
  | SDef n en ex onf fin ign ini evs ch =>
      L [N n; e_list e_nat en; e_list e_nat ex; e_list e_nat onf; e_bool fin; e_option e_bool ign;
         e_list e_nat ini; e_hevents evs; L (map e_sdefn ch)]
  end.

Fixpoint hexec_idx (s : list hop) (b : hbm) (i : nat) : hbm * option (berr * nat) :=
  match s with
  | [] => (b, None)
  | o :: r => match hrun_op o b with
              | (b', None) => hexec_idx r b' (S i)
              | (b', Some e) => (b', Some (e, i))
              end
  end.

Definition hobserve (ign : option bool) (s : list hop) : sx :=
  match hexec_idx s (hempty ign) 0 with
  | (b, e) =>
      L [e_list e_sdefn (hb_states b); e_hevents (hb_events b);
         match e with None => L [] | Some (x, i) => L [e_berr x; N i] end]
  end.

(* case := [machine-level ignore_invalid_triggers; script A; script B] *)
Definition run_hbuild_case (x : sx) : sx :=
  match x with
  | L [ign; ax; bx] =>
      match d_option d_bool ign, d_list d_hop ax, d_list d_hop bx with
      | Some i, Some a, Some b => L [N 1; hobserve i a; hobserve i b]
      | _, _, _ => L [N 0]
      end
  | _ => L [N 0]
  end.
