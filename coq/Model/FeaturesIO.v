(* FeaturesIO.v — decoding of generated cases and encoding of observations for the
   state-feature model (dispatch kind 8).
   case := [order; states; transitions; ignore; nmodels; init; history; tags; hooks]
     order       : list of feature codes (0 Tags, 1 Error, 2 Volatile, 3 Retry)
     states      : list of [id; [g_tags g_accepted g_hook g_retry]; enter; exit; tags; accepted;
                            hook; retries; on_failure option]
     transitions : list of [event; src; dst option]
     history     : list of [model; event]
     tags, hooks : the tag ids / hook ids that are inspected
   observation := [1; [1; exn]]                       construction raised
                | [1; [0; tag table; steps; steps of the undecorated machine (no hooks inspected);
                       steps of the specification FeaturesSpec.spec_run (used to validate the
                       harness's oracle, not compared with the implementation)]]
     tag table : per state, per inspected tag: [] (AttributeError) or [bool]
     step      : [items; result; per model [state; per inspected hook: [] or [object id]]] *)
From Coq Require Import List Arith Bool.
From M Require Import Sx Features FeaturesSpec.
Import ListNotations.

Definition d_feature (x : sx) : option feature :=
  match x with
  | N 0 => Some FTags | N 1 => Some FError | N 2 => Some FVolatile | N 3 => Some FRetry
  | _ => None
  end.

Definition d_given (x : sx) : option fgiven :=
  match x with
  | L [a; b; c; d] =>
      do a' <- d_bool a; do b' <- d_bool b; do c' <- d_bool c; do d' <- d_bool d;
      Some (mkGiven a' b' c' d')
  | _ => None
  end.

Definition d_fstate (x : sx) : option (fstate_id * (fgiven * fsdef)) :=
  match x with
  | L [N s; g; en; ex; tg; acc; N hk; N rt; onf] =>
      do g' <- d_given g; do en' <- d_list d_nat en; do ex' <- d_list d_nat ex;
      do tg' <- d_list d_nat tg; do acc' <- d_bool acc; do onf' <- d_option d_nat onf;
      Some (s, (g', mkFS en' ex' tg' acc' hk rt onf'))
  | _ => None
  end.

Definition d_ftrans (x : sx) : option ftrans :=
  match x with
  | L [N e; N s; d] => do d' <- d_option d_nat d; Some (mkFT e s d')
  | _ => None
  end.

Definition e_fexn (e : fexn) : sx :=
  match e with EMachine => N 0 | EAttribute => N 1 | EType => N 2 end.
Definition e_fitem (i : fitem) : sx :=
  match i with
  | IExit cb m s => L [N 0; N cb; N m; N s]
  | IEnter cb m s => L [N 1; N cb; N m; N s]
  | IFail cb m s => L [N 2; N cb; N m; N s]
  end.
Definition e_fres (r : fres) : sx :=
  match r with RTrue => L [N 0; N 1] | RFalse => L [N 0; N 0] | RExn e => L [N 1; e_fexn e] end.

Definition e_model (hooks : list nat) (r : mrec) : sx :=
  L [N (m_state r); L (map (fun h => e_option e_nat (m_hooks r h)) hooks)].

Definition e_step (nm : nat) (hooks : list nat) (o : list fitem * world * fres) : sx :=
  match o with
  | (tr, w, res) =>
      L [e_list e_fitem tr; e_fres res; L (map (fun m => e_model hooks (w_m w m)) (seq 0 nm))]
  end.

(* a call of the specification, in the same format (hooks read through spec_hooks) *)
Definition e_sstep (c : fcfg) (nm : nat) (hooks : list nat) (o : list fitem * sworld * fres) : sx :=
  match o with
  | (tr, sw, res) =>
      L [e_list e_fitem tr; e_fres res;
         L (map (fun m => L [N (sp_state (sw_m sw m));
                             L (map (fun h => e_option e_nat (spec_hooks c (sw_m sw m) h)) hooks)])
                (seq 0 nm))]
  end.

Definition e_tagtable (c : fcfg) (tags : list nat) : sx :=
  L (map (fun sd => L (map (fun t => e_option e_bool (tag_answer c (fst sd) t)) tags)) (c_states c)).

Definition run_features_case (x : sx) : sx :=
  match x with
  | L [ox; sx_; tx; ign; N nm; N s0; hx; tgx; hkx] =>
      match d_list d_feature ox, d_list d_fstate sx_, d_list d_ftrans tx, d_bool ign,
            d_list (d_pair d_nat d_nat) hx, d_list d_nat tgx, d_list d_nat hkx with
      | Some o, Some sts, Some ts, Some ig, Some h, Some tags, Some hooks =>
          match build o (map snd sts) with
          | Some e => L [N 1; L [N 1; e_fexn e]]
          | None =>
              let c := mkCfg o (map (fun p => (fst p, snd (snd p))) sts) ts ig in
              L [N 1; L [N 0; e_tagtable c tags;
                         L (map (e_step nm hooks) (frun c (init_world s0) h));
                         L (map (e_step nm []) (frun (plain_cfg c) (init_world s0) h));
                         L (map (e_sstep c nm hooks) (spec_run c (spec_init s0) h))]]
          end
      | _, _, _, _, _, _, _ => L [N 0]
      end
  | _ => L [N 0]
  end.
