(* FeaturesIO.v — decoding of generated cases and encoding of observations for the
   state-feature model (dispatch kind 8).
   case := [order; states; transitions; ignore; nmodels; init; history; tags; hooks;
            paths; inits; pre; cls; k; retrig; finals; decor; hier]
     decor       : the decorators, outermost first, each a list of codes (0-3 the features, 4 Timeout)
     hier        : the machine class is hierarchical (its state class has the callback kind on_final)
     finals      : ids of the states built with final=True.  Decoded and deliberately unused: no mixin
                   reads State.final (Props/C19.v, C19_error_final_independent); the implementation side
                   passes the flag, so a dependence on it shows as a disagreement
     retrig      : list of [callback; event; budget]: the enter callback triggers the event on its
                   model the first <budget> times it is invoked (non-empty = re-entrant case)
     paths       : list of [state; [ids from the root ancestor to the state]]   ([] = flat)
     inits       : list of [compound state; initial child]
     pre, cls    : lists of [model; hook; object id]: instance / class attributes that exist
                   under hook names before the machine is attached; k = number of such objects
     order       : list of feature codes (0 Tags, 1 Error, 2 Volatile, 3 Retry)
     states      : list of [id; [g_tags g_accepted g_hook g_retry]; enter; exit; tags; accepted;
                            hook; retries; on_failure option]
     transitions : list of [event; src; dst option]
     history     : list of [0; model; event] | [1; event; src; dst option] (add_transition)
                   | [2; event; src] (remove_transition(event, source=src))
     tags, hooks : the tag ids / hook ids that are inspected
   observation := [1; [1; exn]]                       construction raised
                | [1; [0; tag table; steps; steps of the undecorated machine (no hooks inspected);
                       steps of the specification FeaturesSpec.spec_run (used to validate the
                       harness's oracle, not compared with the implementation);
                       flat cases: steps of the hierarchical engine on the flat configuration]]
     tag table : per state, per inspected tag: [] (AttributeError) or [bool]
     step      : [items; result; per model [state; per inspected hook: [] or [object id]]] *)
From Coq Require Import List Arith Bool.
From M Require Import Sx Features FeaturesSpec FeaturesH FeaturesDyn FeaturesRe FeaturesKinds.
Import ListNotations.

Definition d_feature (x : sx) : option feature :=
  match x with
  | N 0 => Some FTags | N 1 => Some FError | N 2 => Some FVolatile | N 3 => Some FRetry
  | _ => None
  end.

Definition d_given (x : sx) : option fgiven :=
  match x with
  | L [a; b; c; d] =>
      do a' <- d_bool a; do b' <- d_bool b; do c' <- d_bool c; do d' <- d_bool d;
      Some (mkGiven a' b' c' d')
  | _ => None
  end.

Definition d_fstate (x : sx) : option (fstate_id * (fgiven * fsdef)) :=
  match x with
  | L [N s; g; en; ex; tg; acc; N hk; N rt; onf] =>
      do g' <- d_given g; do en' <- d_list d_nat en; do ex' <- d_list d_nat ex;
      do tg' <- d_list d_nat tg; do acc' <- d_bool acc; do onf' <- d_option d_nat onf;
      Some (s, (g', mkFS en' ex' tg' acc' hk rt onf'))
  | _ => None
  end.

Definition d_ftrans (x : sx) : option ftrans :=
  match x with
  | L [N e; N s; d] => do d' <- d_option d_nat d; Some (mkFT e s d')
  | _ => None
  end.

Definition e_fexn (e : fexn) : sx :=
  match e with EMachine => N 0 | EAttribute => N 1 | EType => N 2 end.
Definition e_fitem (i : fitem) : sx :=
  match i with
  | IExit cb m s => L [N 0; N cb; N m; N s]
  | IEnter cb m s => L [N 1; N cb; N m; N s]
  | IFail cb m s => L [N 2; N cb; N m; N s]
  end.
Definition e_fres (r : fres) : sx :=
  match r with RTrue => L [N 0; N 1] | RFalse => L [N 0; N 0] | RExn e => L [N 1; e_fexn e] end.

(* history entry: [0; model; event] trigger, [1; event; src; dst option] add_transition,
   [2; event; src] remove_transition(event, source=src) *)
Definition d_op (x : sx) : option fop :=
  match x with
  | L [N 0; N m; N e] => Some (OTrig m e)
  | L [N 1; N e; N s; d] => do d' <- d_option d_nat d; Some (OAdd (mkFT e s d'))
  | L [N 2; N e; N s] => Some (ORemove e s)
  | _ => None
  end.

Definition d_triple (x : sx) : option (nat * nat * nat) :=
  match x with L [N a; N b; N c] => Some (a, b, c) | _ => None end.
Fixpoint lookup3 (l : list (nat * nat * nat)) (m h : nat) : option nat :=
  match l with
  | [] => None
  | (a, b, c) :: r => if Nat.eqb a m && Nat.eqb b h then Some c else lookup3 r m h
  end.

(* what getattr(model, hook) shows: instance attribute, else class attribute *)
Definition e_model (cls : nat -> nat -> option nat) (hooks : list nat) (w : world) (m : nat) : sx :=
  L [N (m_state (w_m w m)); L (map (fun h => e_option e_nat (visible cls w m h)) hooks)].

Definition e_step (cls : nat -> nat -> option nat) (nm : nat) (hooks : list nat)
                  (o : list fitem * world * fres) : sx :=
  match o with
  | (tr, w, res) =>
      L [e_list e_fitem tr; e_fres res; L (map (e_model cls hooks w) (seq 0 nm))]
  end.

(* a call of the specification, in the same format (hooks read through spec_hooks) *)
Definition e_sstep (c : fcfg) (cls : nat -> nat -> option nat) (nm : nat) (hooks : list nat)
                   (o : list fitem * sworld * fres) : sx :=
  match o with
  | (tr, sw, res) =>
      L [e_list e_fitem tr; e_fres res;
         L (map (fun m => L [N (sp_state (sw_m sw m));
                             L (map (fun h => e_option e_nat
                                                (match spec_hooks c (sw_m sw m) h with
                                                 | Some o => Some o | None => cls m h end)) hooks)])
                (seq 0 nm))]
  end.

Definition e_tagtable (c : fcfg) (tags : list nat) : sx :=
  L (map (fun sd => L (map (fun t => e_option e_bool (tag_answer c (fst sd) t)) tags)) (c_states c)).

(* flat case (no paths, no initial children): the flat engine [frun] of the theorems, its
   specification, and the hierarchical engine on the same flat configuration (must coincide);
   nested case: the hierarchical engine [hrun]. *)
(* decoration: decorators outermost first, each a list of codes (0-3 features, 4 Timeout) *)
Definition d_mixin (x : sx) : option mixin :=
  match x with
  | N 4 => Some MTimeout
  | _ => match d_feature x with Some f => Some (MFeat f) | None => None end
  end.
(* [[on_final; on_timeout] of the decorated class; the same of the undecorated class] *)
Definition e_kinds (ds : list (list mixin)) (hier : bool) : sx :=
  L [L [e_bool (has_kind KFinal (stack_kinds ds (base_kinds hier)));
        e_bool (has_kind KTimeout (stack_kinds ds (base_kinds hier)))];
     L [e_bool (has_kind KFinal (base_kinds hier)); e_bool (has_kind KTimeout (base_kinds hier))]].

(* re-entrant cases *)
Definition trig_of (h : list fop) : list (fmodel * fevent) :=
  flat_map (fun op => match op with OTrig m e => [(m, e)] | _ => [] end) h.
Fixpoint lookup_retrig (l : list (nat * nat * nat)) (cb : nat) : option (nat * nat) :=
  match l with
  | [] => None
  | (a, e, b) :: r => if Nat.eqb a cb then Some (e, b) else lookup_retrig r cb
  end.
Definition out_of_fuel : sx := L [L []; L [N 2; N 0]; L []].
Definition e_rstep (cl : nat -> nat -> option nat) (nm : nat) (hooks : list nat)
                   (o : option (list fitem * rworld * fres)) : sx :=
  match o with
  | Some (tr, rw, res) => e_step cl nm hooks (tr, rw_w rw, res)
  | None => out_of_fuel
  end.
Definition e_srstep (c : fcfg) (cl : nat -> nat -> option nat) (nm : nat) (hooks : list nat)
                    (o : option (list fitem * srworld * fres)) : sx :=
  match o with
  | Some (tr, rw, res) => e_sstep c cl nm hooks (tr, srw_w rw, res)
  | None => out_of_fuel
  end.
Definition re_fuel : nat := 64.

Definition run_features_case (x : sx) : sx :=
  match x with
  | L [ox; sx_; tx; ign; N nm; N s0; hx; tgx; hkx; px; ix; prex; clsx; N k; rtx; fnx; dcx; hrx] =>
      match d_list d_feature ox, d_list d_fstate sx_, d_list d_ftrans tx, d_bool ign,
            d_list d_op hx, d_list d_nat tgx, d_list d_nat hkx,
            d_list (d_pair d_nat (d_list d_nat)) px, d_list (d_pair d_nat d_nat) ix,
            d_list d_triple prex, d_list d_triple clsx, d_list d_triple rtx, d_list d_nat fnx, d_list (d_list d_mixin) dcx, d_bool hrx with
      | Some o, Some sts, Some ts, Some ig, Some h, Some tags, Some hooks, Some paths, Some inits,
        Some pre, Some cls, Some rts, Some _finals, Some ds, Some hier =>
          match build o (map snd sts) with
          | Some e => L [N 1; L [N 1; e_fexn e]]
          | None =>
              let c := mkCfg o (map (fun p => (fst p, snd (snd p))) sts) ts ig in
              let w0 := init_world_p s0 (lookup3 pre) k in
              let cl := lookup3 cls in
              let nocl := fun _ _ : nat => @None nat in
              match rts, paths, inits with
              | _ :: _, _, _ =>
                  (* enter callbacks that re-trigger (flat configuration, fixed table) *)
                  let trg := lookup_retrig rts in
                  let rw0 := mkRW w0 (fun _ => 0) in
                  L [N 1; L [N 0; e_tagtable c tags;
                             L (map (e_rstep cl nm hooks) (rrun re_fuel c trg rw0 (trig_of h)));
                             L (map (e_rstep nocl nm []) (rrun re_fuel (plain_cfg c) trg rw0 (trig_of h)));
                             L (map (e_srstep c cl nm hooks)
                                    (spec_rrun re_fuel c trg (mkSRW (spec_init_p s0 (lookup3 pre) k) (fun _ => 0))
                                               (trig_of h)));
                             L []; e_kinds ds hier]]
              | [], [], [] =>
                  L [N 1; L [N 0; e_tagtable c tags;
                             L (map (e_step cl nm hooks) (drun c ts w0 h));
                             L (map (e_step nocl nm []) (drun (plain_cfg c) ts w0 h));
                             L (map (e_sstep c cl nm hooks) (spec_drun c ts (spec_init_p s0 (lookup3 pre) k) h));
                             L (map (e_step cl nm hooks) (hdrun (hflat c) ts w0 h)); e_kinds ds hier]]
              | [], _, _ =>
                  let hc := mkH c paths inits in
                  L [N 1; L [N 0; e_tagtable c tags;
                             L (map (e_step cl nm hooks) (hdrun hc ts w0 h));
                             L (map (e_step nocl nm []) (hdrun (hplain hc) ts w0 h));
                             L []; L []; e_kinds ds hier]]
              end
          end
      | _, _, _, _, _, _, _, _, _, _, _, _, _, _, _ => L [N 0]
      end
  | _ => L [N 0]
  end.
