(* HsmQueueIO.v — queued hierarchical machines with several models whose callbacks trigger further
   events / remove models / raise: Queue.drain (the abstract queue of C05, generic in the step function)
   instantiated with the hierarchical engine Hsm.trigger_event; decoding / encoding.
   HierarchicalMachine.trigger_event hands its work to Machine._process, the same queue as the flat one. *)
From Coq Require Import List Arith Bool.
From M Require Import Sx Base Flat FlatIO Hsm HsmIO Queue.
Import ListNotations.

Record hworld : Type := mkHWorld { hw_cfgs : list (model * forest); hw_pos : nat }.

Fixpoint set_cfg (l : list (model * forest)) (m : model) (f : forest) : list (model * forest) :=
  match l with
  | [] => [(m, f)]
  | (m', f') :: r => if Nat.eqb m m' then (m, f) :: r else (m', f') :: set_cfg r m f
  end.
Definition cfg_of (w : hworld) (m : model) : forest :=
  match lookup (hw_cfgs w) m with Some f => f | None => [] end.

Section HInst.
  Variable hm : hmachine.
  Variable ev : env.

  Definition hqstep (w : hworld) (q : qentry) : (list (gitem forest) * list action * option exn * hworld) :=
    let c := mkCtx (q_model q) (q_payload q) (hm_send_event hm) in
    match Hsm.trigger_event hm ev c (q_event q) (hw_pos w) (cfg_of w (q_model q)) with
    | (tr, f', r) =>
        (tr, flat_map (fun it => it_acts it) tr, match r with inl e => Some e | inr _ => None end,
         mkHWorld (set_cfg (hw_cfgs w) (q_model q) f') (hw_pos w + length tr))
    end.

  Definition hnested_payload (q : qentry) (k : nat) : nat := 1000 + 16 * q_id q + k.

  Definition e_hblock (b : block (list (gitem forest))) : sx :=
    L [N (q_id (b_entry b)); N (q_model (b_entry b)); N (q_event (b_entry b)); N (q_payload (b_entry b));
       e_list e_hitem (b_trace b); e_option e_exn (b_raised b)].

  Fixpoint run_hqhistory (fuel : nat) (hs : list (model * event * nat)) (w : hworld)
           (s : qstate) : list sx :=
    match hs with
    | [] => []
    | (m, e, a) :: rest =>
        match top_trigger hqstep hnested_payload fuel w s m e a with
        | None => [L [N 9]]                                        (* out of fuel *)
        | Some (bs, r, w', s') =>
            L [e_list e_hblock bs;
               match r with Some x => L [N 1; e_exn x] | None => L [N 0; N 1] end;
               e_list (e_pair e_nat e_forest) (hw_cfgs w');
               e_list e_nat (qs_models s');
               N (length (qs_queue s'))]
            :: run_hqhistory fuel rest w' s'
        end
    end.
End HInst.

(* case := [hmachine; env; models [(id, initial path)]; history [(model, event, payload)]] *)
Definition run_hsmq_case (x : sx) : sx :=
  match x with
  | L [mcx; evx; msx; hx] =>
      match d_hmachine mcx, d_env evx, d_list (d_pair d_nat d_path) msx,
            d_list (fun y => match y with L [N m; N e; N a] => Some (m, e, a) | _ => None end) hx with
      | Some hm, Some ev, Some ms, Some hs =>
          let cfgs := map (fun mi => (fst mi, initial_config hm (snd mi))) ms in
          L [N 1; e_list (e_pair e_nat e_forest) cfgs;
             L (run_hqhistory hm ev 200 hs (mkHWorld cfgs 0) (mkQS [] (map fst ms) 0 []))]
      | _, _, _, _ => L [N 0]
      end
  | _ => L [N 0]
  end.

(* ---------- unqueued hierarchical machine whose callbacks trigger events (HReent.v) ---------- *)
From M Require Import HReent.
Fixpoint hr_history (hm : hmachine) (ev : env) (m : model) (fuel : nat) (hs : list (event * nat))
                    (p : nat) (s : forest) : list sx :=
  match hs with
  | [] => []
  | (e, a) :: rest =>
      match hrtrigger hm ev m fuel e a p s with
      | (tr, s', r) =>
          L [e_list e_hitem tr; e_result r; e_forest s'] :: hr_history hm ev m fuel rest (p + length tr) s'
      end
  end.

(* case := [hmachine; env; model id; initial path; history [(event, payload)]] *)
Definition run_hreent_case (x : sx) : sx :=
  match x with
  | L [mcx; evx; N m; inix; hx] =>
      match d_hmachine mcx, d_env evx, d_path inix,
            d_list (fun y => match y with L [N e; N a] => Some (e, a) | _ => None end) hx with
      | Some hm, Some ev, Some ini, Some hs =>
          let f0 := initial_config hm ini in
          L [N 1; e_forest f0; L (hr_history hm ev m 12 hs 0 f0)]
      | _, _, _, _ => L [N 0]
      end
  | _ => L [N 0]
  end.
