(* HsmSpec.v — specification-level notions for hierarchical configurations: the set of
   nodes of a forest, sibling-uniqueness, registered paths.  Definitions only. *)
From Coq Require Import List Arith Bool.
From M Require Import Base Flat Hsm.
Import ListNotations.

(* all nodes of a forest as absolute paths (pre-order) *)
Fixpoint nodes_t (t : tree) : list path :=
  match t with Node n ch => [n] :: map (cons n) (flat_map nodes_t ch) end.
Definition nodes (f : forest) : list path := flat_map nodes_t f.

Definition names (f : forest) : list nat := map t_name f.

Fixpoint nodupb (l : list nat) : bool :=
  match l with
  | [] => true
  | x :: r => andb (negb (existsb (Nat.eqb x) r)) (nodupb r)
  end.

(* sibling names are unique at every level *)
Fixpoint uniq_t (t : tree) : bool :=
  match t with Node _ ch => andb (nodupb (map t_name ch)) (forallb uniq_t ch) end.
Definition uniq (f : forest) : bool := andb (nodupb (names f)) (forallb uniq_t f).

Fixpoint nonincr (l : list nat) : Prop :=
  match l with
  | [] => True
  | x :: r => Forall (fun y => y <= x) r /\ nonincr r
  end.
Fixpoint nondecr (l : list nat) : Prop :=
  match l with
  | [] => True
  | x :: r => Forall (fun y => x <= y) r /\ nondecr r
  end.

Definition is_prefix (a p : path) : Prop := exists q, p = a ++ q.
