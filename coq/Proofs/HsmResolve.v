(* HsmResolve.v — C02: what a transition exits and enters (NestedTransition._resolve_transition). *)
From Coq Require Import List Arith Bool Lia.
From M Require Import Base Flat Hsm HsmSpec.
From P Require Import HsmForest.
Import ListNotations.

(* ---------- uniqueness is inherited / preserved ---------- *)
Lemma uniq_sub : forall p f g, uniq f = true -> sub f p = Some g -> uniq g = true.
Proof.
  induction p as [|n r IH]; intros f g U H; cbn in H; [now injection H as <-|].
  destruct (f_get f n) as [ch|] eqn:G; [|discriminate].
  eapply IH; [|exact H]. eapply uniq_child; [exact U|]. apply f_get_In. exact G.
Qed.

Lemma uniq_single n ch : uniq ch = true -> uniq [Node n ch] = true.
Proof. intros U. unfold uniq in *. cbn. rewrite andb_true_r. exact U. Qed.

Lemma uniq_chain : forall d bottom, uniq bottom = true -> uniq (chain_tree d bottom) = true.
Proof. induction d as [|n r IH]; intros b U; cbn [chain_tree]; [exact U|]. apply uniq_single. now apply IH. Qed.

(* ---------- membership in mapped lists ---------- *)
Lemma in_map_app_inv (base : path) L q : In (base ++ q) (map (fun p => base ++ p) L) <-> In q L.
Proof.
  rewrite in_map_iff. split.
  - intros (x & Hx & Hin). apply app_inv_head in Hx. now subst.
  - intros H. exists q. split; [reflexivity|exact H].
Qed.
Lemma in_map_app_form (base : path) L p : In p (map (fun x => base ++ x) L) -> exists q, p = base ++ q /\ In q L.
Proof. rewrite in_map_iff. intros (x & <- & H). eauto. Qed.

Lemma split_go_spec : forall d cur root r1 r2,
  split_go cur root d = (r1, r2) -> exists a, r1 = root ++ a /\ d = a ++ r2.
Proof.
  induction d as [|n d' IH]; intros cur root r1 r2 H; cbn in H.
  - injection H as <- <-. exists []. now rewrite app_nil_r.
  - destruct (f_get cur n) as [ch|].
    + apply IH in H as (a & -> & ->). exists (n :: a). split; [now rewrite <- app_assoc|reflexivity].
    + injection H as <- <-. exists []. now rewrite app_nil_r.
Qed.

Lemma split_active_rest f sc dst root rest : dst <> [] -> split_active f sc dst = (root, rest) -> rest <> [].
Proof.
  unfold split_active. intros Hd H. destruct (sub f sc) as [cur|]; [|injection H as <- <-; exact Hd].
  destruct (split_go cur [] dst) as [r1 r2] eqn:E. destruct r2 as [|x r2']; injection H as <- <-; discriminate.
Qed.

Lemma nonincr_shift k l : nonincr l -> nonincr (map (fun n => k + n) l).
Proof.
  induction l as [|a r IH]; cbn; [tauto|]. intros [H1 H2]. split; [|now apply IH].
  rewrite Forall_map. eapply Forall_impl; [|exact H1]. cbn. intros; lia.
Qed.
Lemma nondecr_shift k l : nondecr l -> nondecr (map (fun n => k + n) l).
Proof.
  induction l as [|a r IH]; cbn; [tauto|]. intros [H1 H2]. split; [|now apply IH].
  rewrite Forall_map. eapply Forall_impl; [|exact H1]. cbn. intros; lia.
Qed.
Lemma map_length_app (base : path) L :
  map (@length nat) (map (fun p => base ++ p) L) = map (fun n => length base + n) (map (@length nat) L).
Proof. rewrite !map_map. apply map_ext. intros. now rewrite app_length. Qed.

Section Resolve.
  Variable f : forest.
  Variables sc dst : path.
  Variable dd : sdefn.
  Variable r : resolution.
  Hypothesis U : uniq f = true.
  Hypothesis UB : uniq (initial_tree def_depth_bound dd) = true.
  Hypothesis Hdst : dst <> [].
  Hypothesis R : resolve f sc dst dd = Some r.

  Variables root rest : path.
  Hypothesis SA : split_active f sc dst = (root, rest).
  Notation base := (sc ++ root).
  Notation bottom := (initial_tree def_depth_bound dd).

  Lemma rest_ne : rest <> [].
  Proof. eapply split_active_rest; eauto. Qed.

  (* the destination's branch is active whenever several children of the ancestor are *)
  Definition narrow_ok : Prop :=
    forall scoped, sub f base = Some scoped -> 1 < length scoped -> f_get scoped (hd 0 rest) <> None.
  Hypothesis NOK : narrow_ok.

  Lemma resolve_unfold :
    exists scoped, sub f base = Some scoped /\
      let d0 := hd 0 rest in
      let narrowed := Nat.ltb 1 (length scoped) in
      let exit_scope := if narrowed then match f_get scoped d0 with Some ch => [Node d0 ch] | None => [Node d0 []] end else scoped in
      let newscoped := if narrowed then f_set scoped d0 (chain_tree (tl rest) bottom) else chain_tree rest bottom in
      r = mkRes (map (fun p => base ++ p) (resolve_order exit_scope))
                (update_at f base (fun _ => newscoped))
                (prefixes_from base rest ++ map (fun p => base ++ rest ++ p) (bfs bottom)).
  Proof.
    unfold resolve in R. rewrite SA in R.
    destruct (sub f (sc ++ root)) as [scoped|]; [|discriminate]. exists scoped. split; [reflexivity|].
    cbv zeta. cbv zeta in R. injection R as <-. reflexivity.
  Qed.

  (* every exit and every enter concerns a state strictly below base *)
  Lemma exits_form p : In p (r_exits r) -> exists q, p = base ++ q /\ q <> [].
  Proof.
    destruct resolve_unfold as (scoped & S & E). cbv zeta in E. rewrite E. cbn [r_exits]. intros H.
    apply in_map_app_form in H as (q & -> & Hq). exists q. split; [reflexivity|].
    apply in_resolve_order in Hq. intros ->. eapply nil_notin_nodes; eauto.
  Qed.
  Lemma enters_form p : In p (r_enters r) -> exists q, p = base ++ q /\ q <> [].
  Proof.
    destruct resolve_unfold as (scoped & S & E). cbv zeta in E. rewrite E. cbn [r_enters]. intros H.
    apply in_app_iff in H as [H|H].
    - apply in_prefixes_from in H as (q & r' & Hq & _ & ->). eauto.
    - apply in_map_iff in H as (x & <- & Hx). exists (rest ++ x). split; [reflexivity|].
      pose proof rest_ne. destruct rest; [congruence|discriminate].
  Qed.

  (* which paths below base are entered *)
  Lemma enters_below q : q <> [] ->
    (In (base ++ q) (r_enters r) <-> active (chain_tree rest bottom) q = true).
  Proof.
    intros Hq. destruct resolve_unfold as (scoped & S & E). cbv zeta in E. rewrite E. cbn [r_enters].
    rewrite (active_chain rest bottom q rest_ne Hq). rewrite in_app_iff. split.
    - intros [H|H].
      + apply in_prefixes_from in H as (q' & r' & Hq' & Hr & Hp). apply app_inv_head in Hp. subst q'. left. eauto.
      + apply in_map_iff in H as (x & Hx & Hin). apply app_inv_head in Hx. right. exists x. split; [now rewrite Hx|].
        apply in_bfs in Hin. apply in_nodes_active in Hin; [|exact UB]. exact Hin.
    - intros [[r' Hr]|[r' [Hr [Hne Ha]]]].
      + left. apply in_prefixes_from. exists q, r'. repeat split; auto.
      + right. apply in_map_iff. exists r'. split; [now rewrite Hr|]. apply in_bfs. apply in_nodes_active; [exact UB|]. split; auto.
  Qed.

  (* which paths below base are exited: exactly the active ones inside the exit scope *)
  Lemma exits_below scoped q : sub f base = Some scoped -> q <> [] ->
    (In (base ++ q) (r_exits r) <->
       active scoped q = true /\ (Nat.ltb 1 (length scoped) = true -> hd 0 q = hd 0 rest)).
  Proof.
    intros S Hq. destruct resolve_unfold as (scoped' & S' & E). rewrite S in S'. injection S' as <-.
    cbv zeta in E. rewrite E. cbn [r_exits]. rewrite in_map_app_inv, in_resolve_order.
    pose proof (uniq_sub _ _ _ U S) as US.
    destruct (Nat.ltb 1 (length scoped)) eqn:NW.
    - pose proof (NOK scoped S) as NK. assert (LT: 1 < length scoped) by (apply Nat.ltb_lt; exact NW). specialize (NK LT).
      destruct (f_get scoped (hd 0 rest)) as [ch|] eqn:G; [|congruence].
      assert (UC: uniq [Node (hd 0 rest) ch] = true).
      { apply uniq_single. eapply uniq_child; [exact US|]. eapply f_get_In; exact G. }
      rewrite (in_nodes_active q _ UC). destruct q as [|m q1]; [congruence|]. unfold active. cbn [sub f_get hd].
      destruct (Nat.eqb (hd 0 rest) m) eqn:EM.
      + apply Nat.eqb_eq in EM. subst m. rewrite G. split; [intros [_ H]; split; auto|intros [H _]; split; [discriminate|exact H]].
      + apply Nat.eqb_neq in EM. split; [intros [_ H]; discriminate|]. intros [_ H]. specialize (H eq_refl). congruence.
    - rewrite (in_nodes_active q _ US). split; [intros [_ H]; split; [exact H|discriminate]|intros [H _]; split; [exact Hq|exact H]].
  Qed.

  (* C02, balance: the new configuration consists of the old active states that were not
     exited plus the entered ones *)
  Theorem resolve_balance p : p <> [] ->
    (active (r_new r) p = true <-> (active f p = true /\ ~ In p (r_exits r)) \/ In p (r_enters r)).
  Proof.
    intros Hp. destruct resolve_unfold as (scoped & S & E). cbv zeta in E.
    pose proof rest_ne as RN.
    assert (NEW: r_new r = update_at f base (fun _ => if Nat.ltb 1 (length scoped) then f_set scoped (hd 0 rest) (chain_tree (tl rest) bottom) else chain_tree rest bottom)) by (rewrite E; reflexivity).
    destruct (list_eq_dec Nat.eq_dec (firstn (length base) p) base) as [PF|NPF].
    - (* p = base ++ q *)
      assert (HP: p = base ++ skipn (length base) p) by (rewrite <- PF at 1; now rewrite firstn_skipn).
      set (q := skipn (length base) p) in *. destruct q as [|m q1] eqn:EQ.
      + (* p = base itself: stays active, neither exited nor entered *)
        rewrite app_nil_r in HP. subst p. split.
        * intros _. left. split; [unfold active; now rewrite S|].
          intros H. apply exits_form in H as (q' & Hq' & Hne). rewrite <- (app_nil_r base) in Hq' at 1. apply app_inv_head in Hq'. congruence.
        * intros _. rewrite NEW. unfold active.
          pose proof (sub_update_below base f (fun _ => if Nat.ltb 1 (length scoped) then f_set scoped (hd 0 rest) (chain_tree (tl rest) bottom) else chain_tree rest bottom) scoped [] S) as SU.
          rewrite app_nil_r in SU. rewrite SU. reflexivity.
      + rewrite HP. rewrite NEW. rewrite active_app.
        pose proof (sub_update_below base f (fun _ => if Nat.ltb 1 (length scoped) then f_set scoped (hd 0 rest) (chain_tree (tl rest) bottom) else chain_tree rest bottom) scoped [] S) as SU.
        rewrite app_nil_r in SU. rewrite SU. cbn [sub]. clear SU.
        rewrite (exits_below scoped (m :: q1) S ltac:(discriminate)).
        rewrite (enters_below (m :: q1) ltac:(discriminate)).
        rewrite (active_app f base (m :: q1)), S.
        destruct rest as [|d0 rt] eqn:ER; [congruence|]. cbn [hd tl].
        destruct (Nat.ltb 1 (length scoped)) eqn:NW.
        * (* several children of base are active: only the destination's branch changes *)
          unfold active at 1. cbn [sub]. rewrite f_get_f_set. cbn [hd].
          destruct (Nat.eqb m d0) eqn:EM.
          -- apply Nat.eqb_eq in EM. subst m. unfold active at 3. cbn [chain_tree sub f_get]. rewrite Nat.eqb_refl.
             split; [intros H; now right|]. intros [[H1 H2]|H]; [exfalso; apply H2; split; auto|exact H].
          -- apply Nat.eqb_neq in EM. unfold active at 3. cbn [chain_tree sub f_get].
             rewrite (proj2 (Nat.eqb_neq d0 m)) by congruence.
             fold (active scoped (m :: q1)) . unfold active at 1 2. cbn [sub].
             split; [intros H; left; split; [exact H|intros [_ H2]; specialize (H2 eq_refl); congruence]|].
             intros [[H _]|H]; [exact H|discriminate].
        * split; [intros H; now right|]. intros [[H1 H2]|H]; [exfalso; apply H2; split; [exact H1|discriminate]|exact H].
    - (* p does not pass through base: untouched *)
      assert (NP: ~ is_prefix base p).
      { intros [q Hq]. apply NPF. rewrite Hq. rewrite firstn_app, Nat.sub_diag, firstn_all. cbn. now rewrite app_nil_r. }
      rewrite NEW, active_update_other by exact NP. split.
      + intros H. left. split; [exact H|]. intros HI. apply exits_form in HI as (q & -> & _). apply NP. now exists q.
      + intros [[H _]|H]; [exact H|]. apply enters_form in H as (q & -> & _). exfalso. apply NP. now exists q.
  Qed.

  (* no state is exited while it is not active *)
  Theorem resolve_exits_active p : In p (r_exits r) -> active f p = true.
  Proof.
    intros H. pose proof H as H0. apply exits_form in H as (q & -> & Hq).
    destruct resolve_unfold as (scoped & S & _).
    destruct (proj1 (exits_below scoped q S Hq) H0) as [A _]. rewrite active_app, S. exact A.
  Qed.

  (* no state is entered while it is (still) active: what is entered was inactive or has just been exited *)
  Theorem resolve_enters_fresh p : In p (r_enters r) -> active f p = true -> In p (r_exits r).
  Proof.
    intros H A. pose proof H as H0. apply enters_form in H as (q & -> & Hq).
    destruct resolve_unfold as (scoped & S & _).
    apply (exits_below scoped q S Hq). rewrite active_app, S in A. split; [exact A|].
    intros NW. pose proof (proj1 (enters_below q Hq) H0) as H1. clear H0. rename H1 into H0.
    pose proof rest_ne. destruct rest as [|d0 rt]; [congruence|]. destruct q as [|m q1]; [congruence|].
    unfold active in H0. cbn [chain_tree sub f_get] in H0. cbn [hd].
    destruct (Nat.eqb d0 m) eqn:EM; [apply Nat.eqb_eq in EM; congruence|discriminate].
  Qed.

  (* exits run children before parents (deepest first); enters parents before children *)
  Theorem resolve_exits_order : nonincr (map (@length nat) (r_exits r)).
  Proof.
    destruct resolve_unfold as (scoped & S & E). cbv zeta in E. rewrite E. cbn [r_exits].
    rewrite map_length_app. apply nonincr_shift, resolve_order_nonincr.
  Qed.
  Theorem resolve_enters_order : nondecr (map (@length nat) (r_enters r)).
  Proof.
    destruct resolve_unfold as (scoped & S & E). cbv zeta in E. rewrite E. cbn [r_enters].
    rewrite map_app. destruct (prefixes_from_lengths rest base) as [P1 P2]. apply nondecr_app.
    - exact P1.
    - rewrite (map_ext (fun p => base ++ rest ++ p) (fun p => (base ++ rest) ++ p)) by (intros; now rewrite app_assoc).
      rewrite map_length_app. apply nondecr_shift, bfs_nondecr.
    - intros x y Hx Hy. specialize (P2 x Hx). apply in_map_iff in Hy as (p & <- & Hp).
      apply in_map_iff in Hp as (q & <- & _). rewrite !app_length in *. lia.
  Qed.
End Resolve.
Lemma uniq_t_node n ch : uniq_t (Node n ch) = uniq ch.
Proof. reflexivity. Qed.

Lemma names_map_upd f n (h : forest -> forest) :
  names (map (fun t => if Nat.eqb (t_name t) n then Node n (h (t_children t)) else t) f) = names f.
Proof.
  unfold names. rewrite map_map. apply map_ext. intros t. destruct (Nat.eqb (t_name t) n) eqn:E; [|reflexivity].
  apply Nat.eqb_eq in E. cbn. congruence.
Qed.

Lemma uniq_update : forall base f g, uniq f = true -> uniq g = true -> uniq (update_at f base (fun _ => g)) = true.
Proof.
  induction base as [|n b IH]; intros f g Uf Ug; cbn [update_at]; [exact Ug|].
  unfold uniq in *. apply andb_true_iff in Uf as [N F]. apply andb_true_iff. split.
  - rewrite (names_map_upd f n (fun c => update_at c b (fun _ => g))). exact N.
  - rewrite forallb_forall in *. intros t Ht. apply in_map_iff in Ht as (t0 & <- & Ht0).
    specialize (F t0 Ht0). destruct (Nat.eqb (t_name t0) n); [|exact F].
    destruct t0 as [m ch]. cbn [t_children]. rewrite uniq_t_node in *. apply andb_true_iff. apply andb_true_iff in F as [F1 F2].
    assert (UU: uniq (update_at ch b (fun _ => g)) = true).
    { apply IH; [|exact Ug]. unfold uniq. now rewrite F1, F2. }
    unfold uniq in UU. apply andb_true_iff in UU. exact UU.
Qed.

Lemma names_f_set f k v : names (f_set f k v) = if existsb (Nat.eqb k) (names f) then names f else names f ++ [k].
Proof.
  induction f as [|[m c] r IH]; [reflexivity|].
  unfold names in *. cbn [f_set map existsb t_name].
  rewrite (Nat.eqb_sym k m). destruct (Nat.eqb m k) eqn:E; cbn [orb].
  - apply Nat.eqb_eq in E. subst. reflexivity.
  - cbn [map t_name]. rewrite IH. destruct (existsb (Nat.eqb k) (map t_name r)); reflexivity.
Qed.

Lemma nodupb_snoc l k : nodupb l = true -> existsb (Nat.eqb k) l = false -> nodupb (l ++ [k]) = true.
Proof.
  induction l as [|a r IH]; cbn; [reflexivity|]. intros H E.
  apply andb_true_iff in H as [H1 H2]. apply orb_false_iff in E as [E1 E2].
  rewrite existsb_app. cbn. rewrite orb_false_r. apply negb_true_iff in H1. rewrite H1.
  rewrite (Nat.eqb_sym a k), E1. cbn. now apply IH.
Qed.

Lemma uniq_f_set f k v : uniq f = true -> uniq v = true -> uniq (f_set f k v) = true.
Proof.
  intros Uf Uv. unfold uniq in *. apply andb_true_iff in Uf as [N F]. apply andb_true_iff. split.
  - rewrite names_f_set. destruct (existsb (Nat.eqb k) (names f)) eqn:E; [exact N|now apply nodupb_snoc].
  - clear N. induction f as [|[m c] r IH]; cbn [f_set forallb].
    + rewrite uniq_t_node. unfold uniq. now rewrite Uv.
    + cbn [forallb] in F. apply andb_true_iff in F as [F1 F2]. destruct (Nat.eqb m k); cbn [forallb].
      * rewrite uniq_t_node. unfold uniq. rewrite F2. now rewrite Uv.
      * rewrite F1. now apply IH.
Qed.

(* sibling-uniqueness is preserved by every transition *)
Theorem resolve_uniq f sc dst dd r :
  uniq f = true -> uniq (initial_tree def_depth_bound dd) = true ->
  resolve f sc dst dd = Some r -> uniq (r_new r) = true.
Proof.
  intros U UB R. unfold resolve in R. destruct (split_active f sc dst) as [root rest].
  destruct (sub f (sc ++ root)) as [scoped|] eqn:S; [|discriminate]. cbv zeta in R. injection R as <-. cbn [r_new].
  apply uniq_update; [exact U|]. destruct (Nat.ltb 1 (length scoped)).
  - apply uniq_f_set; [eapply uniq_sub; [exact U|exact S]|]. now apply uniq_chain.
  - now apply uniq_chain.
Qed.
(* frame: a subtree that neither contains nor lies below the updated node is untouched *)
Lemma sub_update_other : forall base f g p,
  ~ is_prefix base p -> ~ is_prefix p base -> sub (update_at f base g) p = sub f p.
Proof.
  induction base as [|n b IH]; intros f g p NP1 NP2.
  - exfalso. apply NP1. exists p. reflexivity.
  - destruct p as [|m r]; [exfalso; apply NP2; exists (n :: b); reflexivity|].
    cbn [update_at sub]. rewrite (f_get_map_upd f n m (fun c => update_at c b g)).
    destruct (Nat.eqb m n) eqn:E; [|reflexivity].
    apply Nat.eqb_eq in E. subst m. destruct (f_get f n) as [ch|]; [|reflexivity]. cbn.
    apply IH.
    + intros [q Hq]. apply NP1. exists q. cbn. now rewrite Hq.
    + intros [q Hq]. apply NP2. exists q. cbn. now rewrite Hq.
Qed.

Lemma sub_app f a b : sub f (a ++ b) = match sub f a with Some g => sub g b | None => None end.
Proof. revert f; induction a as [|n r IH]; intros f; cbn; [reflexivity|]. destruct (f_get f n); [apply IH|reflexivity]. Qed.

Lemma split_go_active : forall d cur root r1 r2 f0 pre,
  split_go cur root d = (r1, r2) ->
  sub f0 (pre ++ root) = Some cur ->
  exists a, r1 = root ++ a /\ d = a ++ r2 /\ active f0 (pre ++ r1) = true /\
            (r2 <> [] -> active f0 (pre ++ r1 ++ [hd 0 r2]) = false).
Proof.
  induction d as [|n d' IH]; intros cur root r1 r2 f0 pre H S; cbn in H.
  - injection H as <- <-. exists []. rewrite app_nil_r. repeat split; auto.
    + unfold active. now rewrite S.
    + congruence.
  - destruct (f_get cur n) as [ch|] eqn:G.
    + apply IH with (f0 := f0) (pre := pre) in H.
      * destruct H as (a & -> & -> & A & B). exists (n :: a). rewrite <- !app_assoc in *. cbn [app] in *. repeat split; auto.
      * rewrite app_assoc, sub_app, S. cbn. now rewrite G.
    + injection H as <- <-. exists []. rewrite app_nil_r. repeat split; auto.
      * unfold active. now rewrite S.
      * intros _. cbn [hd]. unfold active. rewrite app_assoc, sub_app, S. cbn. now rewrite G.
Qed.

(* base = sc ++ root is the deepest active proper ancestor of the destination *)
Lemma split_active_spec f sc dst root rest cur :
  dst <> [] -> sub f sc = Some cur -> split_active f sc dst = (root, rest) ->
  root ++ rest = dst /\ rest <> [] /\ active f (sc ++ root) = true /\
  (active f (sc ++ root ++ [hd 0 rest]) = true -> length rest = 1 /\ active f (sc ++ dst) = true).
Proof.
  intros Hd S H. unfold split_active in H. rewrite S in H.
  destruct (split_go cur [] dst) as [r1 r2] eqn:E.
  apply split_go_active with (f0 := f) (pre := sc) in E; [|now rewrite app_nil_r].
  destruct E as (a & -> & -> & A & B). cbn [app] in *.
  destruct r2 as [|x r2'].
  - injection H as <- <-. rewrite app_nil_r in *.
    assert (AN: a <> []) by (destruct a; [congruence|discriminate]).
    split; [symmetry; apply (app_removelast_last 0 AN)|]. split; [discriminate|]. split.
    + rewrite (app_removelast_last 0 AN) in A. unfold active in *. rewrite app_assoc, sub_app in A.
      destruct (sub f (sc ++ removelast a)); [reflexivity|discriminate].
    + intros _. split; [reflexivity|exact A].
  - injection H as <- <-. split; [reflexivity|]. split; [discriminate|]. split; [exact A|].
    intros X. cbn [hd] in *. rewrite (B ltac:(discriminate)) in X. discriminate.
Qed.
