(* NamingP.v — lemmas about the naming model (C11). *)
From Coq Require Import List Arith Bool String Ascii Lia.
From M Require Import Naming.
Import ListNotations.
Open Scope string_scope.
Open Scope list_scope.

(* ------------------------------------------------------------------ strings *)
Lemma seqb_refl : forall s, String.eqb s s = true.
Proof. intro s. apply String.eqb_eq. reflexivity. Qed.
Lemma seqb_neq : forall a b, a <> b -> String.eqb a b = false.
Proof. intros a b H. apply String.eqb_neq. exact H. Qed.
Lemma seqb_sym : forall a b, String.eqb a b = String.eqb b a.
Proof.
  intros a b. destruct (String.eqb a b) eqn:E.
  - apply String.eqb_eq in E. subst. symmetry. apply seqb_refl.
  - apply String.eqb_neq in E. symmetry. apply seqb_neq. congruence.
Qed.
Ltac seq_case a b := let E := fresh "E" in destruct (String.eqb a b) eqn:E;
  [apply String.eqb_eq in E | apply String.eqb_neq in E].

Lemma append_inj : forall p a b, append p a = append p b -> a = b.
Proof. induction p; simpl; intros a0 b0 H; [exact H | inversion H; auto]. Qed.
Lemma starts_append : forall p x, starts p (append p x) = true.
Proof. induction p; simpl; intro x; [reflexivity | rewrite Ascii.eqb_refl; simpl; apply IHp]. Qed.
Lemma starts_neq : forall p a b, starts p a = true -> starts p b = false -> a <> b.
Proof. intros p a b Ha Hb E. subst. congruence. Qed.

(* ------------------------------------------------------------------ dictionaries *)
Section Dict.
Context {A : Type}.
Implicit Types (l : list (string * A)).

Lemma alookup_aset_same : forall l k v, alookup k (aset k v l) = Some v.
Proof.
  induction l as [|[k' v'] r IH]; intros k v; simpl.
  - rewrite seqb_refl. reflexivity.
  - seq_case k k'; simpl.
    + rewrite seqb_refl. reflexivity.
    + rewrite (seqb_neq _ _ E). apply IH.
Qed.
Lemma alookup_aset_other : forall l k k' v, k <> k' -> alookup k' (aset k v l) = alookup k' l.
Proof.
  induction l as [|[k0 v0] r IH]; intros k k' v H; simpl.
  - rewrite (seqb_neq k' k); congruence.
  - seq_case k k0; simpl.
    + subst. rewrite (seqb_neq k' k0); congruence.
    + seq_case k' k0; auto.
Qed.
Lemma alookup_adel_same : forall l k, alookup k (adel k l) = None.
Proof.
  induction l as [|[k0 v0] r IH]; intros k; simpl; auto.
  seq_case k k0; simpl; auto. rewrite (seqb_neq _ _ E). apply IH.
Qed.
Lemma alookup_adel_other : forall l k k', k <> k' -> alookup k' (adel k l) = alookup k' l.
Proof.
  induction l as [|[k0 v0] r IH]; intros k k' H; simpl; auto.
  seq_case k k0; simpl.
  - subst. rewrite (seqb_neq k' k0); auto.
  - seq_case k' k0; auto.
Qed.
Lemma alookup_app : forall l1 l2 k,
  alookup k (l1 ++ l2) = match alookup k l1 with Some v => Some v | None => alookup k l2 end.
Proof.
  induction l1 as [|[k0 v0] r IH]; intros l2 k; simpl; auto.
  destruct (String.eqb k k0); auto.
Qed.
Lemma alookup_in : forall l k v, alookup k l = Some v -> In (k, v) l.
Proof.
  induction l as [|[k0 v0] r IH]; intros k v; simpl; [discriminate|].
  seq_case k k0; intro H; [inversion H; subst; auto | auto].
Qed.
Lemma alookup_none_notin : forall l k, alookup k l = None -> ~ In k (map fst l).
Proof.
  induction l as [|[k0 v0] r IH]; intros k; simpl; [tauto|].
  seq_case k k0; intro H; [discriminate|]. intros [H1|H1]; [congruence | eapply IH; eauto].
Qed.
Lemma alookup_notin_none : forall l k, ~ In k (map fst l) -> alookup k l = None.
Proof.
  induction l as [|[k0 v0] r IH]; intros k; simpl; auto.
  intro H. seq_case k k0; [subst; tauto | apply IH; tauto].
Qed.
Lemma alookup_some_in_keys : forall l k v, alookup k l = Some v -> In k (map fst l).
Proof. intros l k v H. apply alookup_in in H. apply in_map_iff. exists (k, v). auto. Qed.
Lemma keys_aset_present : forall l k v v0, alookup k l = Some v0 -> map fst (aset k v l) = map fst l.
Proof.
  induction l as [|[k0 w] r IH]; intros k v v0; simpl; [discriminate|].
  seq_case k k0; simpl; intro H; [subst; auto | f_equal; eauto].
Qed.
Lemma keys_aset_absent : forall l k v, alookup k l = None -> map fst (aset k v l) = map fst l ++ [k].
Proof.
  induction l as [|[k0 w] r IH]; intros k v; simpl; auto.
  seq_case k k0; simpl; intro H; [discriminate | f_equal; eauto].
Qed.
Lemma in_adel : forall l k x, In x (adel k l) -> In x l.
Proof.
  induction l as [|[k0 w] r IH]; intros k x; simpl; auto.
  destruct (String.eqb k k0); simpl; intros H; [right; eauto | destruct H; eauto].
Qed.
Lemma in_aset : forall l k v x, In x (aset k v l) -> x = (k, v) \/ In x l.
Proof.
  induction l as [|[k0 w] r IH]; intros k v x; simpl.
  - intros [H|[]]; auto.
  - destruct (String.eqb k k0); simpl; intros [H|H]; auto. apply IH in H. tauto.
Qed.
End Dict.

Lemma smem_in : forall l k, smem k l = true <-> In k l.
Proof.
  induction l as [|x r IH]; intro k; simpl; [split; [discriminate | tauto]|].
  rewrite orb_true_iff, IH. split; intros [H|H]; auto.
  - apply String.eqb_eq in H. auto.
  - left. subst. apply seqb_refl.
Qed.

(* ------------------------------------------------------------------ C11_not_attr *)
Lemma add_transition_attr : forall c m src d ok,
  add_transition c m (c_attr c) src d ok = (m, Some ValueError).
Proof. intros. unfold add_transition. rewrite seqb_refl. reflexivity. Qed.

Lemma add_transition_noattr : forall c m trig src d ok,
  alookup (c_attr c) (m_events (fst (add_transition c m trig src d ok))) = alookup (c_attr c) (m_events m).
Proof.
  intros c m trig src d ok. unfold add_transition.
  seq_case trig (c_attr c); simpl; auto.
  rewrite alookup_aset_other by auto.
  destruct (alookup trig (m_events m)); auto.
  rewrite alookup_app. simpl. rewrite (seqb_neq (c_attr c) trig) by congruence.
  destruct (alookup (c_attr c) (m_events m)); auto.
Qed.

Lemma add_state_noattr : forall c m n,
  alookup (c_attr c) (m_events (add_state c m n)) = alookup (c_attr c) (m_events m).
Proof.
  intros c m n. unfold add_state. destruct (c_auto c); auto.
  set (sts := if smem n (m_states m) then m_states m else m_states m ++ [n]).
  set (m1 := mkM sts (m_events m) (m_initial m) (map (add_model_to_state c n) (m_models m))).
  change (alookup (c_attr c) (m_events m)) with (alookup (c_attr c) (m_events m1)).
  generalize m1. generalize sts at 1. induction sts0 as [|a r IH]; intro m0; simpl; auto.
  rewrite IH. apply add_transition_noattr.
Qed.

Lemma add_states_noattr : forall c ns m,
  alookup (c_attr c) (m_events (add_states c m ns)) = alookup (c_attr c) (m_events m).
Proof.
  intros c ns. unfold add_states. induction ns as [|n r IH]; intro m; simpl; auto.
  rewrite IH. apply add_state_noattr.
Qed.

Lemma step_noattr : forall c m x,
  alookup (c_attr c) (m_events m) = None ->
  alookup (c_attr c) (m_events (fst (step c m x))) = None.
Proof.
  intros c m x H. destruct x; simpl.
  - rewrite add_states_noattr. auto.
  - unfold set_initial. simpl. destruct (smem s (m_states m)); auto. rewrite add_state_noattr. auto.
  - pose proof (add_transition_noattr c m trig src d ok) as E.
    destruct (add_transition c m trig src d ok). simpl in *. congruence.
  - unfold remove_transition. destruct (alookup trig (m_events m)) as [tm|] eqn:Et; simpl; auto.
    assert (trig <> c_attr c) by (intro; subst; congruence).
    destruct (rm_tmap src dst tm).
    + destruct (delattr_all trig (m_models m)) as [mods b]. destruct b; simpl; auto.
      rewrite alookup_adel_other; auto.
    + simpl. rewrite alookup_aset_other; auto.
  - unfold add_model.
    destruct (match init with Some i => Some i | None => m_initial m end); simpl; auto.
    destruct (existsb _ (m_models m)); simpl; auto.
    destruct (smem s (m_states m)); simpl; auto.
  - destruct (find_obj mid (m_models m)); simpl; auto.
    destruct (call_attr c m m0 n arg). simpl. auto.
Qed.

Lemma run_from_noattr : forall c ops m,
  alookup (c_attr c) (m_events m) = None ->
  alookup (c_attr c) (m_events (run_from c m ops)) = None.
Proof.
  intros c ops. unfold run_from. induction ops as [|x r IH]; intros m H; simpl; auto.
  apply IH. apply step_noattr. exact H.
Qed.

(* an event can never be named like the state attribute: the request is rejected with
   ValueError and changes nothing, and no history of any operations creates such an event *)
Lemma not_attr : forall c ops,
  (forall m src d ok, step c m (OAddTransition (c_attr c) src d ok) = (m, Raised ValueError))
  /\ alookup (c_attr c) (m_events (run c ops)) = None.
Proof.
  intros c ops. split.
  - intros. simpl. rewrite add_transition_attr. reflexivity.
  - apply (run_from_noattr c ops empty_mach). reflexivity.
Qed.

(* ------------------------------------------------------------------ machine invariants *)
Definition tm_ok (tm : tmap) : Prop :=
  NoDup (map fst tm) /\ forall k l, In (k, l) tm -> l <> [] /\ forall t, In t l -> t_src t = k.

Record MInv (m : mach) : Prop := {
  mi_evkeys : NoDup (map fst (m_events m));
  mi_tm : forall e tm, In (e, tm) (m_events m) -> tm_ok tm;
  mi_states : NoDup (m_states m) }.

Lemma nodup_keys_aset : forall {A} (l : list (string * A)) k v,
  NoDup (map fst l) -> NoDup (map fst (aset k v l)).
Proof.
  intros A l k v H. destruct (alookup k l) eqn:E.
  - erewrite keys_aset_present; eauto.
  - rewrite keys_aset_absent by auto. apply alookup_none_notin in E.
    apply NoDup_rev in H. rewrite <- (rev_involutive (map fst l ++ [k])). apply NoDup_rev.
    rewrite rev_app_distr. simpl. constructor; auto. rewrite <- in_rev. auto.
Qed.
Lemma nodup_keys_adel : forall {A} (l : list (string * A)) k,
  NoDup (map fst l) -> NoDup (map fst (adel k l)).
Proof.
  induction l as [|[k0 w] r IH]; intros k H; simpl; auto.
  inversion H; subst. destruct (String.eqb k k0); simpl; auto.
  constructor; auto. intro Hin. apply H2. apply in_map_iff in Hin. destruct Hin as [[a b] [E Hin]].
  simpl in E. subst. apply in_adel in Hin. apply in_map_iff. exists (k0, b). auto.
Qed.
Lemma nodup_snoc : forall {A} (l : list A) x, NoDup l -> ~ In x l -> NoDup (l ++ [x]).
Proof.
  intros A l x H Hn. apply NoDup_rev in H. rewrite <- (rev_involutive (l ++ [x])). apply NoDup_rev.
  rewrite rev_app_distr. simpl. constructor; auto. rewrite <- in_rev. auto.
Qed.

Lemma tm_ok_append : forall tm t, tm_ok tm -> tm_ok (tm_append tm t).
Proof.
  intros tm t [Hk Hl]. unfold tm_append. destruct (alookup (t_src t) tm) as [l|] eqn:E.
  - split; [apply nodup_keys_aset; auto|].
    intros k l0 Hin. apply in_aset in Hin. destruct Hin as [Hin|Hin]; [|auto].
    inversion Hin; subst. split; [destruct l; discriminate|].
    intros t0 Ht. apply in_app_or in Ht. destruct Ht as [Ht|[Ht|[]]]; [|subst; auto].
    apply alookup_in in E. apply Hl in E. apply E. auto.
  - split.
    + rewrite map_app. simpl. apply nodup_snoc; auto. apply alookup_none_notin. auto.
    + intros k l0 Hin. apply in_app_or in Hin. destruct Hin as [Hin|[Hin|[]]]; [auto|].
      inversion Hin; subst. split; [discriminate|]. intros t0 [Ht|[]]. subst. auto.
Qed.
Lemma tm_ok_fold : forall d ok srcs tm, tm_ok tm ->
  tm_ok (fold_left (fun tm s => tm_append tm (mk_trans d ok s)) srcs tm).
Proof. induction srcs; simpl; intros; auto. apply IHsrcs. apply tm_ok_append. auto. Qed.
Lemma tm_ok_nil : tm_ok [].
Proof. split; [constructor | intros k l []]. Qed.

Lemma keys_filter_nodup : forall {A} (l : list (string * A)) P,
  NoDup (map fst l) -> NoDup (map fst (filter P l)).
Proof.
  induction l as [|[k w] r IH]; intros P H; simpl; auto.
  inversion H; subst. destruct (P (k, w)); simpl; auto. constructor; auto.
  intro Hin. apply H2. apply in_map_iff in Hin. destruct Hin as [x [E Hin]].
  apply filter_In in Hin. apply in_map_iff. exists x. tauto.
Qed.
Lemma tm_ok_rm : forall src dst tm, tm_ok tm -> tm_ok (rm_tmap src dst tm).
Proof.
  intros src dst tm [Hk Hl]. unfold rm_tmap. split.
  - apply keys_filter_nodup. rewrite map_map. simpl. exact Hk.
  - intros k l Hin. apply filter_In in Hin. destruct Hin as [Hin Hne].
    apply in_map_iff in Hin. destruct Hin as [[k0 l0] [E Hin]]. simpl in E. inversion E; subst.
    simpl in Hne. split; [destruct (filter (rm_keep src dst) l0); [discriminate|discriminate]|].
    intros t Ht. apply filter_In in Ht. apply (Hl _ _ Hin). tauto.
Qed.

Lemma MInv_add_transition : forall c m trig src d ok,
  MInv m -> MInv (fst (add_transition c m trig src d ok)).
Proof.
  intros c m trig src d ok [H1 H2 H3]. unfold add_transition.
  destruct (String.eqb trig (c_attr c)); simpl; [constructor; auto|].
  set (evs := if match alookup trig (m_events m) with None => true | Some _ => false end
              then m_events m ++ [(trig, [])] else m_events m).
  assert (Hk : NoDup (map fst evs)).
  { unfold evs. destruct (alookup trig (m_events m)) eqn:E; auto.
    rewrite map_app. simpl. apply nodup_snoc; auto. apply alookup_none_notin; auto. }
  assert (Ht : forall e tm, In (e, tm) evs -> tm_ok tm).
  { unfold evs. destruct (alookup trig (m_events m)) eqn:E; auto.
    intros e tm Hin. apply in_app_or in Hin. destruct Hin as [Hin|[Hin|[]]]; eauto.
    inversion Hin. apply tm_ok_nil. }
  constructor; simpl; auto.
  - apply nodup_keys_aset. auto.
  - intros e tm Hin. apply in_aset in Hin. destruct Hin as [Hin|Hin]; eauto.
    inversion Hin; subst. apply tm_ok_fold.
    destruct (alookup trig evs) eqn:E; [|apply tm_ok_nil]. apply alookup_in in E. eauto.
Qed.

Lemma add_transition_states : forall c m trig src d ok,
  m_states (fst (add_transition c m trig src d ok)) = m_states m.
Proof. intros. unfold add_transition. destruct (String.eqb trig (c_attr c)); reflexivity. Qed.

Lemma fold_add_transition_inv : forall c (P : mach -> Prop) (f : string -> srcspec) (g : string -> string),
  (forall m trig src d ok, P m -> P (fst (add_transition c m trig src d ok))) ->
  forall l m, P m ->
  P (fold_left (fun acc a => fst (add_transition c acc (g a) (f a) (DName a) true)) l m).
Proof. intros c P f g H. induction l; simpl; intros; auto. Qed.

Lemma MInv_add_state : forall c m n, MInv m -> MInv (add_state c m n).
Proof.
  intros c m n H. unfold add_state.
  set (sts := if smem n (m_states m) then m_states m else m_states m ++ [n]).
  assert (H1 : MInv (mkM sts (m_events m) (m_initial m) (map (add_model_to_state c n) (m_models m)))).
  { destruct H as [H1 H2 H3]. constructor; simpl; auto. unfold sts.
    destruct (smem n (m_states m)) eqn:E; auto. apply nodup_snoc; auto.
    intro Hin. apply smem_in in Hin. congruence. }
  destruct (c_auto c); auto.
  apply (fold_add_transition_inv c MInv (fun a => if String.eqb a n then SAll else SList [n]) (to_name c)); auto.
  intros. apply MInv_add_transition. auto.
Qed.

Lemma MInv_step : forall c m x, MInv m -> MInv (fst (step c m x)).
Proof.
  intros c m x H. destruct x; simpl.
  - unfold add_states. revert m H. induction ns; simpl; intros; auto. apply IHns. apply MInv_add_state. auto.
  - unfold set_initial. destruct (smem s (m_states m)).
    + destruct H. constructor; auto.
    + pose proof (MInv_add_state c m s H) as [A B C]. constructor; auto.
  - pose proof (MInv_add_transition c m trig src d ok H) as E.
    destruct (add_transition c m trig src d ok). exact E.
  - unfold remove_transition. destruct (alookup trig (m_events m)) as [tm|] eqn:Et; simpl; auto.
    destruct H as [H1 H2 H3].
    assert (Hrm : tm_ok (rm_tmap src dst tm)) by (apply tm_ok_rm; apply alookup_in in Et; eauto).
    destruct (rm_tmap src dst tm) as [|p r] eqn:Er.
    + destruct (delattr_all trig (m_models m)) as [mods b]. destruct b; simpl; constructor; simpl; auto.
      * apply nodup_keys_adel. auto.
      * intros e tm0 Hin. apply in_adel in Hin. eauto.
    + constructor; simpl; auto.
      * apply nodup_keys_aset. auto.
      * intros e tm0 Hin. apply in_aset in Hin. destruct Hin as [Hin|Hin]; eauto. inversion Hin; subst. auto.
  - unfold add_model.
    destruct (match init with Some i => Some i | None => m_initial m end); simpl; auto.
    destruct (existsb _ (m_models m)); simpl; auto.
    destruct (smem s (m_states m)); simpl; auto. destruct H. constructor; auto.
  - destruct (find_obj mid (m_models m)); simpl; auto.
    destruct (call_attr c m m0 n arg). simpl. destruct H. constructor; auto.
Qed.

Lemma MInv_empty : MInv empty_mach.
Proof. constructor; simpl; [constructor | intros e tm [] | constructor]. Qed.

Lemma MInv_run_from : forall c ops m, MInv m -> MInv (run_from c m ops).
Proof.
  intros c ops. unfold run_from. induction ops; simpl; intros; auto. apply IHops. apply MInv_step. auto.
Qed.
Lemma MInv_run : forall c ops, MInv (run c ops).
Proof. intros. apply (MInv_run_from c ops empty_mach). apply MInv_empty. Qed.

(* ------------------------------------------------------------------ get_triggers / get_transitions *)
Lemma map_snd_filter_pair : forall (P : trans -> bool) (e : string) l,
  map snd (filter (fun et : string * trans => P (snd et)) (map (fun t => (e, t)) l)) = filter P l.
Proof. induction l; simpl; auto. destruct (P a); simpl; congruence. Qed.

Lemma filter_pair_none : forall (Q : string * trans -> bool) (e : string) l,
  (forall t, Q (e, t) = false) -> filter Q (map (fun t => (e, t)) l) = [].
Proof. induction l; simpl; auto. intro H. rewrite H. auto. Qed.

Lemma flat_map_app_filter : forall {A B} (f : A -> list B) P l,
  filter P (flat_map f l) = flat_map (fun x => filter P (f x)) l.
Proof. induction l; simpl; auto. rewrite filter_app. congruence. Qed.

Definition q_match (trig src dst : string) (et : string * trans) : bool :=
  (String.eqb trig "" || String.eqb (fst et) trig) && tr_match src dst (snd et).

Lemma filter_pair_named : forall (P : trans -> bool) (trig e : string) l,
  filter (fun et : string * trans => String.eqb (fst et) trig && P (snd et)) (map (fun t => (e, t)) l)
  = if String.eqb e trig then filter (fun et : string * trans => P (snd et)) (map (fun t => (e, t)) l) else [].
Proof.
  intros P trig e l. induction l as [|t r IH]; simpl.
  - destruct (String.eqb e trig); auto.
  - rewrite IH. destruct (String.eqb e trig); simpl; auto.
Qed.

(* get_transitions returns exactly the matching transitions of the machine (seen as the
   plain relation [flatten m]), in definition order *)
Lemma get_transitions_spec : forall m trig src dst,
  NoDup (map fst (m_events m)) ->
  get_transitions m trig src dst = map snd (filter (q_match trig src dst) (flatten m)).
Proof.
  intros m trig src dst Hk. unfold get_transitions, flatten, q_match.
  seq_case trig "".
  - simpl. clear Hk. induction (m_events m) as [|[e tm] r IH]; simpl; auto.
    rewrite !filter_app, map_app, IH. f_equal.
    rewrite (map_snd_filter_pair (tr_match src dst)). reflexivity.
  - induction (m_events m) as [|[e tm] r IH]; simpl; auto.
    inversion Hk; subst. rewrite filter_app, map_app.
    rewrite (filter_pair_named (tr_match src dst)).
    rewrite (seqb_sym trig e).
    seq_case e trig.
    + subst. simpl. rewrite app_nil_r.
      rewrite (map_snd_filter_pair (tr_match src dst)).
      replace (filter _ (flat_map _ r)) with (@nil (string * trans)); [simpl; rewrite app_nil_r; auto|].
      symmetry. rewrite flat_map_app_filter. clear IH Hk H2.
      induction r as [|[e' tm'] r' IH']; simpl; auto.
      rewrite (filter_pair_named (tr_match src dst)).
      rewrite (seqb_neq e' trig).
      * simpl. apply IH'. simpl in H1. tauto.
      * intro; subst. apply H1. simpl. auto.
    + simpl. simpl in IH. auto.
Qed.

(* get_triggers(s) lists exactly the events with a transition from s, each once, in event order *)
Lemma get_triggers_spec : forall m s e,
  MInv m ->
  (In e (get_triggers m [s]) <-> exists t, In (e, t) (flatten m) /\ t_src t = s).
Proof.
  intros m s e [Hk Ht _]. unfold get_triggers, flatten. rewrite in_map_iff. split.
  - intros [[e' tm] [E Hin]]. simpl in E. subst. apply filter_In in Hin. destruct Hin as [Hin Hh].
    simpl in Hh. rewrite orb_false_r in Hh. unfold has_key in Hh.
    destruct (alookup s tm) as [l|] eqn:El; [|discriminate].
    apply alookup_in in El. destruct (Ht _ _ Hin) as [_ Hl]. destruct (Hl _ _ El) as [Hne Hsrc].
    destruct l as [|t l']; [congruence|]. exists t. split; [|apply Hsrc; simpl; auto].
    apply in_flat_map. exists (e, tm). split; auto. apply in_map. unfold tm_all.
    apply in_flat_map. exists (s, t :: l'). simpl. auto.
  - intros [t [Hin Hs]]. apply in_flat_map in Hin. destruct Hin as [[e' tm] [Hin Hm]].
    apply in_map_iff in Hm. destruct Hm as [t' [E Hm]]. simpl in E. inversion E; subst.
    exists (e, tm). split; auto. apply filter_In. split; auto. simpl. rewrite orb_false_r.
    unfold tm_all in Hm. apply in_flat_map in Hm. destruct Hm as [[k l] [Hkl Htl]]. simpl in Htl.
    destruct (Ht _ _ Hin) as [Hnd Hl]. destruct (Hl _ _ Hkl) as [_ Hsrc]. rewrite (Hsrc _ Htl).
    unfold has_key. destruct (alookup k tm) eqn:El; auto.
    apply alookup_none_notin in El. exfalso. apply El. apply in_map_iff. exists (k, l). auto.
Qed.
Lemma get_triggers_nodup : forall m names, NoDup (map fst (m_events m)) -> NoDup (get_triggers m names).
Proof. intros. unfold get_triggers. apply keys_filter_nodup. auto. Qed.

(* ------------------------------------------------------------------ how the machine changes a model object *)
Lemma getattr_setattr_same : forall o n v, getattr (setattr o n v) n = Some v.
Proof. intros. unfold getattr, setattr. simpl. rewrite alookup_aset_same. reflexivity. Qed.
Lemma getattr_setattr_other : forall o n n' v, n <> n' -> getattr (setattr o n v) n' = getattr o n'.
Proof. intros. unfold getattr, setattr. simpl. rewrite alookup_aset_other by auto. reflexivity. Qed.
Lemma orig_setattr : forall o n v, orig (setattr o n v) = orig o.
Proof. reflexivity. Qed.
Lemma checked_cases : forall c o n v, checked c o n v = o \/
  (checked c o n v = setattr o n v /\ xorb (missing (getattr o n)) (c_over c) = true).
Proof. intros. unfold checked. destruct (xorb _ _); auto. Qed.
Lemma orig_checked : forall c o n v, orig (checked c o n v) = orig o.
Proof. intros. destruct (checked_cases c o n v) as [E|[E _]]; rewrite E; auto. Qed.
Lemma delattr_some : forall o n o', delattr o n = Some o' ->
  orig o' = orig o /\ o_cls o' = o_cls o /\ o_inst o' = adel n (o_inst o).
Proof. intros o n o'. unfold delattr. destruct (alookup n (o_inst o)); intro H; inversion H; auto. Qed.

(* the value the machine binds under a name *)
Definition hval (c : cfg) (n : string) (v : aval) : Prop :=
  n <> c_attr c /\
  match v with
  | VTrigger => n = "trigger" | VMayTrigger => n = "may_trigger" | VEvent e => n = e
  | VMay e => n = may_name e | VIs s => n = is_name c s | _ => False
  end.

Inductive evolves (c : cfg) (P : string -> Prop) : mobj -> mobj -> Prop :=
| ev_refl : forall o, evolves c P o o
| ev_checked : forall o n v o', hval c n v -> evolves c P (checked c o n v) o' -> evolves c P o o'
| ev_state : forall o s o', P s -> evolves c P (setattr o (c_attr c) (VState s)) o' -> evolves c P o o'
| ev_del : forall o n e o1 o', alookup n (o_inst o) = Some (VEvent e) -> delattr o n = Some o1 ->
                               evolves c P o1 o' -> evolves c P o o'.

Lemma evolves_trans : forall c P a b, evolves c P a b -> forall d, evolves c P b d -> evolves c P a d.
Proof. induction 1; intros; eauto using evolves. Qed.
Lemma evolves_mono : forall c (P Q : string -> Prop), (forall s, P s -> Q s) ->
  forall a b, evolves c P a b -> evolves c Q a b.
Proof. induction 2; eauto using evolves. Qed.

(* what stays true of an object whatever the machine does to it *)
Record OInv (c : cfg) (o : mobj) : Prop := {
  oi_is : forall n s, getattr o n = Some (VIs s) -> n = is_name c s;
  oi_keep : c_over c = false -> forall n v, own_val v = true -> getattr (orig o) n = Some v -> getattr o n = Some v;
  oi_attr : getattr (orig o) (c_attr c) = None;
  oi_over : c_over c = true -> forall n v, alookup n (o_inst o) = Some v ->
            n = c_attr c \/ getattr (orig o) n <> None;
  oi_cls : forall n v, alookup n (o_cls o) = Some v -> pre_val v = true }.

Lemma getattr_orig_defined : forall c o n, OInv c o -> c_over c = true ->
  getattr o n <> None -> n = c_attr c \/ getattr (orig o) n <> None.
Proof.
  intros c o n H Hov Hn. unfold getattr in Hn. destruct (alookup n (o_inst o)) eqn:E.
  - eapply oi_over; eauto.
  - right. unfold getattr, orig. simpl. destruct (alookup n (o_pre o)); congruence.
Qed.

Lemma OInv_setattr_helper : forall c o n v, OInv c o -> hval c n v ->
  xorb (missing (getattr o n)) (c_over c) = true -> OInv c (setattr o n v).
Proof.
  intros c o n v H [Hna Hv] Hx. constructor.
  - intros n0 s. seq_case n n0.
    + subst. rewrite getattr_setattr_same. intro E. inversion E; subst. exact Hv.
    + rewrite getattr_setattr_other by auto. apply (oi_is c o H).
  - intros Hov n0 k Hown Hp. rewrite orig_setattr in Hp. seq_case n n0.
    + subst. rewrite Hov in Hx. rewrite xorb_false_r in Hx.
      rewrite (oi_keep c o H Hov _ _ Hown Hp) in Hx. destruct k; discriminate.
    + rewrite getattr_setattr_other by auto. apply (oi_keep c o H Hov _ _ Hown Hp).
  - rewrite orig_setattr. apply (oi_attr c o H).
  - intros Hov n0 v0. rewrite orig_setattr. unfold setattr. simpl. seq_case n n0.
    + subst. intros _. rewrite Hov in Hx. rewrite xorb_true_r in Hx. apply negb_true_iff in Hx.
      apply (getattr_orig_defined c o n0 H Hov). intro E. rewrite E in Hx. discriminate.
    + rewrite alookup_aset_other by auto. apply (oi_over c o H Hov).
  - apply (oi_cls c o H).
Qed.
Lemma OInv_checked : forall c o n v, OInv c o -> hval c n v -> OInv c (checked c o n v).
Proof.
  intros c o n v H Hv. destruct (checked_cases c o n v) as [E|[E Hx]]; rewrite E; auto.
  apply OInv_setattr_helper; auto.
Qed.
Lemma OInv_setstate : forall c o s, OInv c o -> OInv c (setattr o (c_attr c) (VState s)).
Proof.
  intros c o s H. constructor.
  - intros n0 s0. seq_case (c_attr c) n0.
    + subst. rewrite getattr_setattr_same. discriminate.
    + rewrite getattr_setattr_other by auto. apply (oi_is c o H).
  - intros Hov n0 k Hown Hp. rewrite orig_setattr in Hp. seq_case (c_attr c) n0.
    + subst. rewrite (oi_attr c o H) in Hp. discriminate.
    + rewrite getattr_setattr_other by auto. apply (oi_keep c o H Hov _ _ Hown Hp).
  - apply (oi_attr c o H).
  - intros Hov n0 v0. rewrite orig_setattr. unfold setattr. simpl. seq_case (c_attr c) n0; auto.
    rewrite alookup_aset_other by auto. apply (oi_over c o H Hov).
  - apply (oi_cls c o H).
Qed.
Lemma OInv_del : forall c o n e o', OInv c o -> alookup n (o_inst o) = Some (VEvent e) ->
  delattr o n = Some o' -> OInv c o'.
Proof.
  intros c o n e o' H He Hd. destruct (delattr_some _ _ _ Hd) as [Eo [Ec Ei]].
  assert (G : forall n0, n0 <> n -> getattr o' n0 = getattr o n0).
  { intros n0 Hn. unfold getattr. rewrite Ei, Ec. rewrite alookup_adel_other by auto. reflexivity. }
  assert (Gn : getattr o n = Some (VEvent e)) by (unfold getattr; rewrite He; auto).
  constructor.
  - intros n0 s. seq_case n0 n.
    + subst. unfold getattr. rewrite Ei, Ec, alookup_adel_same. intro Hc.
      apply (oi_cls c o H) in Hc. discriminate.
    + rewrite G by auto. apply (oi_is c o H).
  - intros Hov n0 k Hown Hp. rewrite Eo in Hp. pose proof (oi_keep c o H Hov _ _ Hown Hp) as Hk.
    seq_case n0 n; [subst; rewrite Gn in Hk; inversion Hk; subst; discriminate | rewrite G; auto].
  - rewrite Eo. apply (oi_attr c o H).
  - intros Hov n0 v0. rewrite Eo, Ei. seq_case n n0.
    + subst. rewrite alookup_adel_same. discriminate.
    + rewrite alookup_adel_other by auto. apply (oi_over c o H Hov).
  - rewrite Ec. apply (oi_cls c o H).
Qed.
Lemma OInv_evolves : forall c P a b, evolves c P a b -> OInv c a -> OInv c b.
Proof.
  induction 1; intros; auto.
  - apply IHevolves. apply OInv_checked; auto.
  - apply IHevolves. apply OInv_setstate; auto.
  - apply IHevolves. eapply OInv_del; eauto.
Qed.

(* the current state: registered, and only ever set to a registered state *)
Definition has_cur (c : cfg) (P : string -> Prop) (o : mobj) : Prop :=
  exists s, alookup (c_attr c) (o_inst o) = Some (VState s) /\ P s.
Lemma has_cur_state : forall c P o, has_cur c P o -> exists s, cur_state c o = Some s /\ P s.
Proof. intros c P o [s [H1 H2]]. exists s. unfold cur_state, getattr. rewrite H1. auto. Qed.
Lemma has_cur_evolves : forall c P a b, evolves c P a b -> has_cur c P a -> has_cur c P b.
Proof.
  induction 1; intros Hc; auto.
  - apply IHevolves. destruct (checked_cases c o n v) as [E|[E _]]; rewrite E; auto.
    destruct Hc as [s [H1 H2]]. exists s. split; auto. unfold setattr. simpl.
    rewrite alookup_aset_other; auto. destruct H as [H _]. auto.
  - apply IHevolves. exists s. split; auto. unfold setattr. simpl. apply alookup_aset_same.
  - apply IHevolves. destruct Hc as [s [H2 H3]]. exists s. split; auto.
    destruct (delattr_some _ _ _ H0) as [_ [_ Ei]]. rewrite Ei.
    rewrite alookup_adel_other; auto. intro; subst. congruence.
Qed.
Lemma has_cur_mono : forall c (P Q : string -> Prop) o, (forall s, P s -> Q s) -> has_cur c P o -> has_cur c Q o.
Proof. intros c P Q o H [s [H1 H2]]. exists s. auto. Qed.

(* ------------------------------------------------------------------ names never collide with the state attribute *)
Lemma wf_attr_facts : forall c, wf_cfg c = true ->
  starts "is_" (c_attr c) = false /\ starts "to_" (c_attr c) = false /\
  starts "may_" (c_attr c) = false /\ c_attr c <> "trigger".
Proof.
  intros c H. unfold wf_cfg, user_event in H. repeat rewrite andb_true_iff in H.
  repeat rewrite negb_true_iff in H. destruct H as [[[H1 H2] H3] H4].
  apply String.eqb_neq in H4. auto.
Qed.
Lemma is_name_not_attr : forall c s, wf_cfg c = true -> is_name c s <> c_attr c.
Proof.
  intros c s H E. destruct (wf_attr_facts c H) as [H1 _]. rewrite <- E in H1.
  unfold is_name in H1. rewrite starts_append in H1. discriminate.
Qed.
Lemma to_name_not_attr : forall c s, wf_cfg c = true -> to_name c s <> c_attr c.
Proof.
  intros c s H E. destruct (wf_attr_facts c H) as [_ [H1 _]]. rewrite <- E in H1.
  unfold to_name in H1. rewrite starts_append in H1. discriminate.
Qed.
Lemma may_name_not_attr : forall c e, wf_cfg c = true -> may_name e <> c_attr c.
Proof.
  intros c s H E. destruct (wf_attr_facts c H) as [_ [_ [H1 _]]]. rewrite <- E in H1.
  unfold may_name in H1. rewrite starts_append in H1. discriminate.
Qed.
Lemma is_name_inj : forall c s s', is_name c s = is_name c s' -> s = s'.
Proof.
  intros c s s' H. unfold is_name, infix_name in H. apply append_inj in H.
  destruct (String.eqb (c_attr c) "state"); auto. apply append_inj in H. apply append_inj in H. auto.
Qed.
Lemma to_name_inj : forall c s s', to_name c s = to_name c s' -> s = s'.
Proof.
  intros c s s' H. unfold to_name, infix_name in H. apply append_inj in H.
  destruct (String.eqb (c_attr c) "state"); auto. apply append_inj in H. apply append_inj in H. auto.
Qed.

(* ------------------------------------------------------------------ every operation evolves the registered models *)
Lemma evolves_trigger_helper : forall c P trig o, wf_cfg c = true -> trig <> c_attr c ->
  evolves c P o (add_trigger_to_model c trig o).
Proof.
  intros c P trig o Hwf Hn. unfold add_trigger_to_model.
  apply (ev_checked c P o trig (VEvent trig)); [split; [exact Hn | reflexivity]|].
  apply (ev_checked c P _ (may_name trig) (VMay trig)); [split; [apply may_name_not_attr; auto | reflexivity]|].
  apply ev_refl.
Qed.
Lemma evolves_is_helper : forall c P s o, wf_cfg c = true -> evolves c P o (add_model_to_state c s o).
Proof.
  intros c P s o Hwf. unfold add_model_to_state.
  apply (ev_checked c P o (is_name c s) (VIs s)); [split; [apply is_name_not_attr; auto | reflexivity]|].
  apply ev_refl.
Qed.

Lemma add_transition_models : forall c P m trig src d ok o', wf_cfg c = true ->
  In o' (m_models (fst (add_transition c m trig src d ok))) ->
  exists o, In o (m_models m) /\ evolves c P o o'.
Proof.
  intros c P m trig src d ok o' Hwf. unfold add_transition.
  seq_case trig (c_attr c); simpl; [intro; exists o'; split; auto; apply ev_refl|].
  destruct (alookup trig (m_events m)); [intro; exists o'; split; auto; apply ev_refl|].
  intro Hin. apply in_map_iff in Hin. destruct Hin as [o [Eo Hin]]. subst.
  exists o. split; auto. apply evolves_trigger_helper; auto.
Qed.

Lemma fold_add_transition_models : forall c P (f : string -> srcspec) (g : string -> string) l m o',
  wf_cfg c = true ->
  In o' (m_models (fold_left (fun acc a => fst (add_transition c acc (g a) (f a) (DName a) true)) l m)) ->
  exists o, In o (m_models m) /\ evolves c P o o'.
Proof.
  intros c P f g. induction l as [|a r IH]; simpl; intros m o' Hwf Hin.
  - exists o'. split; auto. apply ev_refl.
  - apply IH in Hin; auto. destruct Hin as [o1 [Hin1 Hev1]].
    apply (add_transition_models c P) in Hin1; auto. destruct Hin1 as [o [Hin Hev]].
    exists o. split; auto. eapply evolves_trans; eauto.
Qed.

Lemma add_state_models : forall c P m n o', wf_cfg c = true ->
  In o' (m_models (add_state c m n)) -> exists o, In o (m_models m) /\ evolves c P o o'.
Proof.
  intros c P m n o' Hwf. unfold add_state.
  set (sts := if smem n (m_states m) then m_states m else m_states m ++ [n]).
  assert (H1 : forall o1, In o1 (map (add_model_to_state c n) (m_models m)) ->
               exists o, In o (m_models m) /\ evolves c P o o1).
  { intros o1 Hin. apply in_map_iff in Hin. destruct Hin as [o [Eo Hin]]. subst.
    exists o. split; auto. apply evolves_is_helper; auto. }
  destruct (c_auto c); [|simpl; auto].
  intro Hin. apply (fold_add_transition_models c P) in Hin; auto. simpl in Hin.
  destruct Hin as [o1 [Hin1 Hev1]]. apply H1 in Hin1. destruct Hin1 as [o [Hin Hev]].
  exists o. split; auto. eapply evolves_trans; eauto.
Qed.

Lemma add_states_models : forall c P ns m o', wf_cfg c = true ->
  In o' (m_models (add_states c m ns)) -> exists o, In o (m_models m) /\ evolves c P o o'.
Proof.
  intros c P. unfold add_states. induction ns as [|n r IH]; simpl; intros m o' Hwf Hin.
  - exists o'. split; auto. apply ev_refl.
  - apply IH in Hin; auto. destruct Hin as [o1 [Hin1 Hev1]].
    apply (add_state_models c P) in Hin1; auto. destruct Hin1 as [o [Hin Hev]].
    exists o. split; auto. eapply evolves_trans; eauto.
Qed.

Lemma delattr_all_models : forall c P n l,
  (forall o, In o l -> exists e, alookup n (o_inst o) = Some (VEvent e)) ->
  forall o', In o' (fst (delattr_all n l)) -> exists o, In o l /\ evolves c P o o'.
Proof.
  intros c P n. induction l as [|a r IH]; simpl; intros Hall o' Hin; [tauto|].
  destruct (delattr a n) as [a'|] eqn:Ed.
  - destruct (delattr_all n r) as [r' b] eqn:Er. simpl in *. destruct Hin as [Hin|Hin].
    + subst. exists a. split; auto. destruct (Hall a) as [e He]; auto.
      eapply ev_del; eauto. apply ev_refl.
    + destruct (IH (fun o H => Hall o (or_intror H)) o' Hin) as [o [Ho Hev]]. exists o. auto.
  - simpl in Hin. exists o'. split; auto. apply ev_refl.
Qed.

Lemma own_helper_all : forall m trig, own_helper m trig = true ->
  forall o, In o (m_models m) -> exists e, alookup trig (o_inst o) = Some (VEvent e).
Proof.
  intros m trig H o Hin. unfold own_helper in H. rewrite forallb_forall in H. specialize (H o Hin).
  destruct (alookup trig (o_inst o)) as [[]|]; try discriminate. eauto.
Qed.

Lemma evolves_fold : forall c P (f : string -> mobj -> mobj) l,
  (forall x o, In x l -> evolves c P o (f x o)) ->
  forall o, evolves c P o (fold_left (fun o x => f x o) l o).
Proof.
  intros c P f. induction l as [|x r IH]; simpl; intros H o; [apply ev_refl|].
  eapply evolves_trans; [apply H; auto|]. apply IH. intros. apply H. auto.
Qed.

Lemma evolves_decorate : forall c P m o, wf_cfg c = true -> alookup (c_attr c) (m_events m) = None ->
  evolves c P o (decorate c m o).
Proof.
  intros c P m o Hwf Hna. unfold decorate.
  destruct (wf_attr_facts c Hwf) as [_ [_ [_ Ht]]].
  set (o2 := checked c (checked c o "trigger" VTrigger) "may_trigger" VMayTrigger).
  set (o3 := fold_left (fun o e => add_trigger_to_model c e o) (map fst (m_events m)) o2).
  apply evolves_trans with (b := o2).
  { apply (ev_checked c P o "trigger" VTrigger); [split; [congruence | reflexivity]|].
    apply (ev_checked c P _ "may_trigger" VMayTrigger);
      [split; [apply (may_name_not_attr c "trigger" Hwf) | reflexivity]|]. apply ev_refl. }
  apply evolves_trans with (b := o3).
  { unfold o3. apply (evolves_fold c P (add_trigger_to_model c)). intros e o1 Hin.
    apply evolves_trigger_helper; auto. intro He. subst e. apply alookup_none_notin in Hna. tauto. }
  apply (evolves_fold c P (add_model_to_state c)). intros s o1 Hin. apply evolves_is_helper; auto.
Qed.

Lemma exec_first_obj : forall c m o l,
  fst (exec_first c m o l) = o \/
  exists d, In d (m_states m) /\ fst (exec_first c m o l) = setattr o (c_attr c) (VState d).
Proof.
  intros c m o. induction l as [|t r IH]; simpl; auto.
  destruct (t_ok t); auto. destruct (t_dst t) as [d|]; auto.
  destruct (String.eqb d ""); auto. destruct (smem d (m_states m)) eqn:E; auto.
  right. exists d. split; auto. apply smem_in. auto.
Qed.
Lemma fire_obj : forall c m o tm,
  fst (fire c m o tm) = o \/
  exists d, In d (m_states m) /\ fst (fire c m o tm) = setattr o (c_attr c) (VState d).
Proof.
  intros. unfold fire. destruct (cur_state c o); auto. destruct (smem s (m_states m)); auto.
  destruct (alookup s tm); [apply exec_first_obj|]. destruct (c_ignore c); auto.
Qed.
Lemma call_attr_obj : forall c m o n arg,
  fst (call_attr c m o n arg) = o \/
  exists d, In d (m_states m) /\ fst (call_attr c m o n arg) = setattr o (c_attr c) (VState d).
Proof.
  intros. unfold call_attr. destruct (getattr o n) as [[]|]; auto.
  - destruct arg; auto. unfold call_trigger. destruct (alookup s (m_events m)); [apply fire_obj|].
    destruct (cur_state c o); auto. destruct (smem s0 (m_states m)); auto. destruct (c_ignore c); auto.
  - destruct arg; auto.
  - destruct (alookup e (m_events m)); [apply fire_obj | auto].
Qed.
Lemma in_replace_obj : forall o' l x, In x (replace_obj o' l) -> x = o' \/ In x l.
Proof.
  induction l as [|a r IH]; simpl; auto. destruct (Nat.eqb (o_id a) (o_id o')); simpl; intros x [H|H]; auto.
  apply IH in H. tauto.
Qed.
Lemma find_obj_in : forall mid l o, find_obj mid l = Some o -> In o l.
Proof. intros mid l o H. apply find_some in H. tauto. Qed.

(* states only grow *)
Lemma add_state_states : forall c m n s, In s (m_states m) -> In s (m_states (add_state c m n)).
Proof.
  intros c m n s H. unfold add_state.
  set (sts := if smem n (m_states m) then m_states m else m_states m ++ [n]).
  assert (Hs : In s sts) by (unfold sts; destruct (smem n (m_states m)); auto; apply in_or_app; auto).
  destruct (c_auto c); auto.
  apply (fold_add_transition_inv c (fun m => In s (m_states m))
           (fun a => if String.eqb a n then SAll else SList [n]) (to_name c)); auto.
  intros. rewrite add_transition_states. auto.
Qed.
Lemma step_states : forall c m x s, In s (m_states m) -> In s (m_states (fst (step c m x))).
Proof.
  intros c m x s H. destruct x; simpl.
  - unfold add_states. revert m H. induction ns; simpl; intros; auto. apply IHns. apply add_state_states. auto.
  - unfold set_initial. simpl. destruct (smem s0 (m_states m)); auto. apply add_state_states. auto.
  - pose proof (add_transition_states c m trig src d ok) as E.
    destruct (add_transition c m trig src d ok). simpl in *. congruence.
  - unfold remove_transition. destruct (alookup trig (m_events m)); simpl; auto.
    destruct (rm_tmap src dst t); simpl; auto.
    destruct (delattr_all trig (m_models m)) as [mods b]. destruct b; simpl; auto.
  - unfold add_model. destruct (match init with Some i => Some i | None => m_initial m end); simpl; auto.
    destruct (existsb _ (m_models m)); simpl; auto. destruct (smem s0 (m_states m)); simpl; auto.
  - destruct (find_obj mid (m_models m)); simpl; auto. destruct (call_attr c m m0 n arg). simpl. auto.
Qed.

(* ------------------------------------------------------------------ the invariant of all histories *)
Definition regP (m : mach) : string -> Prop := fun s => In s (m_states m).
Record Inv (c : cfg) (m : mach) : Prop := {
  inv_m : MInv m;
  inv_noattr : alookup (c_attr c) (m_events m) = None;
  inv_obj : forall o, In o (m_models m) -> OInv c o /\ has_cur c (regP m) o }.

Lemma fresh_obj_OInv : forall c o, fresh_obj c o = true ->
  OInv c (new_obj (o_id o) (o_cls o) (o_inst o)).
Proof.
  intros c o H. unfold fresh_obj in H. repeat rewrite andb_true_iff in H. destruct H as [[Hc Hi] Ha].
  rewrite forallb_forall in Hc, Hi.
  assert (Hg : forall n v, getattr (new_obj (o_id o) (o_cls o) (o_inst o)) n = Some v -> pre_val v = true).
  { intros n v. unfold getattr, new_obj. simpl. destruct (alookup n (o_inst o)) eqn:E.
    - intro E'. inversion E'; subst. apply alookup_in in E. apply (Hi _ E).
    - intro E'. apply alookup_in in E'. apply (Hc _ E'). }
  constructor.
  - intros n s Hn. apply Hg in Hn. discriminate.
  - intros _ n k _ Hn. exact Hn.
  - unfold orig, new_obj. simpl. unfold getattr in *. simpl. destruct (alookup (c_attr c) (o_inst o)); [discriminate|].
    destruct (alookup (c_attr c) (o_cls o)); [discriminate | reflexivity].
  - intros _ n v Hn. right. unfold orig, new_obj, getattr. simpl. simpl in Hn. rewrite Hn. discriminate.
  - intros n v Hn. simpl in Hn. apply alookup_in in Hn. apply (Hc _ Hn).
Qed.

Lemma Inv_step : forall c m x, wf_cfg c = true -> wf_op c m x = true -> Inv c m -> Inv c (fst (step c m x)).
Proof.
  intros c m x Hwf Hop [Hm Hna Ho].
  constructor; [apply MInv_step; auto | apply step_noattr; auto |].
  assert (Hmono : forall s, regP m s -> regP (fst (step c m x)) s) by (intros s Hs; apply step_states; auto).
  assert (Hold : forall o o', In o (m_models m) -> evolves c (regP (fst (step c m x))) o o' ->
                 OInv c o' /\ has_cur c (regP (fst (step c m x))) o').
  { intros o o' Hin Hev. destruct (Ho o Hin) as [H1 H2]. split.
    - eapply OInv_evolves; eauto.
    - eapply has_cur_evolves; eauto. eapply has_cur_mono; eauto. }
  remember (regP (fst (step c m x))) as P' eqn:EP. clear EP.
  intros o' Hin. destruct x; simpl in Hin.
  - apply (add_states_models c P') in Hin; auto.
    destruct Hin as [o [Hin Hev]]. eauto.
  - assert (Hin' : In o' (m_models (if smem s (m_states m) then m else add_state c m s))).
    { unfold set_initial in Hin. simpl in Hin. exact Hin. }
    destruct (smem s (m_states m)).
    + apply (Hold o' o'); auto. apply ev_refl.
    + apply (add_state_models c P') in Hin'; auto.
      destruct Hin' as [o [Hin0 Hev]]. eauto.
  - assert (Hin' : In o' (m_models (fst (add_transition c m trig src d ok)))).
    { destruct (add_transition c m trig src d ok). exact Hin. }
    apply (add_transition_models c P') in Hin'; auto.
    destruct Hin' as [o [Hin0 Hev]]. eauto.
  - simpl in Hop. apply andb_true_iff in Hop. destruct Hop as [_ Hown].
    unfold remove_transition in Hin.
    destruct (alookup trig (m_events m)) as [tm|]; [|apply (Hold o' o'); auto; apply ev_refl].
    destruct (rm_tmap src dst tm); [|apply (Hold o' o'); auto; apply ev_refl].
    assert (Hin' : In o' (fst (delattr_all trig (m_models m)))).
    { destruct (delattr_all trig (m_models m)) as [mods b]. destruct b; exact Hin. }
    apply (delattr_all_models c P') in Hin'.
    + destruct Hin' as [o [Hin0 Hev]]. eauto.
    + apply own_helper_all. auto.
  - simpl in Hop. unfold add_model in Hin.
    destruct (match init with Some i => Some i | None => m_initial m end) as [i|];
      [|apply (Hold o' o'); auto; apply ev_refl].
    destruct (existsb _ (m_models m)); [apply (Hold o' o'); auto; apply ev_refl|].
    destruct (smem i (m_states m)) eqn:Ei; [|apply (Hold o' o'); auto; apply ev_refl].
    simpl in Hin. apply in_app_or in Hin. destruct Hin as [Hin|[Hin|[]]];
      [apply (Hold o' o'); auto; apply ev_refl|].
    subst o'. split.
    + apply OInv_setstate.
      eapply (OInv_evolves c (regP m)); [apply evolves_decorate; auto|]. apply fresh_obj_OInv. auto.
    + exists i. split; [unfold setattr; simpl; apply alookup_aset_same|].
      apply Hmono. apply smem_in. auto.
  - destruct (find_obj mid (m_models m)) as [o|] eqn:Ef; [|apply (Hold o' o'); auto; apply ev_refl].
    pose proof (call_attr_obj c m o n arg) as Hc.
    destruct (call_attr c m o n arg) as [o1 r]. simpl in *.
    apply in_replace_obj in Hin. destruct Hin as [Hin|Hin]; [|apply (Hold o' o'); auto; apply ev_refl].
    subst o'. apply find_obj_in in Ef. destruct Hc as [Hc|[d [Hd Hc]]]; subst o1.
    + apply (Hold o o); auto. apply ev_refl.
    + apply (Hold o); auto. eapply ev_state; [|apply ev_refl]. apply Hmono. exact Hd.
Qed.

Lemma Inv_empty : forall c, Inv c empty_mach.
Proof. intro c. constructor; [apply MInv_empty | reflexivity | intros o []]. Qed.

Lemma Inv_run_from : forall c ops m, wf_cfg c = true -> wf_run wf_op c m ops = true -> Inv c m ->
  Inv c (run_from c m ops).
Proof.
  intros c ops. unfold run_from. induction ops as [|x r IH]; simpl; intros m Hwf Hr Hi; auto.
  apply andb_true_iff in Hr. destruct Hr as [H1 H2]. apply IH; auto. apply Inv_step; auto.
Qed.
Lemma Inv_run : forall c ops, wf_cfg c = true -> wf_run wf_op c empty_mach ops = true -> Inv c (run c ops).
Proof. intros. apply (Inv_run_from c ops empty_mach); auto. apply Inv_empty. Qed.

(* ------------------------------------------------------------------ C11_exactly_one (flat) *)
Lemma filter_single : forall (f : string -> bool) cur l, NoDup l -> In cur l ->
  filter (fun s => f s && String.eqb cur s) l = if f cur then [cur] else [].
Proof.
  intros f cur. induction l as [|x r IH]; intros Hnd Hin; simpl; [destruct Hin|].
  inversion Hnd; subst. seq_case cur x.
  - subst x. replace (filter _ r) with (@nil string).
    + rewrite andb_true_r. destruct (f cur); auto.
    + symmetry. clear IH Hnd Hin H2. induction r as [|y r' IH']; simpl; auto.
      rewrite (seqb_neq cur y); [rewrite andb_false_r; apply IH'; simpl in H1; tauto|].
      intro; subst. apply H1. simpl. auto.
  - rewrite andb_false_r. apply IH; auto. destruct Hin; congruence.
Qed.

Lemma is_true_eq : forall c m o cur s, OInv c o -> cur_state c o = Some cur ->
  is_true c m o s = is_bound c o s && String.eqb cur s.
Proof.
  intros c m o cur s Ho Hc. unfold is_true, is_bound, call_attr.
  destruct (getattr o (is_name c s)) as [[]|] eqn:E; auto.
  apply (oi_is c o Ho) in E. apply is_name_inj in E. subst s0. rewrite Hc. simpl. reflexivity.
Qed.

Lemma exactly_one_flat : forall c ops o, wf_cfg c = true -> wf_run wf_op c empty_mach ops = true ->
  In o (m_models (run c ops)) ->
  exists cur, cur_state c o = Some cur /\ In cur (m_states (run c ops)) /\
    filter (is_true c (run c ops) o) (m_states (run c ops)) = if is_bound c o cur then [cur] else [].
Proof.
  intros c ops o Hwf Hr Hin. destruct (Inv_run c ops Hwf Hr) as [Hm _ Ho].
  destruct (Ho o Hin) as [Hoi Hc]. apply has_cur_state in Hc. destruct Hc as [cur [Hc Hreg]].
  exists cur. split; auto. split; auto.
  rewrite <- (filter_single (is_bound c o) cur (m_states (run c ops))); [|apply (mi_states _ Hm) | exact Hreg].
  apply filter_ext. intro s. apply is_true_eq; auto.
Qed.

(* ------------------------------------------------------------------ C11_no_overwrite *)
Lemma no_overwrite : forall c ops o, wf_cfg c = true -> wf_run wf_op c empty_mach ops = true ->
  In o (m_models (run c ops)) ->
  (c_over c = false -> forall n v, own_val v = true -> getattr (orig o) n = Some v -> getattr o n = Some v)
  /\ (c_over c = true -> forall n v, alookup n (o_inst o) = Some v ->
        n = c_attr c \/ getattr (orig o) n <> None)
  /\ o_cls (orig o) = o_cls o.
Proof.
  intros c ops o Hwf Hr Hin. destruct (Inv_run c ops Hwf Hr) as [_ _ Ho].
  destruct (Ho o Hin) as [Hoi _]. split; [apply (oi_keep c o Hoi)|]. split; [apply (oi_over c o Hoi) | reflexivity].
Qed.

Definition kf_cfg : cfg := mkCfg "state" false false false.
Definition kf_ops : list op :=
  [OAddStates ["A"; "B"]; OSetInitial "A"; OAddModel (mkObj 1 [] [("go", VPre 7)] []) None;
   OAddTransition "go" (SList ["A"]) (DName "B") true; ORemoveTransition "go" None None].

(* without the clause on remove_transition the statement is false: removing the last
   transition of an event deletes the attribute of that name a model had defined itself *)
Lemma no_overwrite_refuted : exists c ops o n k,
  wf_cfg c = true /\ wf_run wf_op_weak c empty_mach ops = true /\ c_over c = false /\
  In o (m_models (run c ops)) /\ getattr (orig o) n = Some (VPre k) /\ getattr o n = None.
Proof.
  exists kf_cfg, kf_ops, (hd (mkObj 0 [] [] []) (m_models (run kf_cfg kf_ops))), "go", 7.
  vm_compute. repeat split; auto.
Qed.

(* ------------------------------------------------------------------ C11_event_is_trigger, C11_to (state level) *)
Lemma event_is_trigger : forall c m o e tm,
  alookup e (m_events m) = Some tm -> getattr o e = Some (VEvent e) -> getattr o "trigger" = Some VTrigger ->
  call_attr c m o e None = call_attr c m o "trigger" (Some e).
Proof. intros c m o e tm He Ha Ht. unfold call_attr, call_trigger. rewrite Ha, Ht, He. reflexivity. Qed.

Lemma exec_first_all_to : forall c m o s l, l <> [] ->
  (forall t, In t l -> t_dst t = Some s /\ t_ok t = true) -> s <> "" -> In s (m_states m) ->
  exec_first c m o l = (setattr o (c_attr c) (VState s), RBool true).
Proof.
  intros c m o s l Hne Hall Hs Hreg. destruct l as [|t r]; [congruence|]. simpl.
  destruct (Hall t (or_introl eq_refl)) as [Hd Hok]. rewrite Hok, Hd.
  rewrite (seqb_neq s "") by auto. apply smem_in in Hreg. rewrite Hreg. reflexivity.
Qed.

(* if the event bound to a model's to-helper has, from the model's current state, only
   transitions to s, then calling the helper returns True and ends in s *)
Lemma to_helper_ends_in : forall c m o s cur tm l,
  getattr o (to_name c s) = Some (VEvent (to_name c s)) ->
  alookup (to_name c s) (m_events m) = Some tm ->
  cur_state c o = Some cur -> In cur (m_states m) -> alookup cur tm = Some l -> l <> [] ->
  (forall t, In t l -> t_dst t = Some s /\ t_ok t = true) -> s <> "" -> In s (m_states m) ->
  call_attr c m o (to_name c s) None = (setattr o (c_attr c) (VState s), RBool true).
Proof.
  intros c m o s cur tm l Ha He Hc Hcur Hl Hne Hall Hs Hreg.
  unfold call_attr. rewrite Ha, He. unfold fire. rewrite Hc.
  apply smem_in in Hcur. rewrite Hcur, Hl. apply exec_first_all_to; auto.
Qed.

(* non-vacuity: a history with clashing attributes, reconfigurations and calls meets wf *)
Definition ex_cfg : cfg := mkCfg "st" true false false.
Definition ex_ops : list op :=
  [OAddStates ["A"; "B"]; OSetInitial "A"; OAddTransition "go" (SList ["A"]) (DName "B") true;
   OAddModel (mkObj 1 [("is_st_A", VPre 1); ("run", VNone)] [("to_st_B", VPre 2)] []) None;
   OAddTransition "run" SAll DSame true; OCall 1 "go" None; OAddStates ["C"];
   OCall 1 "to_st_C" None; ORemoveTransition "go" None None; OAddModel (mkObj 2 [] [] []) (Some "C");
   OCall 2 "trigger" (Some "run")].
Lemma ex_wf : wf_cfg ex_cfg = true /\ wf_run wf_op ex_cfg empty_mach ex_ops = true
  /\ map (fun o => cur_state ex_cfg o) (m_models (run ex_cfg ex_ops)) = [Some "C"; Some "C"].
Proof. vm_compute. auto. Qed.
