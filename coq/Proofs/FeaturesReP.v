(* FeaturesReP.v — re-entrant processing: the model with the MRO-ordered enter code equals
   the order-independent specification, nested triggers included. *)
From Coq Require Import List Arith Bool Lia.
From M Require Import Features FeaturesSpec FeaturesRe.
From P Require Import FeaturesP.
Import ListNotations.

Lemma pre_retry_eq c k m src d r f :
  enter_pre c (FRetry :: k) m src d r f =
    if Nat.ltb (fs_retries (sdef c d)) (n0_of src d r) && Nat.ltb 0 (fs_retries (sdef c d))
    then (fail_items c m d, set_count r d (n0_of src d r), f, VCut)
    else enter_pre c k m src d (set_count (set_count r d (n0_of src d r)) d (S (n0_of src d r))) f.
Proof. reflexivity. Qed.
Lemma pre_error_eq c k m src d r f :
  enter_pre c (FError :: k) m src d r f =
    if error_test c d then ([], r, f, VRaised) else enter_pre c k m src d r f.
Proof. reflexivity. Qed.
Lemma pre_vol_eq c k m src d r f :
  enter_pre c (FVolatile :: k) m src d r f =
    enter_pre c k m src d (set_hook r (fs_hook (sdef c d)) (Some f)) (S f).
Proof. reflexivity. Qed.
Lemma pre_tags_eq c k m src d r f :
  enter_pre c (FTags :: k) m src d r f = enter_pre c k m src d r f.
Proof. reflexivity. Qed.

Ltac pre_cases g H :=
  destruct g;
  [ rewrite pre_tags_eq in H | rewrite pre_error_eq in H | rewrite pre_vol_eq in H | rewrite pre_retry_eq in H ].

Lemma pre_state c fs : forall m src d r f it r' f' v,
  enter_pre c fs m src d r f = (it, r', f', v) -> m_state r' = m_state r.
Proof.
  induction fs as [|g k IH]; intros m src d r f it r' f' v H.
  - simpl in H. inversion H; subst; reflexivity.
  - pre_cases g H.
    + eauto.
    + destruct (error_test c d); [inversion H; subst; reflexivity | eauto].
    + apply IH in H. exact H.
    + destruct (_ && _); [inversion H; subst; reflexivity | apply IH in H; exact H].
Qed.

Lemma pre_counts_noretry c fs : forall m src d r f it r' f' v,
  fmem FRetry fs = false ->
  enter_pre c fs m src d r f = (it, r', f', v) -> m_counts r' = m_counts r.
Proof.
  induction fs as [|g k IH]; intros m src d r f it r' f' v F H.
  - simpl in H. inversion H; subst; reflexivity.
  - pre_cases g H; simpl in F.
    + eauto.
    + destruct (error_test c d); [inversion H; subst; reflexivity | eauto].
    + rewrite (IH _ _ _ _ _ _ _ _ _ F H). reflexivity.
    + discriminate.
Qed.

Definition verdict_of (err exh : bool) : verdict := if err then VRaised else if exh then VCut else VProceed.

Lemma pre_main c fs : forall m src d r f it r' f' v,
  feat_nodup fs = true -> (src = d -> error_test c d = false) ->
  enter_pre c fs m src d r f = (it, r', f', v) ->
  v = verdict_of (err_of c fs d) (exh_of c fs src d r) /\
  it = (if err_of c fs d then [] else if exh_of c fs src d r then fail_items c m d else []) /\
  (err_of c fs d = false -> fmem FRetry fs = true ->
   m_counts r' d = if exh_of c fs src d r then n0_of src d r else S (n0_of src d r)).
Proof.
  induction fs as [|g k IH]; intros m src d r f it r' f' v ND HE H.
  - simpl in H. inversion H; subst. unfold err_of, exh_of, verdict_of. simpl. repeat split; try discriminate.
  - simpl in ND. apply andb_true_iff in ND. destruct ND as [NI ND]. apply negb_true_iff in NI.
    pre_cases g H.
    + destruct (IH _ _ _ _ _ _ _ _ _ ND HE H) as [A [B C]].
      unfold err_of, exh_of in *. simpl. auto.
    + unfold err_of, exh_of. simpl.
      destruct (error_test c d) eqn:ET.
      * inversion H; subst. unfold verdict_of. repeat split; try discriminate.
      * assert (HE' : src = d -> error_test c d = false) by (intros _; exact ET).
        destruct (IH _ _ _ _ _ _ _ _ _ ND HE' H) as [A [B C]].
        unfold err_of, exh_of in A, B, C. rewrite ET in A, B, C.
        rewrite andb_false_r in A, B, C. try rewrite andb_false_r. auto.
    + destruct (IH _ _ _ _ _ _ _ _ _ ND HE H) as [A [B C]].
      unfold err_of, exh_of, n0_of in *. simpl in *. auto.
    + unfold err_of, exh_of. simpl. simpl in NI.
      destruct (Nat.ltb (fs_retries (sdef c d)) (n0_of src d r) && Nat.ltb 0 (fs_retries (sdef c d))) eqn:EX.
      * inversion H; subst.
        assert (ET : error_test c d = false).
        { apply HE. apply andb_true_iff in EX. destruct EX as [EX _]. apply Nat.ltb_lt in EX.
          unfold n0_of in EX. destruct (Nat.eqb src d) eqn:SD; [now apply Nat.eqb_eq in SD | lia]. }
        rewrite ET, andb_false_r. unfold verdict_of. repeat split. intros _ _. simpl. now rewrite upd_same.
      * destruct (IH _ _ _ _ _ _ _ _ _ ND HE H) as [A [B C]].
        unfold err_of, exh_of in A, B. rewrite NI in A, B. simpl in A, B.
        repeat split.
        -- rewrite A. unfold verdict_of. destruct (fmem FError k && error_test c d); reflexivity.
        -- rewrite B. destruct (fmem FError k && error_test c d); reflexivity.
        -- intros _ _. rewrite (pre_counts_noretry _ _ _ _ _ _ _ _ _ _ _ NI H). simpl.
           now rewrite upd_same.
Qed.

(* enter_chain of Features.v = this prefix followed by the callbacks of a non re-triggering state *)
Lemma chain_pre c fs : forall m src d r f it r' f' v,
  enter_pre c fs m src d r f = (it, r', f', v) ->
  enter_chain c fs m src d r f =
    (it ++ (match v with VProceed => enter_items c m d | _ => [] end), r', f',
     match v with VRaised => true | _ => false end).
Proof.
  induction fs as [|g k IH]; intros m src d r f it r' f' v H.
  - simpl in H. inversion H; subst. reflexivity.
  - pre_cases g H.
    + rewrite chain_tags_eq. eauto.
    + rewrite chain_error_eq. destruct (error_test c d); [inversion H; subst; reflexivity | eauto].
    + rewrite chain_vol_eq. eauto.
    + rewrite chain_retry_eq. destruct (_ && _); [|eauto].
      inversion H; subst. now rewrite app_nil_r.
Qed.

(* ----------------------------------------------------------------- the callback loop, relationally *)
Section Rel.
  Variables (W1 W2 : Type).
  Variables (st1 : W1 -> fstate_id) (st2 : W2 -> fstate_id).
  Variables (calls1 : W1 -> fcb -> nat) (calls2 : W2 -> fcb -> nat).
  Variables (bump1 : W1 -> fcb -> W1) (bump2 : W2 -> fcb -> W2).
  Variables (step1 : W1 -> fevent -> option (list fitem * W1 * fres))
            (step2 : W2 -> fevent -> option (list fitem * W2 * fres)).
  Variable tr : retrig.
  Variable m : fmodel.
  Variable R : W1 -> W2 -> Prop.

  Definition orel (o1 : option (list fitem * W1 * fres)) (o2 : option (list fitem * W2 * fres)) : Prop :=
    match o1, o2 with
    | None, None => True
    | Some (i1, w1, r1), Some (i2, w2, r2) => i1 = i2 /\ r1 = r2 /\ R w1 w2
    | _, _ => False
    end.
  Definition orelx (o1 : option (list fitem * W1 * option fexn)) (o2 : option (list fitem * W2 * option fexn)) : Prop :=
    match o1, o2 with
    | None, None => True
    | Some (i1, w1, r1), Some (i2, w2, r2) => i1 = i2 /\ r1 = r2 /\ R w1 w2
    | _, _ => False
    end.

  Hypothesis Rst : forall w1 w2, R w1 w2 -> st1 w1 = st2 w2.
  Hypothesis Rcalls : forall w1 w2 cb, R w1 w2 -> calls1 w1 cb = calls2 w2 cb.
  Hypothesis Rbump : forall w1 w2 cb, R w1 w2 -> R (bump1 w1 cb) (bump2 w2 cb).
  Hypothesis Rstep : forall w1 w2 e, R w1 w2 -> orel (step1 w1 e) (step2 w2 e).

  Lemma run_cbs_rel : forall l w1 w2, R w1 w2 ->
    orelx (run_cbs W1 st1 calls1 bump1 step1 tr m l w1) (run_cbs W2 st2 calls2 bump2 step2 tr m l w2).
  Proof.
    induction l as [|cb rest IH]; intros w1 w2 HR; simpl.
    - auto.
    - rewrite (Rst _ _ HR), (Rcalls _ _ cb HR).
      pose proof (Rbump _ _ cb HR) as HB.
      assert (N : orel
        (match tr cb with
         | Some (e, b) => if Nat.ltb (calls2 w2 cb) b then step1 (bump1 w1 cb) e else Some ([], bump1 w1 cb, RTrue)
         | None => Some ([], bump1 w1 cb, RTrue) end)
        (match tr cb with
         | Some (e, b) => if Nat.ltb (calls2 w2 cb) b then step2 (bump2 w2 cb) e else Some ([], bump2 w2 cb, RTrue)
         | None => Some ([], bump2 w2 cb, RTrue) end)).
      { destruct (tr cb) as [[e b]|]; [|simpl; auto].
        destruct (Nat.ltb (calls2 w2 cb) b); [apply Rstep; exact HB | simpl; auto]. }
      destruct (match tr cb with Some (e, b) => if Nat.ltb (calls2 w2 cb) b then step1 (bump1 w1 cb) e else Some ([], bump1 w1 cb, RTrue) | None => Some ([], bump1 w1 cb, RTrue) end)
        as [[[i1 x1] r1]|];
      destruct (match tr cb with Some (e, b) => if Nat.ltb (calls2 w2 cb) b then step2 (bump2 w2 cb) e else Some ([], bump2 w2 cb, RTrue) | None => Some ([], bump2 w2 cb, RTrue) end)
        as [[[i2 x2] r2]|]; simpl in N; try contradiction; [|exact I].
      destruct N as [Ni [Nr Nw]]. subst i2 r2.
      specialize (IH x1 x2 Nw).
      destruct r1; simpl.
      + destruct (run_cbs W1 _ _ _ _ _ _ rest x1) as [[[a1 b1] c1]|];
        destruct (run_cbs W2 _ _ _ _ _ _ rest x2) as [[[a2 b2] c2]|]; simpl in IH; try contradiction; [|exact I].
        destruct IH as [A [B C]]. subst. simpl. repeat split; auto.
      + destruct (run_cbs W1 _ _ _ _ _ _ rest x1) as [[[a1 b1] c1]|];
        destruct (run_cbs W2 _ _ _ _ _ _ rest x2) as [[[a2 b2] c2]|]; simpl in IH; try contradiction; [|exact I].
        destruct IH as [A [B C]]. subst. simpl. repeat split; auto.
      + auto.
  Qed.
End Rel.

(* ----------------------------------------------------------------- model = specification *)
Definition RR (c : fcfg) (rw : rworld) (srw : srworld) : Prop :=
  simA c (rw_w rw) (srw_w srw) /\ forall cb, rw_calls rw cb = srw_calls srw cb.

Local Arguments upd : simpl never.

Lemma rstep_change f c tr rw m e t d pre r3 fr v :
  first_cand (c_trans c) e (m_state (w_m (rw_w rw) m)) = Some t -> ft_dst t = Some d ->
  enter_pre c (c_order c) m (m_state (w_m (rw_w rw) m)) d (pre_enter c (w_m (rw_w rw) m) d) (w_fresh (rw_w rw))
    = (pre, r3, fr, v) ->
  rstep (S f) c tr rw m e =
    let ex := exit_items c m (m_state (w_m (rw_w rw) m)) in
    let rw1 := mkRW (mkW (upd (w_m (rw_w rw)) m r3) fr) (rw_calls rw) in
    match v with
    | VRaised => Some (ex ++ pre, rw1, RExn EMachine)
    | VCut => Some (ex ++ pre, rw1, RTrue)
    | VProceed =>
        match run_cbs rworld (fun x => m_state (w_m (rw_w x) m)) rw_calls rbump
                      (fun x e' => rstep f c tr x m e') tr m (fs_enter (sdef c d)) rw1 with
        | None => None
        | Some (it, rw2, None) => Some (ex ++ pre ++ it, rw2, RTrue)
        | Some (it, rw2, Some x) => Some (ex ++ pre ++ it, rw2, RExn x)
        end
    end.
Proof.
  intros H D E. simpl. rewrite (first_cand_known _ _ _ _ H). simpl. rewrite H, D.
  unfold exit_chain. unfold pre_enter in E. rewrite E. reflexivity.
Qed.

Lemma rstep_spec c tr m : feat_nodup (c_order c) = true ->
  forall fuel rw srw e, RR c rw srw ->
  orel rworld srworld (RR c) (rstep fuel c tr rw m e) (spec_rstep fuel c tr srw m e).
Proof.
  intros ND. induction fuel as [|f IH]; intros rw srw e HR; [simpl; exact I|].
  destruct HR as [SIM CL]. destruct (SIM m) as [Sm Cm].
  cbn [spec_rstep]. rewrite <- Sm.
  destruct (first_cand (c_trans c) e (m_state (w_m (rw_w rw) m))) as [t|] eqn:H.
  - destruct (ft_dst t) as [d|] eqn:D.
    + destruct (enter_pre c (c_order c) m (m_state (w_m (rw_w rw) m)) d (pre_enter c (w_m (rw_w rw) m) d)
                  (w_fresh (rw_w rw))) as [[[pre r3] fr] v] eqn:E.
      rewrite (rstep_change f c tr rw m e t d pre r3 fr v H D E). cbv zeta.
      pose proof (first_cand_trigger _ _ _ _ H) as HT.
      assert (HE : m_state (w_m (rw_w rw) m) = d -> error_test c d = false).
      { intros <-. now apply trigger_no_error. }
      destruct (pre_main _ _ _ _ _ _ _ _ _ _ _ ND HE E) as [A [B C]].
      pose proof (pre_state _ _ _ _ _ _ _ _ _ _ _ E) as ST. rewrite pre_enter_state in ST.
      rewrite (exh_of_spec _ _ _ _ _ SIM HT) in A, B, C.
      rewrite err_of_spec in A, B, C.
      set (err := has_error (c_order c) && is_error_state c d) in *.
      set (exh := has_retry (c_order c) && Nat.ltb 0 (fs_retries (sdef c d)) &&
                  Nat.ltb (fs_retries (sdef c d))
                          (if Nat.eqb (m_state (w_m (rw_w rw) m)) d then sp_streak (sw_m (srw_w srw) m) else 0)) in *.
      (* the worlds after the mixins' enter code *)
      match goal with |- orel _ _ _ ?L ?Rt => idtac end.
      assert (HR1 : RR c (mkRW (mkW (upd (w_m (rw_w rw)) m r3) fr) (rw_calls rw))
                       (mkSRW (mkSW (upd (sw_m (srw_w srw)) m
                                         (mkSM d (if exh then (if Nat.eqb (m_state (w_m (rw_w rw) m)) d
                                                               then sp_streak (sw_m (srw_w srw) m) else 0)
                                                  else S (if Nat.eqb (m_state (w_m (rw_w rw) m)) d
                                                          then sp_streak (sw_m (srw_w srw) m) else 0))
                                               (if has_volatile (c_order c) then Some (sw_n (srw_w srw)) else None)
                                               (if has_volatile (c_order c)
                                                then upd (sp_pre (sw_m (srw_w srw) m))
                                                         (fs_hook (sdef c (m_state (w_m (rw_w rw) m)))) None
                                                else sp_pre (sw_m (srw_w srw) m))))
                                    (if has_volatile (c_order c) then S (sw_n (srw_w srw)) else sw_n (srw_w srw)))
                              (srw_calls srw))).
      { split; [|exact CL]. intros m0. simpl. destruct (Nat.eq_dec m0 m) as [->|NE].
        - rewrite !upd_same. simpl. split; [exact ST|]. rewrite ST. intros HRt HTd.
          assert (EF : err = false).
          { unfold err. destruct (has_error (c_order c)) eqn:HErr; [|reflexivity]. simpl.
            rewrite <- (error_test_spec _ _ HErr). now apply trigger_no_error. }
          rewrite (C EF HRt). rewrite (n0_of_spec _ _ _ _ _ SIM HT HRt). reflexivity.
        - rewrite !upd_other by exact NE. apply SIM. }
      match type of HR1 with RR _ ?x ?y => set (rw1 := x) in *; set (srw1 := y) in * end.
      rewrite A, B. unfold verdict_of.
      destruct err; [simpl; rewrite app_nil_r; auto|].
      destruct exh; [simpl; auto|].
      (* State.enter: the callbacks, with nested triggers *)
      assert (Q : orelx rworld srworld (RR c)
                    (run_cbs rworld (fun x => m_state (w_m (rw_w x) m)) rw_calls rbump
                             (fun x e' => rstep f c tr x m e') tr m (fs_enter (sdef c d)) rw1)
                    (run_cbs srworld (fun y => sp_state (sw_m (srw_w y) m)) srw_calls srbump
                             (fun y e' => spec_rstep f c tr y m e') tr m (fs_enter (sdef c d)) srw1)).
      { apply run_cbs_rel; [| | | | exact HR1].
        - intros w1 w2 [S1 _]. apply S1.
        - intros w1 w2 cb [_ S2]. apply S2.
        - intros w1 w2 cb [S1 S2]. split; [exact S1|]. intros cb0. simpl. unfold upd.
          destruct (Nat.eqb cb0 cb); [now rewrite S2 | apply S2].
        - intros w1 w2 e' HR'. apply IH. exact HR'. }
      simpl app.
      destruct (run_cbs rworld _ _ _ _ _ _ _ _) as [[[i1 x1] r1]|];
      destruct (run_cbs srworld _ _ _ _ _ _ _ _) as [[[i2 x2] r2]|]; simpl in Q; try contradiction; [|exact I].
      destruct Q as [Q1 [Q2 Q3]]. subst i2 r2. destruct r1; simpl; auto.
    + simpl. rewrite (first_cand_known _ _ _ _ H). simpl. rewrite H, D. simpl. (split; [reflexivity | split; [reflexivity | split; assumption]]).
  - simpl. destruct (event_known c e); simpl.
    + rewrite H. simpl. (split; [reflexivity | split; [reflexivity | split; assumption]]).
    + destruct (c_ignore c); simpl; (split; [reflexivity | split; [reflexivity | split; assumption]]).
Qed.

(* whole histories *)
Definition robs (m : fmodel) (o : option (list fitem * rworld * fres)) : option (list fitem * fres * fstate_id) :=
  match o with Some (it, rw, res) => Some (it, res, m_state (w_m (rw_w rw) m)) | None => None end.
Definition srobs (m : fmodel) (o : option (list fitem * srworld * fres)) : option (list fitem * fres * fstate_id) :=
  match o with Some (it, rw, res) => Some (it, res, sp_state (sw_m (srw_w rw) m)) | None => None end.

Lemma rrun_spec c tr fuel : feat_nodup (c_order c) = true ->
  forall h rw srw, RR c rw srw ->
  forall m', map (robs m') (rrun fuel c tr rw h) = map (srobs m') (spec_rrun fuel c tr srw h).
Proof.
  intros ND h. induction h as [|[m e] rest IH]; intros rw srw HR m'; simpl; [reflexivity|].
  pose proof (rstep_spec c tr m ND fuel rw srw e HR) as Q.
  destruct (rstep fuel c tr rw m e) as [[[i1 x1] r1]|];
  destruct (spec_rstep fuel c tr srw m e) as [[[i2 x2] r2]|]; simpl in Q; try contradiction; [|reflexivity].
  destruct Q as [Q1 [Q2 Q3]]. subst. simpl. f_equal.
  - f_equal. f_equal. destruct Q3 as [S1 _]. apply S1.
  - apply IH. exact Q3.
Qed.

Lemma rrun_spec_init c tr fuel h s0 pre k m :
  feat_nodup (c_order c) = true ->
  map (robs m) (rrun fuel c tr (mkRW (init_world_p s0 pre k) (fun _ => 0)) h) =
  map (srobs m) (spec_rrun fuel c tr (mkSRW (spec_init_p s0 pre k) (fun _ => 0)) h).
Proof.
  intros ND. apply rrun_spec; [exact ND|]. split; [apply simA_init_p | reflexivity].
Qed.

(* callbacks that do not re-trigger: the engine of Features.v *)
Lemma run_cbs_static (step : rworld -> fevent -> option (list fitem * rworld * fres)) m : forall l rw,
  exists rw', run_cbs rworld (fun x => m_state (w_m (rw_w x) m)) rw_calls rbump step no_retrig m l rw =
              Some (map (fun cb => IEnter cb m (m_state (w_m (rw_w rw) m))) l, rw', None) /\ rw_w rw' = rw_w rw.
Proof.
  induction l as [|cb rest IH]; intros rw; simpl.
  - exists rw. auto.
  - destruct (IH (rbump rw cb)) as [rw' [E W]]. rewrite E. exists rw'. split; [reflexivity | exact W].
Qed.

Definition rforget (o : option (list fitem * rworld * fres)) : option (list fitem * world * fres) :=
  match o with Some (it, rw, res) => Some (it, rw_w rw, res) | None => None end.

Lemma rstep_static f c rw m e : rforget (rstep (S f) c no_retrig rw m e) = Some (fstep c (rw_w rw) m e).
Proof.
  destruct (first_cand (c_trans c) e (m_state (w_m (rw_w rw) m))) as [t|] eqn:H.
  - destruct (ft_dst t) as [d|] eqn:D.
    + destruct (enter_pre c (c_order c) m (m_state (w_m (rw_w rw) m)) d (pre_enter c (w_m (rw_w rw) m) d)
                  (w_fresh (rw_w rw))) as [[[pre r3] fr] v] eqn:E.
      rewrite (rstep_change f c no_retrig rw m e t d pre r3 fr v H D E). cbv zeta.
      pose proof (chain_pre _ _ _ _ _ _ _ _ _ _ _ E) as CP.
      rewrite (fstep_change _ _ _ _ _ _ _ _ _ _ H D CP).
      destruct v; simpl.
      * destruct (run_cbs_static (fun x e' => rstep f c no_retrig x m e') m (fs_enter (sdef c d))
                    (mkRW (mkW (upd (w_m (rw_w rw)) m r3) fr) (rw_calls rw))) as [rw' [Q W]].
        rewrite Q. simpl. rewrite W. simpl. rewrite upd_same.
        pose proof (pre_state _ _ _ _ _ _ _ _ _ _ _ E) as ST. rewrite pre_enter_state in ST. rewrite ST.
        unfold enter_items. reflexivity.
      * now rewrite app_nil_r.
      * now rewrite app_nil_r.
    + simpl. rewrite (first_cand_known _ _ _ _ H). simpl. rewrite H, D. simpl.
      now rewrite (fstep_internal _ _ _ _ _ H D).
  - rewrite (fstep_none _ _ _ _ H). simpl. destruct (event_known c e); simpl.
    + rewrite H. reflexivity.
    + destruct (c_ignore c); reflexivity.
Qed.
