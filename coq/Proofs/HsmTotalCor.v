(* HsmTotalCor.v — C03: "no internal error" stated from the initial configuration: every configuration reached from
   the one add_model creates, through any events, is one in which a trigger can only return a boolean or raise the
   invalid-trigger error - and leads to such a configuration again. *)
From Coq Require Import List Arith Bool Lia.
From M Require Import Base Flat Hsm HsmSpec.
From P Require Import MonadP HsmForest HsmResolve HsmReach HsmInit HsmDecl HsmTotal.
Import ListNotations.

Section Cor.
  Variable hm : hmachine.
  Local Opaque def_depth_bound.

  Definition reachable0 (f : forest) : Prop :=
    exists ini d, find_def (hm_states hm) ini = Some d /\ reach hm (chain_tree ini (initial_tree def_depth_bound d)) f.

  Lemma reachable0_good f : wf_defs hm = true -> reachable0 f -> good hm f.
  Proof.
    intros W (ini & d & FD & R). destruct (initial_good hm ini d W FD) as [U RG]. split.
    - eapply reach_uniq; eauto.
    - eapply reach_reg; eauto.
  Qed.

  Theorem no_internal_error_reachable ev c e p f tr f' r :
    (forall cb q, r_raise (ev cb q) = None) -> wf_defs hm = true -> dst_ok hm = true ->
    reachable0 f -> trigger_event hm ev c e p f = (tr, f', r) ->
    reachable0 f' /\
    (forall x, r = inl x -> (x = MachineError \/ x = AttributeError) /\ hm_on_exception hm = [] /\ ~ declares hm e f).
  Proof.
    intros NR W D RB H. pose proof (reachable0_good f W RB) as G.
    destruct (hsm_no_internal_error hm ev c e p f tr f' r NR W D G H) as [_ X]. split; [|exact X].
    destruct RB as (ini & d & FD & R). exists ini, d. split; [exact FD|].
    eapply reach_trans; [exact R|]. eapply trigger_event_reach; eauto.
  Qed.
End Cor.
