(* FlatMayExn.v — C12, last clause, flat engine, EVERY environment. *)
From Coq Require Import List Arith Bool Lia.
From M Require Import Base Flat FlatSpec.
From P Require Import MayGen.
Import ListNotations.

Section MayExn.
  Variable mc : machine.
  Variable ev : env.
  Variable c : ctx.
  Notation ids := (fun s : state => s).
  Notation qf := (q (V:=state) (S:=state) ev (escapes (m_on_exception mc))).

  Lemma q_can_one t : qf (can_one mc ev c t).
  Proof.
    unfold can_one. apply (q_handled ids ev c (m_on_exception mc)); [intros e0 p0 s0; destruct (m_on_exception mc); reflexivity|].
    apply q_bind; [apply q_run_cbs; auto|intros _]. apply q_bind; [apply q_run_cbs; auto|intros _].
    apply q_eval_conds; auto.
  Qed.

  Lemma q_can_loop ts : qf (can_loop mc ev c ts).
  Proof.
    induction ts as [|t r IH]; cbn [can_loop]; [apply q_ret|].
    destruct (dest_ok mc t); [|exact IH].
    apply q_bind; [apply q_can_one|intros ok]. destruct ok; [apply q_ret|exact IH].
  Qed.

  Theorem may_any_env e p cur tr s' r :
    registered mc cur = true ->
    can_trigger mc ev c e p cur = (tr, s', r) ->
    s' = cur /\ Forall (fun it => may_slot_f (it_slot it) = true) tr /\
    raised_last ev (escapes (m_on_exception mc)) p tr r.
  Proof.
    intros RG H. unfold can_trigger in H. unfold bind, get in H. cbn [length] in H.
    unfold registered in RG. destruct (get_state mc cur) as [sd|]; [|discriminate].
    destruct (lookup (m_events mc) e) as [ts|].
    - destruct (can_loop mc ev c (candidates ts cur) (p + 0) cur) as [[t2 s2] r2] eqn:E2.
      injection H as <- <- <-. destruct (q_can_loop _ _ _ _ _ _ E2) as (-> & F & L). rewrite Nat.add_0_r in L. auto.
    - unfold ret in H. injection H as <- <- <-. repeat split; [constructor|]. intros x X. discriminate.
  Qed.
End MayExn.
